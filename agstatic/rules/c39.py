"""C39 -- API-level resources follow the documented fallback rule.

The three functions are walked by the checker's own model evaluator (nothing of the
repository is executed) over an abstract state:

  * a model file system: <root>/aosp_permissions holds permissions_<l>.json for the
    available levels L = {l1 < l2 < l3} (also |L| = 1), <root>/api_permission_mappings holds
    a second level set M; os.listdir returns them in a non-sorted order;
  * the request r is an order-type point placed at each of the positions relative to L
    (below / equal / between / above; below additionally as 0 and as a negative number,
    because 0 is the one integer whose truth value differs), once as int and once as str;
  * only order comparisons, min/max/filter/sorted and int()/str() are defined on levels
    (arithmetic on a level leaves the domain -> analysis error, not a verdict).

 fallback       load_permissions(r, permtype) must load permtype from the file of: r itself
                if r in L; min(L) below; max(L) above; the greatest level below r otherwise;
                every recursive call must be on a level in L (termination); str requests
                must behave like int requests (int() before any comparison).
 mappings       load_permission_mappings(r) returns the document of level r if present in M,
                {} otherwise.
 module         load_api_specific_resource_module(name, api): api=None -> loader(DEFAULT_API);
                otherwise loader(api), and when that yields {} a second call with DEFAULT_API.
 concrete grid  the same fallback / module clauses for every request -5..20 (int and str) over levels {4, 7, 16}: decides code
                that computes with levels (table lookups, arithmetic), which leaves the order-type domain.
 history        two calls on one interpreter (mappings then permissions, and the other orders): the second answer equals the
                answer it gives when asked first.
 falsy-zero     api=0 (a valid int request, below the lowest level) must not be treated as
                "no api given".
The reported construct is the abstract failing request and the wrong choice (semantic
signature), e.g. "api=int 0 ...".
"""
from __future__ import annotations

import ast
import copy
import posixpath
import re as _re

from ..model import AnalysisError, walk_no_nested
from ..modeleval import Interp, Pt, PyModel, PyRaise, NotModelled, Sink, clone_func, _Builtin

ASR = "androguard/core/api_specific_resources/__init__.py"
ANDROCONF = "androguard/core/androconf.py"
ROOT = "/R"
OWN_MUTATION_ADEQUACY = True  # mutation_adequacy() below runs rule-specific breaking and benign edits
LENIENT = ("loguru.logger", "logger", "logging")


# --------------------------------------------------------------------------- model file system
class FileV(PyModel):
    def __init__(self, path):
        self.path = path

    def __enter__(self):
        return self

    def read(self):
        raise NotModelled("raw read of a model file")


class Loaded(PyModel):
    """document[key] of a model JSON file"""

    def __init__(self, path, key):
        self.path, self.key = path, key

    def __eq__(self, o):
        return isinstance(o, Loaded) and (o.path, o.key) == (self.path, self.key)

    def __hash__(self):
        return hash((self.path, self.key))

    def __repr__(self):
        return "%s[%r]" % (posixpath.relpath(self.path, ROOT), self.key)


class JsonDoc(PyModel):
    """a (non-empty) JSON document of the model file system"""

    def __init__(self, path):
        self.path = path

    def __getitem__(self, key):
        if isinstance(key, str):
            return Loaded(self.path, key)
        raise KeyError(key)

    def __eq__(self, o):
        return isinstance(o, JsonDoc) and o.path == self.path

    def __hash__(self):
        return hash(self.path)

    def __bool__(self):
        return True

    def __repr__(self):
        return posixpath.relpath(self.path, ROOT)


class MatchV(PyModel):
    def __init__(self, m):
        self._m = m

    def group(self, *a):
        return self._m.group(*a)

    def groups(self):
        return self._m.groups()

    def __bool__(self):
        return True


class FS:
    def __init__(self, perm_levels, map_levels):
        self.files = []
        for l in perm_levels:
            self.files.append("%s/aosp_permissions/permissions_%d.json" % (ROOT, l))
        for l in map_levels:
            self.files.append("%s/api_permission_mappings/permissions_%d.json" % (ROOT, l))

    def natives(self):
        fs = self

        def isfile(p):
            return isinstance(p, str) and posixpath.normpath(p) in fs.files

        def listdir(p):
            p = posixpath.normpath(p)
            out = [posixpath.basename(f) for f in fs.files if posixpath.dirname(f) == p]
            if not out and not any(f.startswith(p + "/") for f in fs.files):
                raise PyRaise("FileNotFoundError", (p,))
            return out

        def open_(p, mode="r", *a, **k):
            if not isfile(p):
                raise PyRaise("FileNotFoundError", (p,))
            if any(c in mode for c in "wax+"):
                raise NotModelled("model file opened for writing")
            return FileV(posixpath.normpath(p))

        def json_load(fp, *a, **k):
            if not isinstance(fp, FileV):
                raise NotModelled("json.load of %r" % (fp,))
            return JsonDoc(fp.path)

        def re_match(pat, s, flags=0):
            m = _re.match(pat, s, flags)
            return MatchV(m) if m else None

        def re_search(pat, s, flags=0):
            m = _re.search(pat, s, flags)
            return MatchV(m) if m else None

        def re_fullmatch(pat, s, flags=0):
            m = _re.fullmatch(pat, s, flags)
            return MatchV(m) if m else None

        return {
            "os.path.dirname": posixpath.dirname, "os.path.realpath": lambda p: p, "os.path.abspath": lambda p: p,
            "os.path.join": posixpath.join, "os.path.isfile": isfile, "os.path.exists": isfile,
            "os.path.basename": posixpath.basename, "os.listdir": listdir,
            "json.load": json_load, "re.match": re_match, "re.search": re_search, "re.fullmatch": re_fullmatch,
        }, open_


class ConfModel(PyModel):
    def __init__(self, d):
        self._d = d

    def __getitem__(self, k):
        return self._d[k]

    def get(self, k, default=None):
        return self._d.get(k, default)


# --------------------------------------------------------------------------- scenarios
def _positions(levels):
    """(label, representative) for every position of the request relative to L"""
    ls = sorted(levels)
    out = [("negative, below the lowest level", -5), ("0, below the lowest level", 0), ("below the lowest level", ls[0] - 5)]
    for i, l in enumerate(ls):
        out.append(("equal to level #%d of %d" % (i + 1, len(ls)), l))
        if i + 1 < len(ls):
            out.append(("between levels #%d and #%d" % (i + 1, i + 2), l + 5))
    out.append(("above the highest level", ls[-1] + 5))
    return out


def _choose(r, levels):
    if r in levels:
        return r
    if r > max(levels):
        return max(levels)
    if r < min(levels):
        return min(levels)
    return max(l for l in levels if l < r)


def _lvlname(v, levels):
    ls = sorted(levels)
    if v in ls:
        return "level #%d of %d" % (ls.index(v) + 1, len(ls))
    return "level %s (not available)" % v


def _show(res, levels):
    if isinstance(res, Loaded) or isinstance(res, JsonDoc):
        m = _re.search(r"permissions_(-?\d+)\.json$", res.path)
        where = posixpath.basename(posixpath.dirname(res.path))
        lv = _lvlname(int(m.group(1)), levels) if m else res.path
        return "%s %s%s" % (where, lv, "[%r]" % res.key if isinstance(res, Loaded) else "")
    if isinstance(res, str):
        return res
    return repr(res)


class Model:
    def __init__(self, repo, perm_levels, map_levels, default, listing_rotation=1, concrete=False):
        self.repo = repo
        self.concrete = concrete
        pl = list(perm_levels)
        pl = pl[listing_rotation % len(pl):] + pl[:listing_rotation % len(pl)]
        self.perm_levels = sorted(perm_levels)
        self.map_levels = sorted(map_levels)
        self.fs = FS(pl, list(map_levels))
        self.default = default

    def interp(self):
        natives, open_ = self.fs.natives()
        reps = set(self.perm_levels) | set(self.map_levels)

        def int_hook(v):
            return v if self.concrete else Pt("lvl", v, zero_ok=True)

        it = Interp(self.repo, natives=natives, lenient=LENIENT, int_hook=int_hook,
                    global_overrides={
                        (ASR, "__file__"): ROOT + "/__init__.py",
                        (ANDROCONF, "CONF"): ConfModel({"DEFAULT_API": self.default if self.concrete else Pt("default", self.default, zero_ok=True)}),
                        "open": _Builtin(lambda it_, *a, **k: open_(*a, **k), "open"),
                    })
        it.calls = []
        return it

    @staticmethod
    def _str_vs_level(e):
        """the one TypeError that is a positively established fact of this model: an ordering comparison between a str request
        and a level (Python refuses str < int), i.e. the int() coercion is missing"""
        msg = " ".join(str(a) for a in e.args_)
        return "not supported between" in msg and "str" in msg

    def run(self, func, args):
        """-> (result | 'raises X', interp)"""
        it = self.interp()
        log = []
        orig = it._call_closure

        def traced(fn, a, kw, recv):
            log.append((fn.qualname, list(a), dict(kw)))
            return orig(fn, a, kw, recv)
        it._call_closure = traced
        try:
            r = it.call(it.closure_of(func), args)
        except PyRaise as e:
            if not (e.reportable or (e.name == "TypeError" and self._str_vs_level(e))):
                raise AnalysisError("%s: the evaluator produced %s while executing the analysed code (model gap, not a verdict)" % (func.qualname, e))
            r = "raises %s" % e.name
        it.calls = log
        return r, it


def run_seq(model, calls):
    """several calls on ONE interpreter (module-level state of the analysed modules persists between them)
    -> list of results"""
    it = model.interp()
    out = []
    for func, args in calls:
        try:
            out.append(it.call(it.closure_of(func), args))
        except PyRaise as e:
            if not (e.reportable or (e.name == "TypeError" and Model._str_vs_level(e))):
                raise AnalysisError("%s: the evaluator produced %s while executing the analysed code (model gap, not a verdict)" % (func.qualname, e))
            out.append("raises %s" % e.name)
    return out


def _req(rep, as_str):
    return str(rep) if as_str else Pt("r", rep, zero_ok=True)


# --------------------------------------------------------------------------- rules
def check_load_permissions(sink, repo, m):
    lp = m.func("load_permissions")
    sink.analysed(lp)
    for levels in ((10, 20, 30), (10,)):
        for rot in (1, 2):
            if len(levels) == 1 and rot == 2:
                continue
            model = Model(repo, levels, (10, 20), 20, rot)
            for label, rep in _positions(levels):
                for as_str in (False, True):
                    for permtype in (("permissions", "groups") if not as_str else ("permissions",)):
                        want_level = _choose(rep, levels)
                        want = Loaded("%s/aosp_permissions/permissions_%d.json" % (ROOT, want_level), permtype)
                        got, it = model.run(lp, [_req(rep, as_str), permtype])
                        inst = "L=%d levels, listing order %d, request %s (%s), %s" % (len(levels), rot, label, "str" if as_str else "int", permtype)
                        sink.count("fallback_cases")
                        ok = got == want
                        construct = "request %s (%s) with %d available levels: loads %s, expected %s" % (
                            label, "str" if as_str else "int", len(levels), _show(got, levels), _show(want, levels))
                        sink.check("fallback", inst, ok, lp, construct,
                                   "load_permissions(%s%s, %r) with available levels %s (request %s) loads %s; the documented fallback selects %s"
                                   % ("'%s'" % rep if as_str else rep, "", permtype, list(levels), label, _show(got, levels), _show(want, levels)),
                                   node=lp.node, witness=dict(levels=list(levels), request=rep, as_str=as_str, permtype=permtype),
                                   detail="request %s -> %s" % (label, _show(got, levels)))
                        # termination: every recursive call is on an available level
                        rec = [c for c in it.calls if c[0] == lp.qualname][1:]
                        for c in rec:
                            a0 = c[1][0] if c[1] else c[2].get(lp.params()[0])
                            on_level = isinstance(a0, Pt) and a0.rep in levels
                            sink.check("fallback", inst + " recursion", on_level, lp,
                                       "request %s: recursive call on %s" % (label, a0 if not isinstance(a0, Pt) else _lvlname(a0.rep, levels)),
                                       "load_permissions re-enters itself with %r, which is not an available level (termination not guaranteed)" % (a0,),
                                       node=lp.node, detail="recursion on an available level (terminates after one step)")
                        sink.require(len(rec) <= 3, "load_permissions recursion deeper than 3 in the model")


def check_mappings(sink, repo, m):
    lm = m.func("load_permission_mappings")
    sink.analysed(lm)
    levels = (10, 20)
    model = Model(repo, (10, 20, 30), levels, 20)
    for label, rep in _positions(levels):
        for as_str in (False, True):
            got, it = model.run(lm, [_req(rep, as_str)])
            want = JsonDoc("%s/api_permission_mappings/permissions_%d.json" % (ROOT, rep)) if rep in levels else {}
            ok = (got == want) if not isinstance(want, dict) else (isinstance(got, dict) and got == {})
            sink.count("mapping_cases")
            sink.check("mappings", "request %s (%s)" % (label, "str" if as_str else "int"), ok, lm,
                       "request %s (%s): returns %s, expected %s" % (label, "str" if as_str else "int", _show(got, levels), _show(want, levels)),
                       "load_permission_mappings(%r) returns %s, expected %s" % (rep, _show(got, levels), _show(want, levels)),
                       node=lm.node, detail="request %s -> %s" % (label, _show(got, levels)))


def _truth_tests_of_param(func, pname):
    """expressions that take the truth value of the parameter itself"""
    out = []
    for n in walk_no_nested(func.node):
        cands = []
        if isinstance(n, (ast.If, ast.While, ast.IfExp)):
            cands.append(n.test)
        if isinstance(n, ast.UnaryOp) and isinstance(n.op, ast.Not):
            cands.append(n.operand)
        if isinstance(n, ast.BoolOp):
            cands.extend(n.values[:-1] if not isinstance(getattr(n, "_parent", None), (ast.If, ast.While)) else n.values)
        for c in cands:
            if isinstance(c, ast.Name) and c.id == pname:
                out.append(n if isinstance(n, (ast.UnaryOp, ast.BoolOp)) else c)
    return out


def check_module(sink, repo, conf):
    f = conf.func("load_api_specific_resource_module")
    sink.analysed(f)
    params = f.params()
    sink.require(len(params) >= 2, "load_api_specific_resource_module lost its api parameter")
    # the api parameter must default to None (domain: None | int | str)
    d = f.node.args.defaults
    sink.require(d and isinstance(d[-1], ast.Constant) and d[-1].value is None,
                 "the api parameter of load_api_specific_resource_module no longer defaults to None")
    # DEFAULT_API is a plain int constant of the configuration
    found = None
    for n in ast.walk(conf.tree):
        if isinstance(n, ast.Dict):
            for k, v in zip(n.keys, n.values):
                if isinstance(k, ast.Constant) and k.value == "DEFAULT_API":
                    found = v
    sink.require(found is not None and isinstance(found, ast.Constant) and isinstance(found.value, int) and not isinstance(found.value, bool),
                 "CONF['DEFAULT_API'] is no longer an int constant of default_conf")
    perm, maps, default = (10, 20, 30), (10, 20), 20
    model = Model(repo, perm, maps, default)
    lp_none, _ = model.run(f, ["aosp_permissions", None])
    lm_none, _ = model.run(f, ["api_permission_mappings", None])
    want_none_p = Loaded("%s/aosp_permissions/permissions_%d.json" % (ROOT, default), "permissions")
    want_none_m = JsonDoc("%s/api_permission_mappings/permissions_%d.json" % (ROOT, default))
    sink.count("module_cases", 2)
    sink.check("module", "aosp_permissions, api=None", lp_none == want_none_p, f,
               "api=None: aosp_permissions -> %s, expected the default level" % _show(lp_none, perm),
               "load_api_specific_resource_module('aosp_permissions') loads %s instead of CONF['DEFAULT_API']" % _show(lp_none, perm), node=f.node,
               detail="api=None -> %s" % _show(lp_none, perm))
    sink.check("module", "api_permission_mappings, api=None", lm_none == want_none_m, f,
               "api=None: api_permission_mappings -> %s, expected the default level" % _show(lm_none, maps),
               "load_api_specific_resource_module('api_permission_mappings') loads %s instead of CONF['DEFAULT_API']" % _show(lm_none, maps), node=f.node,
               detail="api=None -> %s" % _show(lm_none, maps))
    tests = _truth_tests_of_param(f, params[1])
    for res, levels, none_result in (("aosp_permissions", perm, lp_none), ("api_permission_mappings", maps, lm_none)):
        for label, rep in _positions(levels):
            for as_str in (False, True):
                if res == "aosp_permissions":
                    want = Loaded("%s/aosp_permissions/permissions_%d.json" % (ROOT, _choose(rep, levels)), "permissions")
                else:
                    want = JsonDoc("%s/api_permission_mappings/permissions_%d.json" % (ROOT, rep if rep in levels else default))
                got, it = model.run(f, [res, _req(rep, as_str)])
                ok = got == want
                sink.count("module_cases")
                kind = "str" if as_str else "int"
                inst = "%s, api %s (%s)" % (res, label, kind)
                if not ok and rep == 0 and not as_str and got == none_result:
                    sink.count("falsy_zero_failures")
                    sink.check("falsy-zero", inst, False, f,
                               "api=int 0 handled as api=None: %s -> %s, expected %s" % (res, _show(got, levels), _show(want, levels)),
                               "load_api_specific_resource_module(%r, 0) loads %s (the answer for api=None); 0 is a valid request below the lowest "
                               "level and must select %s%s" % (res, _show(got, levels), _show(want, levels),
                                                               "; truth-value test of the parameter: %s" % "; ".join(ast.unparse(t) for t in tests) if tests else ""),
                               node=tests[0] if tests else f.node, witness=dict(resource=res, api=0, got=_show(got, levels), want=_show(want, levels)))
                    continue
                sink.check("module" if rep != 0 or as_str else "falsy-zero", inst, ok, f,
                           "api %s (%s): %s -> %s, expected %s" % (label, kind, res, _show(got, levels), _show(want, levels)),
                           "load_api_specific_resource_module(%r, %s) yields %s, expected %s" % (
                               res, repr(str(rep)) if as_str else rep, _show(got, levels), _show(want, levels)), node=f.node,
                           detail="api %s -> %s" % (label, _show(got, levels)))
                if res == "api_permission_mappings" and rep not in levels:
                    # {} from the loader => second call with the default level
                    calls = [c for c in it.calls if c[0] == "load_permission_mappings"]
                    last = calls[-1][1][0] if calls and calls[-1][1] else None
                    second = 1 <= len(calls) <= 2 and isinstance(last, Pt) and last.rep == default
                    sink.check("module", inst + " second call", second, f,
                               "api %s (%s): loader calls %s" % (label, kind, [str(c[1][0]) if c[1] else "?" for c in calls]),
                               "a missing mapping level must end in one loader call with CONF['DEFAULT_API'] (at most two calls); calls seen: %s"
                               % [str(c[1][0]) if c[1] else "?" for c in calls], node=f.node,
                               detail="{} from the loader -> second call with DEFAULT_API")
    # unknown resource names are rejected
    got, _ = model.run(f, ["no_such_resource", None])
    sink.check("module", "unknown resource", isinstance(got, str) and got.startswith("raises"), f,
               "unknown resource name: %s" % (got if isinstance(got, str) else _show(got, perm)),
               "an unknown resource name is not rejected", node=f.node, detail="unknown resource -> %s" % (got,))


def check_concrete(sink, repo, m, conf):
    """the same clauses on a concrete grid: levels {4, 7, 16}, mappings {7, 16}, default 16, every request from -5 to 20 as int
    and as str.  Decides code that does arithmetic / indexing on levels (outside the order-type domain) and, by issuing two
    calls on one interpreter, answers that depend on an earlier call."""
    lp = m.func("load_permissions")
    f = conf.func("load_api_specific_resource_module")
    perm, maps, default = (4, 7, 16), (7, 16), 16
    for rot in (1, 2):
        model = Model(repo, perm, maps, default, rot, concrete=True)
        for r in range(-5, 21):
            for as_str in (False, True):
                arg = str(r) if as_str else r
                want = Loaded("%s/aosp_permissions/permissions_%d.json" % (ROOT, _choose(r, perm)), "permissions")
                got, _ = model.run(lp, [arg, "permissions"])
                sink.count("concrete_cases")
                sink.check("fallback", "concrete grid: levels %s listing %d, request %r" % (list(perm), rot, arg), got == want, lp,
                           "concrete request %r with levels %s: loads %s, expected %s" % (arg, list(perm), _show(got, perm), _show(want, perm)),
                           "load_permissions(%r, 'permissions') with available levels %s loads %s; the documented fallback selects %s"
                           % (arg, list(perm), _show(got, perm), _show(want, perm)), node=lp.node,
                           detail="request %r -> %s" % (arg, _show(got, perm)))
    model = Model(repo, perm, maps, default, 1, concrete=True)

    def want_for(res, r):
        if res == "aosp_permissions":
            return Loaded("%s/aosp_permissions/permissions_%d.json" % (ROOT, _choose(default if r is None else r, perm)), "permissions")
        return JsonDoc("%s/api_permission_mappings/permissions_%d.json" % (ROOT, r if r in maps else default))
    for res, levels in (("aosp_permissions", perm), ("api_permission_mappings", maps)):
        for r in [None] + list(range(-5, 21)):
            for as_str in ((False,) if r is None else (False, True)):
                if r == 0 and not as_str:
                    continue  # int 0 is the falsy-zero clause of the order-type part
                arg = str(r) if as_str else r
                got, _ = model.run(f, [res, arg])
                sink.count("concrete_cases")
                sink.check("module", "concrete grid: %s, api %r" % (res, arg), got == want_for(res, r), f,
                           "concrete api %r: %s -> %s, expected %s" % (arg, res, _show(got, levels), _show(want_for(res, r), levels)),
                           "load_api_specific_resource_module(%r, %r) yields %s, expected %s" % (res, arg, _show(got, levels), _show(want_for(res, r), levels)),
                           node=f.node, detail="api %r -> %s" % (arg, _show(got, levels)))
    # ---- answers must not depend on earlier calls (two calls on one interpreter, every order of the two resources)
    names = ("api_permission_mappings", "aosp_permissions")
    for r in (4, 7, 10, 16, 20):
        for first, second in ((names[0], names[1]), (names[1], names[0]), (names[1], names[1]), (names[0], names[0])):
            for as_str in (False, True):
                arg = str(r) if as_str else r
                res = run_seq(model, [(f, [first, arg]), (f, [second, arg])])
                lv = perm if second == "aosp_permissions" else maps
                want = want_for(second, r)
                sink.count("history_cases")
                sink.check("history", "%s(%r) then %s(%r)" % (first, arg, second, arg), res[1] == want, f,
                           "after %s, api %r: %s -> %s, expected %s" % (first, arg, second, _show(res[1], lv), _show(want, lv)),
                           "load_api_specific_resource_module(%r, %r) after a call for %r with the same api yields %s; asked first it yields %s "
                           "(the answer depends on an earlier call)" % (second, arg, first, _show(res[1], lv), _show(want, lv)), node=f.node,
                           detail="second call -> %s, as if asked first" % _show(res[1], lv))


def core(sink, repo):
    m = sink.mod(ASR)
    conf = sink.mod(ANDROCONF)
    try:
        check_load_permissions(sink, repo, m)
        check_mappings(sink, repo, m)
        check_module(sink, repo, conf)
    except NotModelled as e:
        if "order-type" not in str(e):
            raise
        # the code computes with levels (arithmetic, indexing): outside the order-type domain; the concrete grid below decides
        sink.count("order_type_left")
        sink.note("order-type part left its domain (%s); decided on the concrete grid only" % e)
    check_concrete(sink, repo, m, conf)


# --------------------------------------------------------------------------- thorough: mutation adequacy
def _mutants(m, conf):
    lp = m.func("load_permissions")
    lm = m.func("load_permission_mappings")
    f = conf.func("load_api_specific_resource_module")
    out = []

    def swap_call(frm, to, nth=0):
        def t(node):
            k = 0
            for n in ast.walk(node):
                if isinstance(n, ast.Call) and isinstance(n.func, ast.Name) and n.func.id == frm:
                    if k == nth:
                        n.func.id = to
                        return True
                    k += 1
            return False
        return t
    out.append(("load_permissions: first max() -> min()", lp, swap_call("max", "min", 0), True))
    out.append(("load_permissions: first min() -> max()", lp, swap_call("min", "max", 0), True))

    def cmp_swap(frm, to):
        def t(node):
            for n in ast.walk(node):
                if isinstance(n, ast.Compare) and len(n.ops) == 1 and isinstance(n.ops[0], frm) and not isinstance(getattr(n, "_p", None), ast.Lambda):
                    n.ops[0] = to()
                    return True
            return False
        return t
    out.append(("load_permissions: first '>' -> '<'", lp, cmp_swap(ast.Gt, ast.Lt), True))

    def lambda_lt_to_gt(node):
        for n in ast.walk(node):
            if isinstance(n, ast.Lambda) and isinstance(n.body, ast.Compare) and isinstance(n.body.ops[0], ast.Lt):
                n.body.ops[0] = ast.Gt()
                return True
        return False
    out.append(("load_permissions: lower-level filter x < r -> x > r", lp, lambda_lt_to_gt, True))

    def drop_int(node):
        for i, s in enumerate(node.body):
            if isinstance(s, ast.Assign) and isinstance(s.value, ast.Call) and isinstance(s.value.func, ast.Name) and s.value.func.id == "int":
                del node.body[i]
                return True
        return False
    out.append(("load_permissions: int() coercion dropped", lp, drop_int, True))

    def default_twice(node):
        for n in ast.walk(node):
            if isinstance(n, ast.If) and isinstance(n.test, ast.Compare) and isinstance(n.test.comparators[0], ast.Dict):
                n.test = ast.Constant(False)
                return True
        return False
    out.append(("module: {} fallback disabled", f, default_twice, True))

    def none_ignored(node):
        for i, s in enumerate(node.body):
            if isinstance(s, ast.If) and any(isinstance(x, ast.Name) and x.id == "api" for x in ast.walk(s.test)) and \
                    not any(isinstance(x, ast.Raise) for x in ast.walk(s)):
                del node.body[i]
                return True
        return False
    # (not a mutant of this rule any more: dropping the None test only ends in int(None) -> TypeError, which under the reporting
    #  policy is a model gap (exit 2), not a finding)

    def wrong_dir(node):
        for n in ast.walk(node):
            if isinstance(n, ast.Constant) and n.value == "api_permission_mappings":
                n.value = "aosp_permissions"
                return True
        return False
    out.append(("load_permission_mappings: reads the permissions directory", lm, wrong_dir, True))

    # benign
    def rename(old_new):
        def t(node):
            ch = False
            for n in ast.walk(node):
                if isinstance(n, ast.Name) and n.id in old_new:
                    n.id = old_new[n.id]
                    ch = True
                if isinstance(n, ast.arg) and n.arg in old_new:
                    n.arg = old_new[n.arg]
                    ch = True
            return ch
        return t
    out.append(("load_permissions: locals renamed", lp, rename({"levels": "available", "permissions_file": "path", "lower_level": "below"}), False))

    def flip(node):
        ch = False
        fl = {ast.Gt: ast.Lt, ast.Lt: ast.Gt}
        for n in ast.walk(node):
            if isinstance(n, ast.If) and isinstance(n.test, ast.Compare) and len(n.test.ops) == 1 and type(n.test.ops[0]) in fl:
                c = n.test
                c.left, c.comparators[0] = c.comparators[0], c.left
                c.ops[0] = fl[type(c.ops[0])]()
                ch = True
        return ch
    out.append(("load_permissions: comparisons mirrored", lp, flip, False))
    return out


def mutation_adequacy(ctx, repo):
    m = ctx.mod(ASR)
    conf = ctx.mod(ANDROCONF)
    base = Sink(ctx)
    core(base, repo)
    base_set = sorted(base.findings)
    killed = total = bsilent = btotal = 0
    for name, func, tr, breaking in _mutants(m, conf):
        orig = func.node
        mut = clone_func(orig)
        if not tr(mut):
            raise AnalysisError("mutation %r no longer applies (rule lost its anchor)" % name)
        ast.fix_missing_locations(mut)
        func.node = mut
        try:
            s = Sink(ctx)
            try:
                core(s, repo)
                res = sorted(s.findings)
            except AnalysisError as e:
                res = "analysis-error: %s" % e
        finally:
            func.node = orig
        if breaking:
            total += 1
            if not isinstance(res, str) and res != base_set:
                killed += 1
                new = [x for x in res if x not in base_set]
                ctx.ob("mutation", name, True, "mutant reported: %s" % (new[0][2] if new else "finding set changed"))
            else:
                raise AnalysisError("rule lost its teeth: breaking mutant survived: %s (%s)" % (name, res if isinstance(res, str) else "same findings"))
        else:
            btotal += 1
            if res == base_set:
                bsilent += 1
                ctx.ob("mutation", name, True, "benign edit: findings unchanged")
            else:
                raise AnalysisError("benign edit changed the verdict: %s -> %s" % (name, res if isinstance(res, str) else [x for x in res if x not in base_set]))
    ctx.extra.update(mutants_killed=killed, mutants_total=total, benign_silent=bsilent, benign_total=btotal)


def run(ctx):
    ctx.explanation = __doc__
    try:
        core(ctx, ctx.repo)
    except PyRaise as e:
        raise AnalysisError("model evaluation raised %s outside a decided clause" % e)
    if not ctx.counts.get("order_type_left"):
        ctx.floor("fallback_cases", 69)
        ctx.floor("mapping_cases", 14)
        ctx.floor("module_cases", 34)
    ctx.floor("concrete_cases", 200)
    ctx.floor("history_cases", 40)
    ctx.assume("os.path.isfile(<dir>/permissions_<n>.json) holds exactly for the levels that os.listdir(<dir>) shows "
               "(one model file system serves both calls)")
    ctx.assume("JSON documents of existing levels are non-empty dicts; CONF['DEFAULT_API'] is an available level of both directories")
    ctx.note("not decided: the content of the JSON files; behaviour for an empty permissions directory; non-numeric api strings")
    if ctx.tier == "thorough":
        mutation_adequacy(ctx, ctx.repo)
