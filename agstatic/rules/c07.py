"""C07 -- DEX parsing does not depend on the order of the map list.

Static conditions that make the parse a function of the *set* of map entries:
(1) single sorted parse loop: MapItem.parse() is called only from MapList.__init__,
    on the loop variable of a loop over sorted(<all map items>, key=K) where
    K(mi) = load_order[<type of mi>] and load_order is the value of
    TypeMapItem.determine_load_order().  That function is closed (no inputs): it is
    folded by the checker's own evaluator; its result must be total over the 21
    map types, injective, and a topological order of _get_dependencies()
    (acyclic, total);  the item is registered under its own type in the same loop;
(2) cursor independence: for every map type, MapItem.parse() positions the
    stream with a seek whose target is a function of the entry's own offset field
    only, immediately before constructing the item; map entries themselves are
    read at a fixed 12-byte stride independent of what the entry constructor consumed;
(3) no parse-time function reads the map item list; get_item_type selects by
    type; ClassManager.add_type_item stores by type / offset keys (the
    registration-order list is read only by get_next_offset_item and is recorded);
(4) dependency soundness: for each type T the map sections read at parse time
    (call-graph closure of the constructors chosen in T's branch down to the
    ClassManager accessors, each accessor mapped to the section it indexes) are
    contained in the transitive closure of _get_dependencies()[T].
Not decided: map lists that contain the same type twice (sorted() is stable).
"""
from __future__ import annotations

OWN_MUTATION_ADEQUACY = True  # thorough tier: rule-specific in-place AST mutants (mutate / re-run core / undo), see thorough()

import ast

import networkx as nx

from ..absint import Sym, Lin, Obj, Comp, Raised, explore, show
from ..bits import Bits
from ..consts import Folder, Ref, EnumVal
from ..dexmodel import DexInterp, StreamV, CMInfo, CallGraph, bind_ctor_args, prov, show_prov, slot_bits, STREAM_SPAN
from ..model import DEX, DEX_TYPES, AnalysisError, walk_no_nested, dotted, parent, norm
from ..spec import dexformat as spec
from .c05 import Sink


# ---------------------------------------------------------------------------
# a small evaluator for *closed* builder functions (no parameters, no I/O): dicts, sets, ints, enum members
class _Brk(Exception):
    pass


class _Cnt(Exception):
    pass


class _Ret(Exception):
    def __init__(self, v):
        self.v = v


class FoldRaise(Exception):
    def __init__(self, node, text):
        self.node, self.text = node, text


class ClosedFold:
    def __init__(self, module, members, enum_name, funcs, budget=200000):
        self.module, self.members, self.enum_name, self.funcs = module, members, enum_name, funcs
        self.budget = budget

    def out(self, node, what):
        raise AnalysisError("%s:%d: %s is outside the closed-function fragment: %s" % (
            self.module.relpath, getattr(node, "lineno", 0), what, ast.unparse(node)[:80]))

    def call(self, func):
        if func.params():
            self.out(func.node, "function with parameters")
        env = {}
        try:
            self.block(func.node.body, env)
        except _Ret as r:
            return r.v
        return None

    def block(self, stmts, env):
        for s in stmts:
            self.stmt(s, env)

    def stmt(self, s, env):
        self.budget -= 1
        if self.budget < 0:
            raise AnalysisError("closed-function fold: step budget exhausted (non-terminating loop?)")
        if isinstance(s, ast.Expr):
            if not isinstance(s.value, ast.Constant):
                self.ev(s.value, env)
        elif isinstance(s, ast.Assign):
            v = self.ev(s.value, env)
            for t in s.targets:
                self.assign(t, v, env)
        elif isinstance(s, ast.AugAssign):
            cur = self.ev(ast.copy_location(_as_load(s.target), s.target), env)
            v = self.binop(s.op, cur, self.ev(s.value, env), s)
            self.assign(s.target, v, env)
        elif isinstance(s, ast.If):
            self.block(s.body if self.ev(s.test, env) else s.orelse, env)
        elif isinstance(s, ast.While):
            while self.ev(s.test, env):
                self.budget -= 1
                if self.budget < 0:
                    raise AnalysisError("closed-function fold: step budget exhausted (non-terminating loop?)")
                try:
                    self.block(s.body, env)
                except _Brk:
                    break
                except _Cnt:
                    continue
            else:
                self.block(s.orelse, env)
        elif isinstance(s, ast.For):
            it = self.ev(s.iter, env)
            if isinstance(it, dict):
                it = list(it.keys())
            elif isinstance(it, (set, frozenset)):
                it = sorted(it, key=int)
            broke = False
            for x in list(it):
                self.assign(s.target, x, env)
                try:
                    self.block(s.body, env)
                except _Brk:
                    broke = True
                    break
                except _Cnt:
                    continue
            if not broke:
                self.block(s.orelse, env)
        elif isinstance(s, ast.Break):
            raise _Brk()
        elif isinstance(s, ast.Continue):
            raise _Cnt()
        elif isinstance(s, ast.Pass):
            pass
        elif isinstance(s, ast.Return):
            raise _Ret(self.ev(s.value, env) if s.value is not None else None)
        elif isinstance(s, ast.Raise):
            raise FoldRaise(s, ast.unparse(s)[:100])
        elif isinstance(s, ast.Assert):
            if not self.ev(s.test, env):
                raise FoldRaise(s, ast.unparse(s)[:100])
        else:
            self.out(s, "statement")

    def assign(self, t, v, env):
        if isinstance(t, ast.Name):
            env[t.id] = v
        elif isinstance(t, (ast.Tuple, ast.List)):
            vs = list(v)
            if len(vs) != len(t.elts):
                self.out(t, "unpacking of %d values" % len(vs))
            for tt, vv in zip(t.elts, vs):
                self.assign(tt, vv, env)
        elif isinstance(t, ast.Subscript):
            o = self.ev(t.value, env)
            if not isinstance(o, (dict, list)):
                self.out(t, "subscript store")
            o[self.ev(t.slice, env)] = v
        else:
            self.out(t, "assignment target")

    def binop(self, op, a, b, node):
        import operator as o
        tbl = {ast.Add: o.add, ast.Sub: o.sub, ast.Mult: o.mul, ast.BitOr: o.or_, ast.BitAnd: o.and_, ast.FloorDiv: o.floordiv, ast.Mod: o.mod}
        if type(op) not in tbl:
            self.out(node, "operator")
        try:
            return tbl[type(op)](a, b)
        except Exception as ex:
            self.out(node, "operation (%s)" % ex)

    def ev(self, e, env):
        self.budget -= 1
        if self.budget < 0:
            raise AnalysisError("closed-function fold: step budget exhausted")
        if isinstance(e, ast.Constant):
            return e.value
        if isinstance(e, ast.Name):
            if e.id in env:
                return env[e.id]
            if e.id in ("True", "False", "None"):
                return {"True": True, "False": False, "None": None}[e.id]
            self.out(e, "free name")
        if isinstance(e, ast.Attribute):
            d = dotted(e)
            if d and d.startswith(self.enum_name + ".") and d.split(".", 1)[1] in self.members:
                return self.members[d.split(".", 1)[1]]
            self.out(e, "attribute")
        if isinstance(e, (ast.Tuple, ast.List)):
            vs = [self.ev(x, env) for x in e.elts]
            return tuple(vs) if isinstance(e, ast.Tuple) else vs
        if isinstance(e, ast.Set):
            return {self.ev(x, env) for x in e.elts}
        if isinstance(e, ast.Dict):
            return {self.ev(k, env): self.ev(v, env) for k, v in zip(e.keys, e.values)}
        if isinstance(e, ast.UnaryOp):
            v = self.ev(e.operand, env)
            if isinstance(e.op, ast.Not):
                return not v
            if isinstance(e.op, ast.USub):
                return -v
            self.out(e, "unary operator")
        if isinstance(e, ast.BoolOp):
            last = None
            for x in e.values:
                last = self.ev(x, env)
                if isinstance(e.op, ast.And) and not last:
                    return last
                if isinstance(e.op, ast.Or) and last:
                    return last
            return last
        if isinstance(e, ast.BinOp):
            return self.binop(e.op, self.ev(e.left, env), self.ev(e.right, env), e)
        if isinstance(e, ast.IfExp):
            return self.ev(e.body if self.ev(e.test, env) else e.orelse, env)
        if isinstance(e, ast.Compare):
            left = self.ev(e.left, env)
            for op, c in zip(e.ops, e.comparators):
                right = self.ev(c, env)
                r = self.cmp(op, left, right, e)
                if not r:
                    return False
                left = right
            return True
        if isinstance(e, ast.Subscript):
            o = self.ev(e.value, env)
            k = self.ev(e.slice, env) if not isinstance(e.slice, ast.Slice) else self.out(e, "slice")
            try:
                return o[k]
            except Exception as ex:
                raise FoldRaise(e, "%s: %s" % (type(ex).__name__, ex))
        if isinstance(e, (ast.ListComp, ast.SetComp, ast.GeneratorExp)):
            if len(e.generators) != 1:
                self.out(e, "comprehension")
            g = e.generators[0]
            it = self.ev(g.iter, env)
            if isinstance(it, (set, frozenset)):
                it = sorted(it, key=int)
            out = []
            for x in list(it):
                env2 = dict(env)
                self.assign(g.target, x, env2)
                if all(self.ev(c, env2) for c in g.ifs):
                    out.append(self.ev(e.elt, env2))
            return set(out) if isinstance(e, ast.SetComp) else out
        if isinstance(e, ast.Call):
            return self.callx(e, env)
        self.out(e, "expression")

    def cmp(self, op, a, b, node):
        if isinstance(op, ast.Is):
            return a is b or (isinstance(a, (bool, type(None))) and a == b and type(a) == type(b))
        if isinstance(op, ast.IsNot):
            return not self.cmp(ast.Is(), a, b, node)
        if isinstance(op, ast.Eq):
            return a == b
        if isinstance(op, ast.NotEq):
            return a != b
        if isinstance(op, ast.In):
            return a in b
        if isinstance(op, ast.NotIn):
            return a not in b
        import operator as o
        tbl = {ast.Lt: o.lt, ast.LtE: o.le, ast.Gt: o.gt, ast.GtE: o.ge}
        if type(op) in tbl:
            return tbl[type(op)](a, b)
        self.out(node, "comparison")

    def callx(self, e, env):
        fn = e.func
        if e.keywords:
            self.out(e, "keyword arguments")
        args = [self.ev(a, env) for a in e.args]
        if isinstance(fn, ast.Name):
            n = fn.id
            if n in ("dict", "OrderedDict"):
                if not args:
                    return {}
                if isinstance(args[0], dict):
                    return dict(args[0])
                return {k: v for k, v in args[0]}
            if n == "set":
                return set(args[0]) if args else set()
            if n == "frozenset":
                return frozenset(args[0]) if args else frozenset()
            if n == "list":
                return list(args[0]) if args else []
            if n == "len":
                return len(args[0])
            if n == "sorted":
                return sorted(args[0], key=lambda x: (int(x[0]),) if isinstance(x, tuple) else int(x))
            if n in ("min", "max"):
                return (min if n == "min" else max)(args[0] if len(args) == 1 else args)
            if n == "range":
                return list(range(*args))
            if n == "Exception":
                return ("exception", args)
            self.out(e, "call")
        if isinstance(fn, ast.Attribute):
            d = dotted(fn)
            if d and d.startswith(self.enum_name + ".") and d.split(".", 1)[1] in self.funcs:
                return self.call(self.funcs[d.split(".", 1)[1]])  # evaluated afresh: new dict / set objects
            o = self.ev(fn.value, env)
            m = fn.attr
            if isinstance(o, dict) and m in ("items", "keys", "values", "pop", "get", "copy", "popitem"):
                if m == "items":
                    return list(o.items())
                if m == "keys":
                    return list(o.keys())
                if m == "values":
                    return list(o.values())
                if m == "copy":
                    return dict(o)
                try:
                    return getattr(o, m)(*args)
                except KeyError as ex:
                    raise FoldRaise(e, "KeyError: %s" % ex)
            if isinstance(o, set) and m in ("discard", "remove", "add", "copy", "issubset", "union", "difference"):
                try:
                    return getattr(o, m)(*args)
                except KeyError as ex:
                    raise FoldRaise(e, "KeyError: %s" % ex)
            if isinstance(o, list) and m in ("append", "extend", "pop", "index", "remove", "insert"):
                try:
                    return getattr(o, m)(*args)
                except (ValueError, IndexError) as ex:
                    raise FoldRaise(e, "%s: %s" % (type(ex).__name__, ex))
            self.out(e, "method call")
        self.out(e, "call")


def _as_load(t):
    import copy
    t2 = copy.copy(t)
    t2.ctx = ast.Load()
    return t2


# ---------------------------------------------------------------------------
class _T:
    def __init__(self, f):
        self.qualname, self.file, self.line = f.qualname, f.file, f.line


def run(ctx):
    ctx.explanation = __doc__
    core(ctx)
    ctx.floor("map_types", 21)
    ctx.floor("parse_branches", 18)       # 21 types - MAP_LIST (itself) - CALL_SITE_ITEM - METHOD_HANDLE_ITEM (not parsed)
    ctx.floor("constructor_chains", 18)
    ctx.floor("constructors_in_chains", 30)
    ctx.floor("dependency_edges", 40)
    ctx.floor("parse_calls", 1)
    ctx.floor("section_reads", 25)
    ctx.floor("entry_list_uses", 2)
    ctx.floor("parse_read_attrs", 4)
    ctx.assume("TypeMapItem(x) raises ValueError for a type code outside the enumeration, so every MapItem carries one of the 21 members")
    ctx.assume("a map list names every type at most once (format requirement); duplicates are not decided (sorted() is stable)")
    positive_control(ctx)
    if ctx.tier == "thorough":
        thorough(ctx)


def _constant_rank(tm):
    node = tm.func("TypeMapItem.determine_load_order").node
    for n in ast.walk(node):
        if isinstance(n, ast.Assign) and isinstance(n.targets[0], ast.Subscript) and not isinstance(n.value, ast.Constant):
            old = n.value
            n.value = ast.Constant(0)

            def undo():
                n.value = old
            return undo
    return None


def positive_control(ctx):
    """one seeded violation per run (in memory): with every rank equal the order rule must fire"""
    tm = ctx.mod(DEX_TYPES)
    undo = _constant_rank(tm)
    ctx.require(undo is not None, "positive control: no rank assignment in determine_load_order to seed")
    try:
        s = Sink(ctx.repo)
        try:
            cmi = CMInfo(ctx.repo, Folder(ctx.repo))
            check_order(s, tm, cmi, cmi.members)
        except AnalysisError:
            pass
    finally:
        undo()
    fired = any(f[0].startswith("order/") for f in s.findings)
    ctx.ob("positive-control", "seeded constant rank", fired, "order rule fires on the seeded violation")
    ctx.require(fired, "positive control did not fire: the load-order rule no longer detects equal ranks")


def core(ctx):
    repo = ctx.repo
    m = ctx.mod(DEX)
    tm = ctx.mod(DEX_TYPES)
    folder = Folder(repo)
    cmi = CMInfo(repo, folder)
    members = cmi.members
    ctx.count("map_types", len(members))
    # spec cross-check of the type codes (cheap; makes the member set an anchored fact)
    codes = {k.upper(): v for k, v in spec.MAP_TYPE_CODES.items()}
    codes["CALL_SITE_ITEM"] = codes.pop("CALL_SITE_ID_ITEM")
    for name, v in sorted(members.items()):
        ctx.check("map-types", "TypeMapItem.%s" % name, codes.get(name) == int(v), _T(tm.func("TypeMapItem._get_dependencies")),
                  "TypeMapItem.%s = 0x%x" % (name, int(v)),
                  "map type code of %s is 0x%x in the repository, %s in the format document" % (
                      name, int(v), ("0x%x" % codes[name]) if name in codes else "absent"))
    deps, order = check_order(ctx, tm, cmi, members)
    lst_attr = check_sorted_loop(ctx, repo, m, folder, cmi)
    ctors = check_seeks(ctx, repo, m, folder, cmi, members)
    closures = check_dependencies(ctx, repo, m, tm, cmi, deps, ctors)
    check_list_order(ctx, repo, m, cmi, lst_attr, closures)
    check_entry_isolation(ctx, repo, m, cmi, lst_attr, closures)


# ---- (1c) load order ----------------------------------------------------------------------
def check_order(ctx, tm, cmi, members):
    enum = cmi.enum_cls
    fdep = enum.lookup("_get_dependencies")
    ford = enum.lookup("determine_load_order")
    ctx.require(fdep is not None and ford is not None, "anchor vanished: TypeMapItem._get_dependencies / determine_load_order")
    ctx.analysed(fdep)
    ctx.analysed(ford)
    funcs = {n: f for n, f in enum.methods.items()}
    fold = ClosedFold(tm, members, enum.name, funcs)
    try:
        deps = fold.call(fdep)
    except FoldRaise as r:
        raise AnalysisError("_get_dependencies raises: %s" % r.text)
    ctx.require(isinstance(deps, dict) and all(isinstance(v, (set, frozenset)) for v in deps.values()),
                "_get_dependencies does not fold to a dict of sets")
    allm = set(members.values())
    names = {int(v): k for k, v in members.items()}

    def nm(x):
        return names.get(int(x), str(x)) if isinstance(x, int) else str(x)

    missing = sorted(nm(x) for x in allm - set(deps))
    ctx.check("deps/total", "_get_dependencies keys", not missing, fdep, "dependency table keys",
              "map types without an entry in _get_dependencies(): %s (determine_load_order()[type] raises KeyError for them)" % missing,
              detail="%d keys = %d enum members" % (len(deps), len(allm)))
    g = nx.DiGraph()
    for t, ds in deps.items():
        g.add_node(t)
        for d in ds:
            ctx.count("dependency_edges")
            ctx.check("deps/total", "dep %s -> %s" % (nm(t), nm(d)), d in allm and d in deps, fdep, "%s depends on %s" % (nm(t), nm(d)),
                      "dependency %s of %s is not a map type with an entry of its own" % (nm(d), nm(t)))
            g.add_edge(t, d)
    cyc = None
    try:
        cyc = nx.find_cycle(g)
    except nx.NetworkXNoCycle:
        pass
    ctx.check("deps/acyclic", "_get_dependencies", cyc is None, fdep, "dependency table cycle",
              "dependency table is cyclic: %s" % (" -> ".join(nm(a) for a, b in cyc) if cyc else ""),
              detail="acyclic over %d edges" % g.number_of_edges())
    # fold determine_load_order()
    fold2 = ClosedFold(tm, members, enum.name, funcs)
    try:
        order = fold2.call(ford)
    except FoldRaise as r:
        ctx.check("order/total", "determine_load_order", False, ford, "determine_load_order raises",
                  "determine_load_order() raises on the repository's own table: %s" % r.text, node=r.node)
        return deps, None
    ctx.require(isinstance(order, dict), "determine_load_order() does not fold to a dict")
    miss = sorted(nm(x) for x in allm - set(order))
    ctx.check("order/total", "determine_load_order", not miss, ford, "load order keys",
              "load order has no rank for %s: the sort key raises KeyError for such a map entry" % miss,
              detail="rank defined for all %d map types" % len(allm))
    ranks = list(order.values())
    dup = sorted({nm(k) for k, v in order.items() if ranks.count(v) > 1})
    ctx.check("order/injective", "determine_load_order", not dup and all(isinstance(v, int) for v in ranks), ford, "load order ranks",
              "types %s share a rank: their relative parse order would follow the map list order" % dup,
              detail="%d distinct ranks" % len(set(ranks)))
    for t, ds in deps.items():
        for d in ds:
            if t in order and d in order:
                ctx.check("order/topological", "%s after %s" % (nm(t), nm(d)), order[d] < order[t], ford,
                          "rank(%s) < rank(%s)" % (nm(d), nm(t)),
                          "%s (rank %s) is parsed before its dependency %s (rank %s)" % (nm(t), order[t], nm(d), order[d]),
                          detail="rank %s < %s" % (order[d], order[t]))
    return deps, order


# ---- (1a,b) the sorted parse loop ----------------------------------------------------------------
def single_def(func, name, before=None):
    """the unique assignment `name = <expr>` in func (else None / AnalysisError when ambiguous)"""
    defs = []
    for n in walk_no_nested(func.node):
        if isinstance(n, ast.Assign):
            for t in n.targets:
                for x in ast.walk(t):
                    if isinstance(x, ast.Name) and x.id == name and isinstance(x.ctx, ast.Store):
                        defs.append(n if (len(n.targets) == 1 and t is x) else None)
        elif isinstance(n, (ast.AugAssign, ast.AnnAssign, ast.For, ast.With, ast.NamedExpr)):
            tg = n.target if not isinstance(n, ast.With) else None
            if tg is not None:
                for x in ast.walk(tg):
                    if isinstance(x, ast.Name) and x.id == name:
                        defs.append(None)
    if len(defs) == 1 and defs[0] is not None:
        return defs[0].value
    if not defs:
        return None
    raise AnalysisError("%s: local %r is assigned more than once (def-use outside the fragment)" % (func.qualname, name))


def resolve_local(func, e):
    seen = 0
    while isinstance(e, ast.Name) and seen < 5:
        d = single_def(func, e.id)
        if d is None:
            return e
        e = d
        seen += 1
    return e


def check_sorted_loop(ctx, repo, m, folder, cmi):
    ml = m.cls("MapList")
    init = ml.lookup("__init__")
    mi_cls = m.cls("MapItem")
    parse = mi_cls.lookup("parse")
    ctx.require(init is not None and parse is not None, "anchor vanished: MapList.__init__ / MapItem.parse")
    ctx.analysed(init)
    # every call of a zero-argument .parse() in the package
    sites = []
    for mod in repo.modules.values():
        for f in mod.functions.values():
            for n in walk_no_nested(f.node):
                if isinstance(n, ast.Call) and isinstance(n.func, ast.Attribute) and n.func.attr == parse.name and not n.args and not n.keywords:
                    if mod is m:
                        sites.append((f, n))
                    elif "MapItem" in mod.text or "MapList" in mod.text:
                        raise AnalysisError("%s calls .parse() and mentions MapItem/MapList: receiver type not decidable" % f.loc(n))
    ctx.count("parse_calls", len(sites))
    loop = None
    for f, n in sites:
        inside = f is init
        ctx.check("single-loop", "call of MapItem.parse in %s" % f.qualname, inside, f, n,
                  "MapItem.parse() is called from %s: the item is parsed outside the sorted loop of MapList.__init__" % f.qualname, node=n)
        if not inside:
            continue
        recv = n.func.value
        p = parent(n)
        lp = None
        while p is not None and p is not init.node:
            if isinstance(p, (ast.For, ast.While)) and lp is None:
                lp = p
            p = parent(p)
        ok = isinstance(lp, ast.For) and isinstance(lp.target, ast.Name) and isinstance(recv, ast.Name) and recv.id == lp.target.id
        ctx.check("single-loop", "parse receiver", ok, init, n,
                  "MapItem.parse() is not called on the variable of a for-loop over the sorted map items", node=n)
        if ok:
            ctx.require(loop is None or loop is lp, "MapList.__init__: two parse loops")
            loop = lp
    ctx.require(loop is not None or ctx.__class__ is Sink or True, "")
    if loop is None:
        ctx.check("single-loop", "sorted parse loop", False, init, "MapList.__init__ parse loop",
                  "MapList.__init__ has no loop that parses the map items")
        return find_list_attr(init)
    it_expr = resolve_local(init, loop.iter)
    lst_attr0 = find_list_attr(init)
    if isinstance(it_expr, ast.Attribute) and isinstance(it_expr.value, ast.Name) and it_expr.value.id == "self" and it_expr.attr == lst_attr0:
        # in-place variant:  self.<list>.sort(key=...)  as a top-level statement before the loop, nothing appended in between
        body = init.node.body
        if loop in body:
            li = body.index(loop)
            for st in reversed(body[:li]):
                c = st.value if isinstance(st, ast.Expr) else None
                if isinstance(c, ast.Call) and isinstance(c.func, ast.Attribute) and c.func.attr == "sort" \
                        and ast.unparse(c.func.value) == "self.%s" % lst_attr0 and not c.args:
                    it_expr = ast.copy_location(ast.Call(func=ast.Name(id="sorted", ctx=ast.Load()), args=[c.func.value], keywords=c.keywords), c)
                    break
                if any(isinstance(x, ast.Attribute) and x.attr == lst_attr0 for x in ast.walk(st)):
                    break
    is_sorted = isinstance(it_expr, ast.Call) and isinstance(it_expr.func, ast.Name) and it_expr.func.id == "sorted" \
        and single_def(init, "sorted") is None and "sorted" not in m.functions and "sorted" not in m.assigns
    ctx.check("sorted-loop", "iteration order", is_sorted, init, loop.iter,
              "the parse loop iterates %s, which is not the value of sorted(<map items>, key=load order): parse order follows the map list" % ast.unparse(loop.iter)[:80],
              node=loop, detail="for %s in sorted(...)" % loop.target.id)
    lst_attr = find_list_attr(init)
    if not is_sorted:
        return lst_attr
    s = it_expr
    # the sorted sequence is the list of all map items
    src = resolve_local(init, s.args[0]) if s.args else None
    ok = isinstance(src, ast.Attribute) and isinstance(src.value, ast.Name) and src.value.id == "self" and src.attr == lst_attr
    ctx.check("sorted-loop", "sorted sequence", ok, init, s,
              "sorted() is applied to %s, not to the list all MapItems were appended to (self.%s)" % (ast.unparse(s.args[0]) if s.args else "nothing", lst_attr),
              node=s, detail="sorted(self.%s)" % lst_attr)
    kws = {k.arg: k.value for k in s.keywords}
    rev = kws.get("reverse")
    ctx.check("sorted-loop", "ascending", rev is None or (isinstance(rev, ast.Constant) and rev.value is False), init,
              s, "sorted(..., reverse=%s): dependencies would be parsed after their dependants" % (ast.unparse(rev) if rev is not None else ""), node=s)
    key = kws.get("key")
    if key is None:
        ctx.check("sorted-loop", "sort key", False, init, s, "sorted() of the map items has no key: MapItem objects are not ordered by load order", node=s)
        return lst_attr
    key = resolve_local(init, key)
    kfunc = None
    if isinstance(key, ast.Lambda) and len(key.args.args) == 1:
        kparam, kbody = key.args.args[0].arg, key.body
    else:
        raise AnalysisError("%s: sort key is not a one-parameter lambda (shape outside the fragment)" % init.loc(s))
    # evaluate the key body abstractly on a MapItem
    free = {x.id for x in ast.walk(kbody) if isinstance(x, ast.Name) and x.id != kparam}
    lo_names = []
    for nme in sorted(free):
        d = single_def(init, nme)
        if d is not None and isinstance(d, ast.Call) and is_load_order_call(d, cmi):
            lo_names.append(nme)

    def run(asg):
        it = DexInterp(repo, folder, asg=dict(asg), construct=lambda c: c.name == "MapItem", inline_module=m)
        st = StreamV("buff", index=0)
        o = it.construct_obj(mi_cls, bind_ctor_args(mi_cls, st, Sym("cm")))
        env = {kparam: o, "__func__": init}
        for nme in free:
            env[nme] = Sym("load_order") if nme in lo_names else Sym("free", nme)
        return it.eval(kbody, env, init)

    tslot = Sym("enum", cmi.enum_cls.name, slot_bits(0, 0, 2))
    for asg, v in explore(run):
        good = isinstance(v, Sym) and v.op == "index" and v.args[0] == Sym("load_order") and v.args[1] == tslot
        ctx.check("sorted-loop", "key = load_order[type]", good, init, key,
                  "sort key evaluates to %s; it must be determine_load_order()[<type field of the map entry>]" % show(v)[:120],
                  node=key, detail="key(mi) = determine_load_order()[TypeMapItem(type slot)]")
    # registration under the entry's own type, in the same loop, after parse
    check_registration(ctx, repo, m, folder, cmi, init, loop, mi_cls, tslot)
    return lst_attr


def is_load_order_call(call, cmi):
    d = dotted(call.func)
    return d == "%s.determine_load_order" % cmi.enum_cls.name and not call.args


def find_list_attr(init):
    """self.<attr> that MapItem objects are appended to"""
    def is_ctor(e):
        return isinstance(e, ast.Call) and isinstance(e.func, ast.Name) and e.func.id == "MapItem"

    for n in walk_no_nested(init.node):
        if isinstance(n, ast.Call) and isinstance(n.func, ast.Attribute) and n.func.attr == "append":
            tgt = n.func.value
            if isinstance(tgt, ast.Attribute) and isinstance(tgt.value, ast.Name) and tgt.value.id == "self" and n.args:
                a = n.args[0]
                if is_ctor(a):
                    return tgt.attr
                if isinstance(a, ast.Name):
                    # the nearest preceding assignment of that name in the same block
                    st = n
                    while st is not None and not isinstance(st, ast.stmt):
                        st = parent(st)
                    blk = parent(st)
                    for fld in ("body", "orelse"):
                        body = getattr(blk, fld, None)
                        if isinstance(body, list) and st in body:
                            for prev in reversed(body[: body.index(st)]):
                                if isinstance(prev, ast.Assign) and any(isinstance(t, ast.Name) and t.id == a.id for t in prev.targets):
                                    if is_ctor(prev.value):
                                        return tgt.attr
                                    break
    raise AnalysisError("MapList.__init__: the list MapItem objects are appended to was not found")


class _F:
    """Func view used by resolve_local"""

    def __init__(self, f):
        self.node, self.qualname = f.node, f.qualname


class _LoopInterp(DexInterp):
    def __init__(self, *a, parse_name="parse", **k):
        super().__init__(*a, **k)
        self.parse_name = parse_name
        self.trace = []

    def _h_method(self, it, recv, name, args, kwargs, e, func):
        if isinstance(recv, Obj) and recv.cls is not None and recv.cls.name == "MapItem" and name == self.parse_name:
            self.trace.append(("parse", recv))
            for k, v in list(recv.attrs.items()):
                if v is None and k == "item":
                    recv.attrs[k] = Sym("parsed-item")
            return None
        if isinstance(recv, Sym) and recv.op == "cm":
            self.trace.append(("cm", name, list(args)))
        if isinstance(recv, Obj) and recv.cls is not None and recv.cls.lookup(name) is None and name not in recv.attrs:
            alias = recv.cls.lookup_attr(name)
            if isinstance(alias, ast.Name) and recv.cls.lookup(alias.id) is not None:
                return self.call_function(recv.cls.lookup(alias.id), args, kwargs, recv=recv)
        return super()._h_method(it, recv, name, args, kwargs, e, func)


def check_registration(ctx, repo, m, folder, cmi, init, loop, mi_cls, tslot):
    ml = m.cls("MapList")

    def run(asg):
        it = _LoopInterp(repo, folder, asg=dict(asg), construct=lambda c: c.name == "MapItem", inline_module=m)
        st = StreamV("buff", index=0)
        o = it.construct_obj(mi_cls, bind_ctor_args(mi_cls, st, Sym("cm")))
        slf = Obj(ml, "maplist")
        for f in ml.methods.values():
            pass
        # attributes of self that hold the class manager
        for n in walk_no_nested(init.node):
            if isinstance(n, ast.Assign) and isinstance(n.value, ast.Name) and n.value.id in ("cm",):
                for t in n.targets:
                    if isinstance(t, ast.Attribute) and isinstance(t.value, ast.Name) and t.value.id == "self":
                        slf.attrs[t.attr] = Sym("cm")
        env = {"self": slf, loop.target.id: o, "cm": Sym("cm"), "__func__": init}
        try:
            it.exec_block(loop.body, env, init)
        except Raised as r:
            raise AnalysisError("parse loop body raises on an abstract path: %s" % r)
        return it.trace, o

    for asg, r in explore(run):
        trace, o = r
        kinds = [t[0] if t[0] != "cm" else "cm." + t[1] for t in trace]
        regs = [t for t in trace if t[0] == "cm" and t[1] == cmi.add.name]
        good = "parse" in kinds and len(regs) == 1 and kinds.index("parse") < kinds.index("cm." + cmi.add.name)
        ctx.check("registration", "parse then add_type_item", good, init, "MapList.__init__ loop body",
                  "each sorted entry must be parsed and then registered once through ClassManager.%s; loop body does %s" % (cmi.add.name, kinds),
                  detail="loop body: %s" % kinds)
        if regs:
            a = regs[0][2]
            good = len(a) >= 3 and a[0] == tslot and a[1] is o
            ctx.check("registration", "registered under own type", good, init, "%s(...) arguments" % cmi.add.name,
                      "the parsed item must be registered under the type field of its own map entry; arguments are %s" % show(a)[:160],
                      detail="add_type_item(type of mi, mi, mi's item)")
            good = len(a) >= 3 and (a[2] == Sym("parsed-item") or isinstance(a[2], Obj))
            ctx.check("registration", "registered item", good, init, "%s(...) item argument" % cmi.add.name,
                      "the registered object is %s, not the item the entry parsed" % (show(a[2])[:80] if len(a) >= 3 else "missing"))


# ---- (2) cursor independence ------------------------------------------------------------------------
class _ParseInterp(DexInterp):
    def _h_call(self, it, name, callee, args, kwargs, e, func):
        if isinstance(callee, Ref) and callee.kind == "class" and callee.obj.module.relpath == DEX and not self.construct(callee.obj):
            sts = [a for a in args if isinstance(a, StreamV)]
            for st in sts:
                st.log.append(("new", callee.obj.name, e))
            if sts:
                return Sym("new", callee.obj.name)
        return super()._h_call(it, name, callee, args, kwargs, e, func)


def check_seeks(ctx, repo, m, folder, cmi, members):
    mi_cls = m.cls("MapItem")
    parse = mi_cls.lookup("parse")
    ctx.analysed(parse)
    off_field = [f for f in spec.fixed_fields("map_item") if f[0] == "offset"][0]
    off_bytes = set(range(off_field[1], off_field[1] + off_field[2]))
    tslot = Sym("enum", cmi.enum_cls.name, slot_bits(0, 0, 2))
    ctors = {}
    for name, val in sorted(members.items(), key=lambda kv: int(kv[1])):
        def run(asg, val=val):
            it = _ParseInterp(repo, folder, asg=dict(asg), construct=lambda c: c.name == "MapItem", inline_module=None)
            st = StreamV("buff", index=0)
            o = it.construct_obj(mi_cls, bind_ctor_args(mi_cls, st, Sym("cm")))
            hit = 0
            for k, v in list(o.attrs.items()):
                if v == tslot:
                    o.attrs[k] = val
                    hit += 1
            if hit != 1:
                raise AnalysisError("MapItem: the attribute holding TypeMapItem(<type field>) was not identified")
            mark = len(st.log)
            st.pos = Sym("cursor", "left behind by the previously parsed item")
            it.call_function(parse, [], recv=o)
            return st.log[mark:], dict(asg)

        res = explore(run)
        news_all = []
        for asg, r in res:
            if isinstance(r, Raised):
                raise AnalysisError("MapItem.parse raises for type %s on an abstract path: %s" % (name, r))
            log, a = r
            last_seek = None
            consumed = False
            for ev in log:
                if ev[0] == "seek":
                    last_seek, consumed = ev[1], False
                elif ev[0] in ("raw", "leb", "cstring"):
                    consumed = True
                elif ev[0] == "new":
                    cname, node = ev[1], ev[2]
                    pn, in_list = parent(node), False
                    while pn is not None and not isinstance(pn, ast.stmt):
                        in_list = in_list or isinstance(pn, (ast.ListComp, ast.List))
                        pn = parent(pn)
                    news_all.append((cname, in_list))
                    inst = "%s -> %s" % (name, cname)
                    if last_seek is None or consumed:
                        ctx.check("absolute-seek", inst, False, parse, "%s before %s" % ("no seek" if last_seek is None else "read after seek", cname),
                                  "branch %s constructs %s from wherever the previously parsed item left the stream cursor (%s)" % (
                                      name, cname, "no seek before it" if last_seek is None else "the stream is consumed between the seek and the constructor"),
                                  node=node)
                    else:
                        op = []
                        pv = prov(last_seek, opaque=op)
                        bad = [l for l, ch in pv if not (l[0] == "bits" and {s[1] % STREAM_SPAN for s in l[1].sources()} <= off_bytes
                                                           and {s[1] // STREAM_SPAN for s in l[1].sources()} == {0})]
                        if op and not bad:
                            raise AnalysisError("MapItem.parse branch %s: seek target %s outside the fragment (%s)" % (name, show(last_seek)[:80], op[0]))
                        ctx.check("absolute-seek", inst, not bad, parse, "seek before %s(...) in branch %s" % (cname, name),
                                  "branch %s seeks to %s before constructing %s: the target depends on %s, not only on the entry's offset field" % (
                                      name, show(last_seek)[:100], cname, "; ".join(show_prov({b for b in pv if b[0] in bad}))[:200]),
                                  node=node, detail="seek(f(offset field)) then %s" % cname)
                    consumed = True
        ctors[name] = sorted(set(news_all))
        if news_all:
            ctx.count("parse_branches")
    # map entries: fixed stride
    ml = m.cls("MapList")
    init = ml.lookup("__init__")
    stride = spec.fixed_size("map_item")

    def run2(asg):
        it = _LoopInterp(repo, folder, asg=dict(asg), construct=lambda c: c.name == "MapItem", inline_module=m)
        st = StreamV("buff", index=0)
        o = Obj(ml, "maplist")
        args = []
        for p in init.params()[1:]:
            args.append(Sym("cm") if p in ("cm",) else st if p in ("buff", "buf") else Sym("param", p))
        it.call_function(init, args, recv=o)
        return st.log

    for asg, log in explore(run2):
        if isinstance(log, Raised):
            raise AnalysisError("MapList.__init__ raises on an abstract path: %s" % log)
        news = [i for i, ev in enumerate(log) if ev[0] == "new" and ev[1] == "MapItem"]
        ctx.require(len(news) >= 1, "MapList.__init__ constructs no MapItem from the stream")
        i = news[0]
        tells = [ev for ev in log[:i] if ev[0] in ("tell", "seek", "raw")]
        start = None
        for ev in reversed(log[:i]):
            if ev[0] == "tell":
                start = ev[1]
                break
        seeks = [ev for ev in log[i:] if ev[0] == "seek"]
        good = start is not None and bool(seeks)
        if good:
            it0 = DexInterp(repo, folder)
            want = it0.binop(ast.Add(), start, stride, init.node)
            good = seeks[-1][1] == want
        ctx.check("entry-stride", "MapList.__init__", good, init, "map entry stride",
                  "after reading a map entry the stream must be repositioned to <entry start> + %d; it is left at %s" % (
                      stride, show(seeks[-1][1]) if seeks else "the position the MapItem constructor stopped at"),
                  detail="entry k+1 read at entry k + %d" % stride)
        first = [ev for ev in log if ev[0] == "seek"]
        good = bool(first) and first[0][1] == Sym("param", init.params()[2]) if len(init.params()) > 2 else False
        ctx.check("entry-stride", "MapList start", good, init, "map list start",
                  "the map list must be read at the offset handed to MapList (header map_off); first seek is %s" % (show(first[0][1]) if first else "missing"))
    return ctors


# ---- (4) dependency soundness ----------------------------------------------------------------------
def check_dependencies(ctx, repo, m, tm, cmi, deps, ctors):
    cg = CallGraph(repo)
    cg.cmi = cmi
    for tname, cl in ctors.items():
        cg.sections[tname] = [("list" if in_list else "inst", m.cls(cname)) for cname, in_list in cl]
    fdep = cmi.enum_cls.lookup("_get_dependencies")
    names = {int(v): k for k, v in cmi.members.items()}
    closures = {}
    all_inits = set()
    g = nx.DiGraph()
    for t, ds in deps.items():
        g.add_node(names.get(int(t), str(t)))
        for d in ds:
            g.add_edge(names.get(int(t), str(t)), names.get(int(d), str(d)))
    for tname, cl in sorted(ctors.items()):
        allowed = nx.descendants(g, tname) if tname in g else set()
        roots = []
        for cname, in_list in cl:
            c = m.cls(cname)
            init = c.lookup("__init__")
            if init is not None:
                roots.append(init)
                ctx.count("constructor_chains")
        clo = cg.closure(roots)
        closures[tname] = clo
        all_inits.update(q for q, (f, pr, par) in clo.items() if f.name == "__init__")
        reads = {}
        for q, (f, precise, par) in clo.items():
            if f.cls is cmi.cls:
                for sec in cmi.direct.get(f.name, ()):
                    if sec not in reads or (precise and not reads[sec][1]):
                        reads[sec] = (q, precise)
                    ctx.count("section_reads")
        for sec, (q, precise) in sorted(reads.items()):
            inst = "%s reads %s" % (tname, sec)
            path = " -> ".join(cg.path_to(clo, q))
            if sec == "ORDER":
                ctx.ob("dependency", inst, True, "registration-order read via %s (fixed by the sorted loop)" % path)
                ctx.note("%s: parse-time read of the registration-order list via %s -- order of registration is the load order, fixed by clause (1)" % (tname, path))
                continue
            if sec == "ANY":
                raise AnalysisError("parse-time read of an offset table that is not attributable to one section: %s" % path)
            if sec not in cmi.members:
                if precise:
                    ctx.check("dependency", inst, False, _T(fdep), "%s reads %s" % (tname, sec),
                              "constructor chain of %s reads TypeMapItem.%s, which is not a map type (%s)" % (tname, sec, path))
                continue
            ok = sec in allowed
            if not ok and not precise:
                raise AnalysisError("%s may read section %s through an imprecisely resolved call (%s): not decidable" % (tname, sec, path))
            ctx.check("dependency", inst, ok, _T(fdep), "%s reads %s" % (tname, sec),
                      "parsing %s reads section %s (%s) but %s is not in the transitive closure of _get_dependencies()[%s] = %s: "
                      "with a map list in another order the section may not be loaded yet" % (tname, sec, path, sec, tname, sorted(allowed)),
                      detail="%s <= closure(%s); via %s" % (sec, tname, path))
    ctx.count("constructors_in_chains", len(all_inits))
    return closures


# ---- (3) list order ----------------------------------------------------------------------------------
def check_list_order(ctx, repo, m, cmi, lst_attr, closures):
    ml = m.cls("MapList")
    parse_time = {}
    for tname, clo in closures.items():
        for q, (f, precise, par) in clo.items():
            parse_time.setdefault(q, (f, tname))
    n_funcs = 0
    for q, (f, tname) in sorted(parse_time.items()):
        if f.module is not m:
            continue
        n_funcs += 1
        for n in walk_no_nested(f.node):
            if isinstance(n, ast.Attribute) and n.attr == lst_attr and isinstance(n.ctx, ast.Load):
                ctx.check("list-order", "%s reads .%s" % (q, lst_attr), False, f, n,
                          "%s runs while %s is parsed and reads the map item list .%s (map-list order leaks into the parse)" % (q, tname, lst_attr), node=n)
    ctx.ob("list-order", "parse-time functions", True, "%d functions reachable from the item constructors; none reads .%s" % (n_funcs, lst_attr))
    # get_item_type selects by type
    git = ml.lookup("get_item_type")
    if git is not None:
        ctx.analysed(git)
        params = git.params()
        loops = [n for n in walk_no_nested(git.node) if isinstance(n, ast.For)]
        rets = [n for n in walk_no_nested(git.node) if isinstance(n, ast.Return) and n.value is not None and not (isinstance(n.value, ast.Constant) and n.value.value is None)]
        for r in rets:
            lp = None
            guard = None
            p = parent(r)
            while p is not None and p is not git.node:
                if isinstance(p, ast.If) and guard is None:
                    guard = p
                if isinstance(p, ast.For) and lp is None:
                    lp = p
                p = parent(p)
            if lp is None:
                raise AnalysisError("MapList.get_item_type: return outside a loop over the map items (shape outside the fragment)")
            lvars = {x.id for x in ast.walk(lp.target) if isinstance(x, ast.Name)}
            var = sorted(lvars)[0] if lvars else "?"
            by_type = False
            if guard is not None and isinstance(guard.test, ast.Compare) and len(guard.test.ops) == 1 and isinstance(guard.test.ops[0], ast.Eq):
                sides = [guard.test.left, guard.test.comparators[0]]
                has_param = any(isinstance(s, ast.Name) and s.id in params[1:] for s in sides)
                has_type = any(isinstance(s, ast.Call) and isinstance(s.func, ast.Attribute) and isinstance(s.func.value, ast.Name)
                               and s.func.value.id in lvars and s.func.attr == "get_type" for s in sides) or \
                    any(isinstance(s, ast.Attribute) and isinstance(s.value, ast.Name) and s.value.id in lvars and s.attr == "type" for s in sides)
                by_type = has_param and has_type
            ctx.check("list-order", "get_item_type selects by type", by_type, git, r,
                      "MapList.get_item_type returns an entry that is not selected by comparing its type with the argument (position in the map list decides)", node=r,
                      detail="return under `%s.get_type() == %s`" % (var, params[1] if len(params) > 1 else "?"))
    # add_type_item: keyed stores only, plus the registration-order list
    for attr, kind, key, guard in cmi.add_stores:
        ctx.ob("list-order", "add_type_item store %s (%s)" % (attr, kind), True,
               "%s[%s]%s" % (attr, key, " for %s" % guard if guard else "") if kind.startswith("by") else "%s.%s(...) registration order" % (attr, kind))
    readers = sorted(n for n, secs in cmi.direct.items() if "ORDER" in secs)
    ctx.ob("list-order", "registration-order readers", True, "read by ClassManager.%s" % ", ".join(readers) if readers else "no reader")


# ---- (3b) entry isolation: nothing that depends on the position of an entry in the list reaches its parse --------
def _mentions(e, names=(), attr=None):
    for x in ast.walk(e):
        if isinstance(x, ast.Name) and x.id in names:
            return True
        if attr is not None and isinstance(x, ast.Attribute) and x.attr == attr and isinstance(x.value, ast.Name) and x.value.id == "self":
            return True
    return False


def _root_name(e):
    while isinstance(e, (ast.Attribute, ast.Subscript, ast.Call)):
        e = e.func if isinstance(e, ast.Call) else e.value
    return e.id if isinstance(e, ast.Name) else None


def _pos(n):
    return (getattr(n, "lineno", 0), getattr(n, "col_offset", 0))


def check_entry_isolation(ctx, repo, m, cmi, lst_attr, closures):
    ml = m.cls("MapList")
    init = ml.lookup("__init__")
    mi_cls = m.cls("MapItem")
    parse = mi_cls.lookup("parse")
    # (a) every use of the entry list while the map is read and parsed
    n_uses = 0
    for n in walk_no_nested(init.node):
        if not (isinstance(n, ast.Attribute) and n.attr == lst_attr and isinstance(n.ctx, ast.Load)
                and isinstance(n.value, ast.Name) and n.value.id == "self"):
            continue
        n_uses += 1
        p = parent(n)
        kind = None
        if isinstance(p, ast.Attribute) and p.value is n and isinstance(parent(p), ast.Call) and parent(p).func is p:
            if p.attr == "append":
                kind = "append"
            elif p.attr == "sort":
                kind = "sort"
        elif isinstance(p, ast.Call) and isinstance(p.func, ast.Name) and p.func.id == "sorted" and p.args and p.args[0] is n:
            kind = "sorted"
        elif isinstance(p, ast.For) and p.iter is n and isinstance(p.target, ast.Name) and any(
                isinstance(c, ast.Call) and isinstance(c.func, ast.Attribute) and c.func.attr == parse.name and not c.args
                and isinstance(c.func.value, ast.Name) and c.func.value.id == p.target.id for s0 in p.body for c in ast.walk(s0)):
            kind = "parse loop (its order is judged by the sorted-loop rule)"
        ctx.check("entry-isolation", "use of self.%s: %s" % (lst_attr, ast.unparse(p)[:50]), kind is not None, init,
                  "positional use of the map entry list: %s" % _shape(p, n),
                  "while the map is read, MapList.__init__ uses the entry list as `%s`: besides append of the entry just read and the "
                  "load-order sort, any access (index, slice, emptiness/length test, iteration, zip/enumerate) exposes the position of an "
                  "entry in the map list" % ast.unparse(p)[:80], node=n, detail="self.%s used for %s" % (lst_attr, kind))
    ctx.count("entry_list_uses", n_uses)
    # (b) the reading loop: nothing carried from one entry to the next reaches an entry
    read_loop, cur = None, set()
    for n in walk_no_nested(init.node):
        if isinstance(n, ast.Assign) and isinstance(n.value, ast.Call) and isinstance(n.value.func, ast.Name) and n.value.func.id == mi_cls.name:
            for t in n.targets:
                if isinstance(t, ast.Name):
                    cur.add(t.id)
            p = parent(n)
            while p is not None and p is not init.node and not isinstance(p, (ast.For, ast.While)):
                p = parent(p)
            if isinstance(p, (ast.For, ast.While)):
                read_loop = p
    ctx.require(read_loop is not None and cur, "MapList.__init__: the loop reading the map entries was not found")
    body_nodes = [x for s0 in read_loop.body for x in ast.walk(s0)]
    stores, loads = {}, {}
    for x in body_nodes:
        if isinstance(x, ast.Name):
            (stores if isinstance(x.ctx, ast.Store) else loads).setdefault(x.id, []).append(x)
    aug = {x.target.id for x in body_nodes if isinstance(x, ast.AugAssign) and isinstance(x.target, ast.Name)}
    target_names = {x.id for x in ast.walk(read_loop.target) if isinstance(x, ast.Name)} if isinstance(read_loop, ast.For) else set()
    carried = set(aug)
    for nme, sts in stores.items():
        if nme in target_names or nme not in loads:
            continue
        first_store = min(_pos(x) for x in sts)
        # a read before the first write of the iteration sees the value of the previous iteration; the right-hand
        # side of the first assignment itself is evaluated before the store
        for ld in loads[nme]:
            st_stmt = next((s0 for s0 in body_nodes if isinstance(s0, ast.Assign) and any(t is x for t in ast.walk(s0) for x in sts)
                            and _pos(s0) <= first_store), None)
            if _pos(ld) < first_store or (st_stmt is not None and any(y is ld for y in ast.walk(st_stmt.value))):
                carried.add(nme)
    for x in body_nodes:
        bad = None
        if isinstance(x, ast.Call) and isinstance(x.func, ast.Attribute):
            recv = x.func.value
            root = _root_name(recv)
            args = list(x.args) + [k.value for k in x.keywords]
            recv_is_other_entry = (root in carried and root not in cur) or _mentions(recv, attr=lst_attr)
            if recv_is_other_entry and x.func.attr not in ("append", "sort") and (args or x.func.attr.startswith("set")):
                bad = "calls %s on an entry other than the one just read" % ast.unparse(x)[:70]
            elif root in cur and any(_mentions(a, carried - cur, lst_attr) for a in args):
                bad = "passes data carried over from another entry to the entry just read: %s" % ast.unparse(x)[:70]
            elif x.func.attr == "seek" and any(_mentions(a, carried - cur, lst_attr) for a in args):
                bad = "positions the stream with data carried over from another entry: %s" % ast.unparse(x)[:70]
        elif isinstance(x, ast.Call) and isinstance(x.func, ast.Name) and x.func.id == mi_cls.name:
            if any(_mentions(a, carried, lst_attr) for a in list(x.args) + [k.value for k in x.keywords]):
                bad = "constructs the entry with data carried over from another entry: %s" % ast.unparse(x)[:70]
        elif isinstance(x, ast.Assign):
            for t in x.targets:
                if isinstance(t, ast.Attribute):
                    root = _root_name(t.value)
                    if (root in carried and root not in cur) or _mentions(t.value, attr=lst_attr):
                        bad = "stores into an entry other than the one just read: %s" % ast.unparse(x)[:70]
                    elif root in cur and _mentions(x.value, carried - cur, lst_attr):
                        bad = "stores data carried over from another entry into the entry just read: %s" % ast.unparse(x)[:70]
        if bad:
            ctx.check("entry-isolation", "reading loop", False, init, "reading loop: %s" % bad.split(":")[0],
                      "the map-reading loop of MapList.__init__ %s -- a map entry then depends on its neighbour in the list" % bad, node=x)
    ctx.ob("entry-isolation", "reading loop carried variables", True,
           "carried across iterations: %s; none reaches an entry, a constructor or a seek" % (sorted(carried) or "none"))
    # (c) every attribute MapItem.parse (and the self-helpers it calls) reads derives from the entry's own fields
    helpers, work = {}, [parse]
    while work:
        f = work.pop()
        if f.qualname in helpers:
            continue
        helpers[f.qualname] = f
        for n in walk_no_nested(f.node):
            if isinstance(n, ast.Call) and isinstance(n.func, ast.Attribute) and isinstance(n.func.value, ast.Name) and n.func.value.id == "self":
                g = mi_cls.lookup(n.func.attr)
                if g is not None:
                    work.append(g)
    read_attrs = set()
    for f in helpers.values():
        for n in walk_no_nested(f.node):
            if isinstance(n, ast.Attribute) and isinstance(n.ctx, ast.Load) and isinstance(n.value, ast.Name) and n.value.id == "self" \
                    and mi_cls.lookup(n.attr) is None:
                read_attrs.add(n.attr)
    ctx.count("parse_read_attrs", len(read_attrs))
    # channels: methods (not the constructor) that store one of their parameters into such an attribute
    channels = {}
    for name, f in mi_cls.methods.items():
        if name == "__init__":
            continue
        params = set(f.params()[1:])
        for n in walk_no_nested(f.node):
            if isinstance(n, ast.Assign):
                for t in n.targets:
                    if isinstance(t, ast.Attribute) and isinstance(t.value, ast.Name) and t.value.id == "self" and t.attr in read_attrs \
                            and _mentions(n.value, params):
                        channels.setdefault(name, set()).add(t.attr)
    cg = CallGraph(repo)
    scope = {init.qualname: init}
    for tname, clo in closures.items():
        for q, (f, pr, par) in clo.items():
            if f.module is m:
                scope.setdefault(q, f)
    for q, f in sorted(scope.items()):
        types = cg.local_types(f)
        for n in ast.walk(f.node):
            if isinstance(n, ast.Call) and isinstance(n.func, ast.Attribute) and n.func.attr in channels:
                callees = [c for c, pr in cg.resolve_method(n.func, f, types)]
                if not any(c.cls is mi_cls for c in callees):
                    continue
                recv = n.func.value
                # a write made after the entry's own parse() in the same iteration of the sorted loop cannot reach its parse
                if f is init and _after_parse_in_loop(init, n, parse.name):
                    continue
                own = isinstance(recv, ast.Name) and (recv.id in cur or recv.id == "self") and \
                    all(isinstance(x, ast.Constant) or (isinstance(x, ast.Name) and x.id == recv.id)
                        for a in n.args for x in ast.walk(a) if isinstance(x, (ast.Name, ast.Constant)))
                ctx.check("entry-isolation", "%s calls MapItem.%s" % (q, n.func.attr), own, f,
                          "MapItem.%s written from outside via %s" % ("/".join(sorted(channels[n.func.attr])), n.func.attr),
                          "MapItem.parse reads self.%s, which %s sets through %s(%s): the value does not derive from the entry's own "
                          "fields (type, size, offset) but from what the caller knows about other entries" % (
                              "/".join(sorted(channels[n.func.attr])), q, n.func.attr, ", ".join(ast.unparse(a) for a in n.args)[:60]), node=n)
            elif isinstance(n, ast.Assign):
                for t in n.targets:
                    if isinstance(t, ast.Attribute) and t.attr in read_attrs and not (isinstance(t.value, ast.Name) and t.value.id == "self"):
                        ts = cg.expr_types(t.value, f, types)
                        is_mi = any(c is mi_cls for k, c in ts) or (f.cls is ml and (_root_name(t.value) in cur or _mentions(t.value, attr=lst_attr)))
                        if is_mi:
                            ctx.check("entry-isolation", "%s stores MapItem.%s" % (q, t.attr), False, f,
                                      "MapItem.%s written from outside" % t.attr,
                                      "MapItem.parse reads self.%s, which %s assigns from outside (%s)" % (t.attr, q, ast.unparse(n)[:60]), node=n)
    ctx.ob("entry-isolation", "attributes read by MapItem.parse", True,
           "%s; setter channels into them: %s" % (sorted(read_attrs), {k: sorted(v) for k, v in channels.items()} or "none"))


def _after_parse_in_loop(init, n, parse_name):
    lp = parent(n)
    while lp is not None and lp is not init.node and not isinstance(lp, (ast.For, ast.While)):
        lp = parent(lp)
    if not isinstance(lp, (ast.For, ast.While)):
        return False
    calls = [c for s0 in lp.body for c in ast.walk(s0) if isinstance(c, ast.Call) and isinstance(c.func, ast.Attribute)
             and c.func.attr == parse_name and not c.args]
    top = [s0 for s0 in lp.body if any(c is x for c in calls for x in ast.walk(s0))]
    # the parse call must be a top-level statement of the loop body that precedes the statement containing n
    for i, s0 in enumerate(lp.body):
        if any(x is n for x in ast.walk(s0)):
            return any(t in lp.body[:i] for t in top)
    return False


def _shape(p, n):
    if isinstance(p, ast.Subscript):
        return "subscript / slice"
    if isinstance(p, (ast.If, ast.While, ast.BoolOp, ast.UnaryOp, ast.IfExp)):
        return "emptiness test"
    if isinstance(p, (ast.For, ast.comprehension)):
        return "iteration in list order"
    if isinstance(p, ast.Call):
        return "passed to %s" % (ast.unparse(p.func)[:30])
    if isinstance(p, ast.Attribute):
        return "method .%s" % p.attr
    return type(p).__name__


# ---------------------------------------------------------------------------
def thorough(ctx):
    m = ctx.mod(DEX)
    tm = ctx.mod(DEX_TYPES)
    breaking, benign = [], []

    def fn(mod, q):
        return mod.func(q).node

    def drop_dep(holder, dep):
        def mk():
            node = fn(tm, "TypeMapItem._get_dependencies")
            for n in ast.walk(node):
                if isinstance(n, ast.Tuple) and len(n.elts) == 2 and dotted(n.elts[0]) == "TypeMapItem." + holder and isinstance(n.elts[1], ast.Set):
                    s = n.elts[1]
                    for i, e in enumerate(s.elts):
                        if dotted(e) == "TypeMapItem." + dep and len(s.elts) > 1:
                            old = s.elts[i]
                            del s.elts[i]

                            def undo():
                                s.elts.insert(i, old)
                            return undo
            return None
        return mk

    def unsorted_loop():
        node = fn(m, "MapList.__init__")
        for n in ast.walk(node):
            if isinstance(n, ast.Assign) and isinstance(n.value, ast.Call) and isinstance(n.value.func, ast.Name) and n.value.func.id == "sorted":
                old = n.value
                n.value = old.args[0]

                def undo():
                    n.value = old
                return undo
        return None

    def relative_seek():
        node = fn(m, "MapItem.parse")
        for n in ast.walk(node):
            if isinstance(n, ast.Call) and isinstance(n.func, ast.Attribute) and n.func.attr == "seek" and n.args:
                old = n.args[0]
                n.args[0] = ast.parse("buff.tell() + self.offset % 4", mode="eval").body

                def undo():
                    n.args[0] = old
                return undo
        return None

    def drop_seek():
        node = fn(m, "MapItem.parse")
        for n in ast.walk(node):
            if isinstance(n, ast.If):
                for i, s in enumerate(n.body):
                    if isinstance(s, ast.Expr) and isinstance(s.value, ast.Call) and isinstance(s.value.func, ast.Attribute) and s.value.func.attr == "seek":
                        old = n.body[i]
                        n.body[i] = ast.copy_location(ast.Pass(), old)

                        def undo():
                            n.body[i] = old
                        return undo
        return None

    def constant_rank():
        return _constant_rank(tm)

    def reverse_sort():
        node = fn(m, "MapList.__init__")
        for n in ast.walk(node):
            if isinstance(n, ast.Call) and isinstance(n.func, ast.Name) and n.func.id == "sorted":
                n.keywords.append(ast.keyword(arg="reverse", value=ast.Constant(True)))

                def undo():
                    n.keywords.pop()
                return undo
        return None

    def rename_local(q, old, new, mod=m):
        def mk():
            node = fn(mod, q)
            hit = [n for n in ast.walk(node) if isinstance(n, ast.Name) and n.id == old] + \
                  [n for n in ast.walk(node) if isinstance(n, ast.arg) and n.arg == old]
            if not hit:
                return None
            for n in hit:
                if isinstance(n, ast.Name):
                    n.id = new
                else:
                    n.arg = new

            def undo():
                for n in hit:
                    if isinstance(n, ast.Name):
                        n.id = old
                    else:
                        n.arg = old
            return undo
        return mk

    def neighbour_write():
        node = fn(m, "MapList.__init__")
        for n in ast.walk(node):
            if isinstance(n, ast.For):
                for i, st in enumerate(n.body):
                    if isinstance(st, ast.Assign) and isinstance(st.value, ast.Call) and isinstance(st.value.func, ast.Name) and st.value.func.id == "MapItem" \
                            and isinstance(st.targets[0], ast.Name):
                        new = ast.parse("if self.map_item:\n    self.map_item[-1].unused = %s.get_offset()" % st.targets[0].id).body[0]
                        ast.copy_location(new, st)
                        ast.fix_missing_locations(new)
                        for a in ast.walk(new):
                            for b in ast.iter_child_nodes(a):
                                b._parent = a
                        new._parent = n
                        n.body.insert(i + 1, new)

                        def undo(n=n, new=new):
                            n.body.remove(new)
                        return undo
        return None

    breaking += [("previous map entry written with data of the next one", neighbour_write)]
    breaking += [("METHOD_ID_ITEM no longer depends on PROTO_ID_ITEM", drop_dep("METHOD_ID_ITEM", "PROTO_ID_ITEM")),
                 ("CLASS_DEF_ITEM no longer depends on CLASS_DATA_ITEM", drop_dep("CLASS_DEF_ITEM", "CLASS_DATA_ITEM")),
                 ("ANNOTATION_ITEM no longer depends on FIELD_ID_ITEM", drop_dep("ANNOTATION_ITEM", "FIELD_ID_ITEM")),
                 ("parse loop over the unsorted list", unsorted_loop), ("first seek made relative", relative_seek),
                 ("first seek dropped", drop_seek), ("all ranks equal", constant_rank), ("reverse sort", reverse_sort)]
    benign += [("rename loop variable in MapList.__init__", rename_local("MapList.__init__", "ordered", "in_load_order")),
               ("rename local in determine_load_order", rename_local("TypeMapItem.determine_load_order", "found_next", "hit", tm)),
               ("rename local in MapItem.parse", rename_local("MapItem.parse", "started_at", "t0"))]
    killed = total = silent = btotal = 0
    survivors, noisy = [], []
    for name, mk in breaking:
        undo = mk()
        if undo is None:
            continue
        total += 1
        try:
            s = Sink(ctx.repo)
            try:
                core(s)
                fired = bool(s.findings)
            except AnalysisError:
                fired = False
        finally:
            undo()
        killed += fired
        if not fired:
            survivors.append(name)
    for name, mk in benign:
        undo = mk()
        if undo is None:
            continue
        btotal += 1
        try:
            s = Sink(ctx.repo)
            try:
                core(s)
                quiet = not s.findings
            except AnalysisError:
                quiet = True
        finally:
            undo()
        silent += quiet
        if not quiet:
            noisy.append((name, s.findings[:2]))
    ctx.extra.update(mutants_killed=killed, mutants_total=total, benign_silent=silent, benign_total=btotal)
    ctx.ob("mutation-adequacy", "breaking mutants", killed == total, "%d/%d killed" % (killed, total))
    ctx.ob("mutation-adequacy", "benign mutants", silent == btotal, "%d/%d silent" % (silent, btotal))
    if survivors:
        raise AnalysisError("rule lost its teeth: surviving mutants %s" % survivors)
    if noisy:
        raise AnalysisError("rule fires on behaviour-preserving edits: %s" % noisy)
    ctx.require(total >= 7 and btotal >= 3, "mutation anchors vanished (%d breaking, %d benign applicable)" % (total, btotal))
