"""Helpers for the CFG path rules (C09, C32, C29, C36).

* reach()          reachability on a cfg.CFG with excluded nodes *and* excluded edges
* Ev               a small evaluator of *predicate* ASTs over abstract points, with the
                   checker's own semantics (ints, bytes, str, tuples; comparisons, boolean
                   and bit operators, subscripts/slices).  Anything else -> NotEvaluable.
* order_points()   the finite partition of the integers induced by the constants of a test
* Defs             flow-insensitive may-definitions of the locals of one function and the
                   backward "roots" closure over them
* catches()/swallowed_by()   which `except` arms can stop an exception on its way out
* mutated()/Sink   in-memory mutation adequacy: re-run a rule core on an edited copy of one
                   function node, collecting findings in a ctx-like sink
"""
from __future__ import annotations

import ast
import contextlib

from .model import AnalysisError, norm, parent, walk_no_nested
from .report import Ctx, Finding


# --------------------------------------------------------------------------- reachability
def reach_set(cfg, src, avoid_nodes=(), avoid_edges=()):
    """ids of the nodes reachable from src (src included) without entering a node of
    avoid_nodes and without using an edge (a, b) of avoid_edges."""
    avoid = {id(n) for n in avoid_nodes}
    noedge = {(id(a), id(b)) for a, b in avoid_edges}
    if id(src) in avoid:
        return set()
    seen = {id(src)}
    stack = [src]
    while stack:
        n = stack.pop()
        for m in cfg.g.successors(n):
            if id(m) in seen or id(m) in avoid or (id(n), id(m)) in noedge:
                continue
            seen.add(id(m))
            stack.append(m)
    return seen


def reach(cfg, src, dst, avoid_nodes=(), avoid_edges=()):
    return id(dst) in reach_set(cfg, src, avoid_nodes, avoid_edges)


def branch_edges(cfg, ifnode, value):
    """the CFG edges leaving `ifnode` when its test evaluates to `value`"""
    out = [(ifnode, m) for m in cfg.g.successors(ifnode) if cfg.g[ifnode][m].get("label") is value]
    if not out:
        # both arms lead to the same node (DiGraph keeps a single edge) or the label was overwritten
        out = [(ifnode, m) for m in cfg.g.successors(ifnode) if cfg.g[ifnode][m].get("label") in (True, False, "back")]
    return out


def normal_out_edges(cfg, stmt):
    return [(stmt, m) for m in cfg.g.successors(stmt) if cfg.g[stmt][m].get("label") != "exc"]


def stmt_of(node, func_node):
    """the CFG statement (direct ast.stmt) that contains `node`"""
    n = node
    while n is not None and not isinstance(n, ast.stmt):
        n = parent(n)
    return n


def link_parents(root, top_parent=None):
    if top_parent is not None:
        root._parent = top_parent
    for p in ast.walk(root):
        for ch in ast.iter_child_nodes(p):
            ch._parent = p


# --------------------------------------------------------------------------- exceptions
_SUPER = {
    "ValueError": ["ValueError", "Exception", "BaseException"],
    "NotImplementedError": ["NotImplementedError", "RuntimeError", "Exception", "BaseException"],
    "UnicodeDecodeError": ["UnicodeDecodeError", "UnicodeError", "ValueError", "Exception", "BaseException"],
    "InvalidSignature": ["InvalidSignature", "Exception", "BaseException"],
    "TypeError": ["TypeError", "Exception", "BaseException"],
    "KeyError": ["KeyError", "LookupError", "Exception", "BaseException"],
    "error": ["error", "Exception", "BaseException"],
}


def handler_names(h):
    if h.type is None:
        return None
    ts = h.type.elts if isinstance(h.type, ast.Tuple) else [h.type]
    return [ast.unparse(t).split(".")[-1] for t in ts]


def catches(h, exc_names):
    """may the handler catch an exception of one of the classes `exc_names`?  Unknown
    exception classes are assumed to derive from Exception only."""
    names = handler_names(h)
    if names is None:
        return True
    for e in exc_names:
        sup = _SUPER.get(e, [e, "Exception", "BaseException"])
        if any(n in sup for n in names):
            return True
    return False


def handler_reraises(h):
    from .cfg import raises_only
    return raises_only(h.body)


def swallowed_by(node, func_node, exc_names):
    """the innermost enclosing `try` (inside func_node) whose body contains `node` and one
    of whose handlers may catch exc_names without re-raising; None if there is none."""
    ch = node
    p = parent(node)
    while p is not None and ch is not func_node:
        if isinstance(p, ast.Try) and any(ch is s for s in p.body):
            for h in p.handlers:
                if catches(h, exc_names) and not handler_reraises(h):
                    return p, h
        ch, p = p, parent(p)
    return None


def non_catching_handlers(func_node, exc_names):
    out = []
    for n in walk_no_nested(func_node):
        if isinstance(n, ast.Try):
            out += [h for h in n.handlers if not catches(h, exc_names)]
    return out


# --------------------------------------------------------------------------- evaluator
class NotEvaluable(Exception):
    pass


class NeedAtom(Exception):
    def __init__(self, key):
        self.key = key


def truths(test, env=None, calls=(), atom_ok=None, max_atoms=6):
    """all truth values the test can take for the given bindings, over every assignment of
    its opaque boolean atoms -> list of (atom assignment dict, bool)"""
    out = []

    def go(atoms):
        if len(atoms) > max_atoms:
            raise NotEvaluable("more than %d opaque atoms in %s" % (max_atoms, ast.unparse(test)))
        try:
            v = Ev(env, calls, atoms=atoms, atom_ok=atom_ok).truth(test)
        except NeedAtom as n:
            go(dict(atoms, **{n.key: True}))
            go(dict(atoms, **{n.key: False}))
            return
        out.append((atoms, bool(v)))

    go({})
    return out


class Opaque:
    """a value the evaluator knows nothing about (only identity)"""

    def __init__(self, what):
        self.what = what

    def __repr__(self):
        return "Opaque(%s)" % self.what


_CMP = {
    ast.Eq: lambda a, b: a == b, ast.NotEq: lambda a, b: a != b,
    ast.Lt: lambda a, b: a < b, ast.LtE: lambda a, b: a <= b,
    ast.Gt: lambda a, b: a > b, ast.GtE: lambda a, b: a >= b,
    ast.In: lambda a, b: a in b, ast.NotIn: lambda a, b: a not in b,
    ast.Is: lambda a, b: a is b, ast.IsNot: lambda a, b: a is not b,
}
_BIN = {
    ast.Add: lambda a, b: a + b, ast.Sub: lambda a, b: a - b, ast.Mult: lambda a, b: a * b,
    ast.FloorDiv: lambda a, b: a // b, ast.Mod: lambda a, b: a % b,
    ast.BitAnd: lambda a, b: a & b, ast.BitOr: lambda a, b: a | b, ast.BitXor: lambda a, b: a ^ b,
    ast.LShift: lambda a, b: a << b, ast.RShift: lambda a, b: a >> b,
}


class Ev:
    """evaluate an expression AST.  `env` maps normalised source text of a sub-expression
    (`ast.unparse`) to a value; `calls` maps a predicate on a Call node to a value provider
    (list of (matcher(call) -> bool, provider(call, ev) -> value))."""

    def __init__(self, env=None, calls=(), atoms=None, atom_ok=None):
        self.env = dict(env or {})
        self.calls = list(calls)
        self.atoms = atoms          # None: no opaque atoms; dict: truth values of opaque boolean atoms
        self.atom_ok = atom_ok      # predicate(expr): may this sub-expression be treated as an opaque atom?

    def truth(self, e):
        """value of e in a boolean context; a sub-expression outside the fragment becomes an
        opaque boolean atom when atoms are enabled and atom_ok allows it"""
        if self.atoms is None or isinstance(e, (ast.BoolOp,)) or (isinstance(e, ast.UnaryOp) and isinstance(e.op, ast.Not)):
            return self._plain(self(e), e)
        try:
            return self._plain(self(e), e)
        except NotEvaluable:
            if self.atom_ok is not None and not self.atom_ok(e):
                raise
            key = ast.unparse(e)
            if key in self.atoms:
                return self.atoms[key]
            raise NeedAtom(key)

    def __call__(self, e):
        key = ast.unparse(e)
        if key in self.env:
            return self.env[key]
        m = getattr(self, "e_" + type(e).__name__, None)
        if m is None:
            raise NotEvaluable("expression form %s: %s" % (type(e).__name__, key))
        return m(e)

    def _plain(self, v, e):
        if isinstance(v, Opaque):
            raise NotEvaluable("opaque value used in %s" % ast.unparse(e))
        return v

    def e_Constant(self, e):
        return e.value

    def e_Name(self, e):
        if e.id in ("True", "False", "None"):
            return {"True": True, "False": False, "None": None}[e.id]
        raise NotEvaluable("free name %s" % e.id)

    def e_Tuple(self, e):
        return tuple(self(x) for x in e.elts)

    def e_List(self, e):
        return [self(x) for x in e.elts]

    def e_Set(self, e):
        return {self(x) for x in e.elts}

    def e_UnaryOp(self, e):
        if isinstance(e.op, ast.Not):
            return not self.truth(e.operand)
        v = self._plain(self(e.operand), e)
        if isinstance(e.op, ast.USub):
            return -v
        if isinstance(e.op, ast.Invert):
            return ~v
        if isinstance(e.op, ast.UAdd):
            return +v
        raise NotEvaluable(ast.unparse(e))

    def e_BoolOp(self, e):
        if isinstance(e.op, ast.And):
            v = True
            for x in e.values:
                v = self.truth(x)
                if not v:
                    return v
            return v
        v = False
        for x in e.values:
            v = self.truth(x)
            if v:
                return v
        return v

    def e_BinOp(self, e):
        f = _BIN.get(type(e.op))
        if f is None:
            raise NotEvaluable(ast.unparse(e))
        a, b = self._plain(self(e.left), e), self._plain(self(e.right), e)
        try:
            return f(a, b)
        except Exception as x:
            raise NotEvaluable("%s: %s" % (ast.unparse(e), x))

    def e_Compare(self, e):
        left = self(e.left)
        for op, r in zip(e.ops, e.comparators):
            right = self(r)
            if isinstance(op, (ast.Is, ast.IsNot)):
                if isinstance(left, Opaque) or isinstance(right, Opaque):
                    res = (left is right) if isinstance(op, ast.Is) else (left is not right)
                else:
                    # identity is only meaningful for None/True/False here
                    if not (left is None or right is None or isinstance(left, bool) or isinstance(right, bool)):
                        raise NotEvaluable("identity comparison %s" % ast.unparse(e))
                    res = _CMP[type(op)](left, right)
            else:
                self._plain(left, e)
                self._plain(right, e)
                try:
                    res = _CMP[type(op)](left, right)
                except Exception as x:
                    raise NotEvaluable("%s: %s" % (ast.unparse(e), x))
            if not res:
                return False
            left = right
        return True

    def e_Subscript(self, e):
        v = self._plain(self(e.value), e)
        s = e.slice
        try:
            if isinstance(s, ast.Slice):
                lo = None if s.lower is None else self(s.lower)
                hi = None if s.upper is None else self(s.upper)
                st = None if s.step is None else self(s.step)
                return v[lo:hi:st]
            return v[self._plain(self(s), e)]
        except NotEvaluable:
            raise
        except Exception as x:
            raise NotEvaluable("%s: %s" % (ast.unparse(e), x))

    def e_IfExp(self, e):
        return self(e.body) if self._plain(self(e.test), e) else self(e.orelse)

    def e_Call(self, e):
        for match, provide in self.calls:
            if match(e):
                return provide(e, self)
        fn = ast.unparse(e.func)
        if fn in ("len", "int", "bool", "abs") and len(e.args) == 1 and not e.keywords:
            v = self._plain(self(e.args[0]), e)
            try:
                return {"len": len, "int": int, "bool": bool, "abs": abs}[fn](v)
            except Exception as x:
                raise NotEvaluable("%s: %s" % (ast.unparse(e), x))
        raise NotEvaluable("call %s" % ast.unparse(e))

    def e_Attribute(self, e):
        raise NotEvaluable("attribute %s" % ast.unparse(e))


def int_consts(expr):
    out = set()
    for n in ast.walk(expr):
        if isinstance(n, ast.Constant) and isinstance(n.value, int) and not isinstance(n.value, bool):
            out.add(n.value)
    return out


def order_points(consts, extra=()):
    """representatives of every cell of the partition of the non-negative integers induced
    by comparisons with `consts`: each constant, its neighbours, and values beyond them.
    A predicate built from comparisons of one integer atom with these constants and boolean
    connectives is constant on each cell, so evaluating it at these points is exhaustive."""
    pts = set(extra)
    for c in consts:
        pts.update((c - 1, c, c + 1))
    hi = max(list(consts) + [0]) + 1000003
    pts.update((0, 1, hi, hi + 7))
    return sorted(p for p in pts if p >= 0)


# --------------------------------------------------------------------------- small path executor
def exec_path(stmts, ev, on_assign=None):
    """execute a statement list whose control flow consists of if/elif/else, raise, return
    and plain statements, evaluating every test with `ev`.  -> ('raise', ExcName, node) |
    ('return', node) | ('fall', None).  Other control flow -> NotEvaluable."""
    for s in stmts:
        if isinstance(s, ast.If):
            v = ev(s.test)
            if isinstance(v, Opaque):
                raise NotEvaluable("opaque test %s" % ast.unparse(s.test))
            r = exec_path(s.body if v else s.orelse, ev, on_assign)
            if r[0] != "fall":
                return r
        elif isinstance(s, ast.Raise):
            name = None
            if s.exc is not None:
                x = s.exc.func if isinstance(s.exc, ast.Call) else s.exc
                name = ast.unparse(x).split(".")[-1]
            return ("raise", name, s)
        elif isinstance(s, ast.Return):
            return ("return", s)
        elif isinstance(s, (ast.Expr, ast.Assign, ast.AnnAssign, ast.AugAssign, ast.Pass)):
            if on_assign is not None and isinstance(s, ast.Assign):
                on_assign(s, ev)
            continue
        else:
            raise NotEvaluable("statement form %s" % type(s).__name__)
    return ("fall", None)


# --------------------------------------------------------------------------- may-definitions
class Defs:
    """flow-insensitive may-definitions of names / `self.x` attributes inside one function.

    key = normalised source of the target ('x', 'self.x').  Each definition is a tuple
    (kind, value_expr, stmt): kind in 'assign' (value is the stored expression),
    'elem' (the target receives an element of value: for-loops, tuple unpacking of a call),
    'aug', 'store' (x[k] = v or x.append(v)/add/extend/insert/update: v flows into x),
    'with', 'except', 'param'."""

    GROW = ("append", "add", "extend", "insert", "update", "appendleft", "setdefault")

    def __init__(self, func_node):
        self.func = func_node
        self.defs: dict[str, list] = {}
        a = func_node.args
        self.params = [x.arg for x in a.posonlyargs + a.args + a.kwonlyargs]
        if a.vararg:
            self.params.append(a.vararg.arg)
        if a.kwarg:
            self.params.append(a.kwarg.arg)
        for n in walk_no_nested(func_node):
            if isinstance(n, ast.Assign):
                for t in n.targets:
                    self._bind(t, n.value, n, "assign")
            elif isinstance(n, ast.AnnAssign) and n.value is not None:
                self._bind(n.target, n.value, n, "assign")
            elif isinstance(n, ast.AugAssign):
                self._add(n.target, "aug", n.value, n)
            elif isinstance(n, (ast.For, ast.AsyncFor)):
                self._bind(n.target, n.iter, n, "elem")
            elif isinstance(n, (ast.With, ast.AsyncWith)):
                for it in n.items:
                    if it.optional_vars is not None:
                        self._bind(it.optional_vars, it.context_expr, n, "with")
            elif isinstance(n, ast.ExceptHandler) and n.name:
                self.defs.setdefault(n.name, []).append(("except", n.type, n))
            elif isinstance(n, ast.NamedExpr):
                self._bind(n.target, n.value, n, "assign")
            elif isinstance(n, ast.comprehension):
                self._bind(n.target, n.iter, n, "elem")
            elif isinstance(n, ast.Call) and isinstance(n.func, ast.Attribute) and n.func.attr in self.GROW:
                for a_ in n.args:
                    self._add(n.func.value, "store", a_, n)

    def _add(self, target, kind, value, stmt):
        if isinstance(target, ast.Subscript):
            # x[k] = v : v flows into x
            self._add(target.value, "store", value, stmt)
            return
        if isinstance(target, (ast.Name, ast.Attribute)):
            self.defs.setdefault(ast.unparse(target), []).append((kind, value, stmt))

    def _bind(self, target, value, stmt, kind):
        if isinstance(target, (ast.Tuple, ast.List)):
            if isinstance(value, (ast.Tuple, ast.List)) and len(value.elts) == len(target.elts) and kind == "assign":
                for t, v in zip(target.elts, value.elts):
                    self._bind(t, v, stmt, kind)
            else:
                for i, t in enumerate(target.elts):
                    self._bind(t, value, stmt, "elem")
            return
        if isinstance(target, ast.Starred):
            self._bind(target.value, value, stmt, "elem")
            return
        self._add(target, kind, value, stmt)

    def of(self, key):
        return self.defs.get(key, [])

    def is_param(self, name):
        return name in self.params and not self.defs.get(name)

    def leaves(self, expr, _seen=None):
        """backward closure: the set of leaf expressions `expr` may draw its value from.
        A leaf is a parameter name ('param', name), a constant ('const', value), a call
        ('call', node) or another expression that is not a local ('expr', node).  Calls are
        *also* expanded through their receiver and arguments (a call's value depends on
        them), so both the call and what feeds it are returned."""
        _seen = _seen if _seen is not None else set()
        out = []

        def go(e):
            if e is None:
                return
            if isinstance(e, ast.Constant):
                out.append(("const", e.value, e))
                return
            if isinstance(e, (ast.Name, ast.Attribute)):
                key = ast.unparse(e)
                ds = self.defs.get(key)
                if ds:
                    if key in _seen:
                        return
                    _seen.add(key)
                    if isinstance(e, ast.Name) and e.id in self.params:
                        out.append(("param", e.id, e))
                    for kind, v, st in ds:
                        go(v)
                    return
                if isinstance(e, ast.Name):
                    out.append(("param" if e.id in self.params else "free", e.id, e))
                    return
                # attribute without local definition: depends on its base
                out.append(("attr", key, e))
                go(e.value)
                return
            if isinstance(e, ast.Call):
                out.append(("call", e, e))
                if isinstance(e.func, ast.Attribute):
                    go(e.func.value)
                for a_ in e.args:
                    go(a_.value if isinstance(a_, ast.Starred) else a_)
                for k in e.keywords:
                    go(k.value)
                return
            for ch in ast.iter_child_nodes(e):
                if isinstance(ch, ast.expr):
                    go(ch)

        go(expr)
        return out

    def root_params(self, expr):
        return {l[1] for l in self.leaves(expr) if l[0] == "param"}

    def free_names(self, expr):
        return {l[1] for l in self.leaves(expr) if l[0] == "free"}


# --------------------------------------------------------------------------- mutation adequacy
class Sink(Ctx):
    """a ctx-like object that only records (used to re-run a rule core on a mutant)."""

    def __init__(self, base, tier="quick"):  # noqa: D401  (deliberately not calling Ctx.__init__: no second Repo parse)
        import copy as _copy
        # start from whatever the shared Ctx carries (robust against new bookkeeping fields), then reset the collections
        for k, v in base.__dict__.items():
            if isinstance(v, (list, dict, set)):
                self.__dict__[k] = type(v)()
            else:
                self.__dict__[k] = v
        self.tier = tier
        self.explanation = ""
        self.quiet = True
        if "_path_opaque" in self.__dict__:
            self._path_opaque = None


@contextlib.contextmanager
def mutated(func, transform):
    """temporarily replace func.node by an edited re-parse of itself"""
    old = func.node
    new = ast.parse(ast.unparse(old)).body[0]
    link_parents(new, parent(old))
    transform(new)
    ast.fix_missing_locations(new)
    link_parents(new, parent(old))
    func.node = new
    try:
        yield new
    finally:
        func.node = old


def run_mutants(ctx, core, mutants, benign):
    """mutants / benign: lists of (label, func, transform).  `core(sink)` re-runs the rule.
    A transform may raise LookupError when its target construct does not exist (counted as
    not applicable)."""
    killed = total = silent = btotal = 0
    survivors = []
    noisy = []
    base = Sink(ctx)
    core(base)
    base_keys = {f.key() for f in base.findings}
    for label, func, tr in mutants:
        s = Sink(ctx)
        try:
            with mutated(func, tr):
                try:
                    core(s)
                    fired = bool({f.key() for f in s.findings} - base_keys)
                    why = "no new finding"
                except AnalysisError as e:
                    # report.finish lets a concrete finding outrank a later analysis error
                    fired = bool({f.key() for f in s.findings} - base_keys)
                    why = "analysis error instead of a finding: %s" % e
        except LookupError:
            continue
        total += 1
        if fired:
            killed += 1
        else:
            survivors.append("%s (%s)" % (label, why))
    for label, func, tr in benign:
        s = Sink(ctx)
        try:
            with mutated(func, tr):
                try:
                    core(s)
                    ok = {f.key() for f in s.findings} <= base_keys
                    why = "new findings: %s" % sorted({f.key() for f in s.findings} - base_keys)
                except AnalysisError as e:
                    ok = False
                    why = "analysis error: %s" % e
        except LookupError:
            continue
        btotal += 1
        if ok:
            silent += 1
        else:
            noisy.append("%s (%s)" % (label, why))
    ctx.extra["mutants_killed"] = killed
    ctx.extra["mutants_total"] = total
    ctx.extra["benign_silent"] = silent
    ctx.extra["benign_total"] = btotal
    if survivors:
        raise AnalysisError("mutation adequacy: the rule lost its teeth, surviving mutants: %s" % "; ".join(survivors))
    if noisy:
        raise AnalysisError("mutation adequacy: the rule fires on behaviour-preserving edits: %s" % "; ".join(noisy))


# ---- generic transforms ---------------------------------------------------------------
def rename_locals(suffix="_r"):
    def tr(fn):
        a = fn.args
        params = {x.arg for x in a.posonlyargs + a.args + a.kwonlyargs}
        assigned = set()
        for n in walk_no_nested(fn):
            if isinstance(n, ast.Name) and isinstance(n.ctx, ast.Store) and n.id not in params:
                assigned.add(n.id)
        if not assigned:
            raise LookupError
        for n in walk_no_nested(fn):
            if isinstance(n, ast.Name) and n.id in assigned:
                n.id = n.id + suffix
    return tr


def flip_ifs(pred=lambda n: True):
    """`if a: X else: Y` -> `if not a: Y else: X` for if-statements with an else arm"""
    def tr(fn):
        done = 0
        for n in list(walk_no_nested(fn)):
            if isinstance(n, ast.If) and n.orelse and pred(n):
                n.test = ast.UnaryOp(op=ast.Not(), operand=n.test)
                n.body, n.orelse = n.orelse, n.body
                done += 1
        if not done:
            raise LookupError
    return tr


def neq_to_not_eq():
    """`a != b` -> `not (a == b)`"""
    def tr(fn):
        done = 0
        for n in list(walk_no_nested(fn)):
            for f, v in ast.iter_fields(n):
                vs = v if isinstance(v, list) else [v]
                for i, c in enumerate(vs):
                    if isinstance(c, ast.Compare) and len(c.ops) == 1 and isinstance(c.ops[0], ast.NotEq):
                        new = ast.UnaryOp(op=ast.Not(), operand=ast.Compare(left=c.left, ops=[ast.Eq()], comparators=c.comparators))
                        if isinstance(v, list):
                            v[i] = new
                        else:
                            setattr(n, f, new)
                        done += 1
        if not done:
            raise LookupError
    return tr


# --------------------------------------------------------------------------- reaching definitions
def reaching_defs(cfg, defs, key, at_stmt):
    """definitions of `key` (Defs entries) that may reach `at_stmt`, plus the marker 'entry'
    when the function entry reaches it without passing any definition (parameter/undefined)."""
    ds = [d for d in defs.of(key) if d[0] in ("assign", "aug", "elem", "with", "except")]
    stmts = []
    for d in ds:
        st = d[2]
        while st is not None and not isinstance(st, ast.stmt):
            st = parent(st)
        if isinstance(st, ast.ExceptHandler):
            pass
        stmts.append(st)
    out = []
    for d, st in zip(ds, stmts):
        if st is at_stmt and not isinstance(st, (ast.For, ast.AsyncFor, ast.While)):
            continue
        others = [s for s in stmts if s is not st and s is not at_stmt]
        starts = list(cfg.g.successors(st)) if st in cfg.g else []
        if any(n is at_stmt or reach(cfg, n, at_stmt, avoid_nodes=others + ([st] if st is not at_stmt else [])) for n in starts
               if not any(n is o for o in others)):
            out.append(d)
    if reach(cfg, cfg.entry, at_stmt, avoid_nodes=[s for s in stmts if s is not at_stmt]):
        out.append("entry")
    return out


def resolve_at(cfg, defs, e, at_stmt, depth=8):
    """follow single reaching plain assignments of local names: -> (expr, stmt where it is evaluated)"""
    while depth and isinstance(e, ast.Name) and defs.of(e.id):
        rd = reaching_defs(cfg, defs, e.id, at_stmt)
        if len(rd) == 1 and rd[0] != "entry" and rd[0][0] == "assign":
            st = rd[0][2]
            # tuple-unpacking assignments are recorded as 'elem'; a plain one gives the value
            e, at_stmt = rd[0][1], st
            depth -= 1
        else:
            break
    return e, at_stmt
