"""C40, disassembler side: the functions that compute instruction offsets / payload addresses are *executed abstractly*
(shared interpreter agstatic/absint.py) on a small model -- three instructions of symbolic lengths L0, L1, L2 (>= 2), a
symbolic instruction offset C, branch offset R, switch targets T0, T1 -- and judged by the values they compute (linear
forms), never by the shape of their loops.  Helper functions / methods of the analysed modules, generators,
comprehensions, lookup tables of lambdas etc. are simply executed.

A VIOLATION is only reported for a positively computed value that differs from the specification in known components
(an offset that is not the prefix sum, a payload address that is not C + 2*R, a code-unit value entering a byte offset
with a coefficient other than 2, get_targets() reached on something that is not a switch payload ...).  Anything the
interpreter cannot evaluate, or an effect that is simply not observed, is an AnalysisError (exit 2).
"""
from __future__ import annotations

import ast

from .absint import Interp, Sym, Lin, Obj, Raised, LambdaV, explore, show
from .bits import Bits
from .consts import Folder, Unknown, Ref
from .model import ANALYSIS, DEX, AnalysisError
from .spec import dalvik

PAYLOAD_USERS = {k for k, o in dalvik.OPCODES.items() if o[1] == "31t"}
SWITCH_OPS = {k for k, o in dalvik.OPCODES.items() if o[3] == "switch"}
OP_DOMAIN = sorted(set(range(256)) | set(dalvik.PAYLOADS))


class _Ins:
    """model instruction number k"""

    def __init__(self, k, op=0x00):
        self.k = k
        self.op = op

    def __repr__(self):
        return "<instruction %d>" % self.k


class _Tok:
    def __init__(self, name):
        self.name = name

    def __repr__(self):
        return "<%s>" % self.name


class _ModFunc:
    """pseudo function: evaluation context of a module-level expression"""

    def __init__(self, module):
        self.module = module
        self.qualname = "<module %s>" % module.relpath
        self.cls = None
        self.node = None
        self.name = "<module>"
        self.file = module.relpath
        self.line = 0

    def loc(self, node=None):
        return "%s:%d" % (self.module.relpath, getattr(node, "lineno", 0))


def _lin(v):
    if isinstance(v, Bits) and v.is_const():
        v = v.value()
    if isinstance(v, Lin):
        return v
    return Lin.of(v)


def _norm(v):
    l = _lin(v)
    if l is None:
        return None
    return (frozenset(l.terms.items()), l.const)


def _same(a, b):
    na, nb = _norm(a), _norm(b)
    return na is not None and na == nb


def render(v, names):
    l = _lin(v)
    if l is None:
        return show(v)[:80]
    parts = []
    for a, c in sorted(l.terms.items(), key=lambda kv: names.get(kv[0], show(kv[0]))):
        n = names.get(a, show(a))
        parts.append(n if c == 1 else "%d*%s" % (c, n))
    if l.const or not parts:
        parts.append(str(l.const))
    return " + ".join(parts)


class Model:
    """hooks shared by all model runs"""

    def __init__(self, repo, lengths=None):
        self.repo = repo
        self.folder = Folder(repo)
        self.dexm = repo.mod(DEX)
        self.anam = repo.mod(ANALYSIS)
        # symbolic lengths by default; a concrete vector of (even) byte lengths as a fallback instance of the model
        self.L = list(lengths) if lengths is not None else [Sym("L0"), Sym("L1"), Sym("L2")]
        self.ins = [_Ins(0), _Ins(1), _Ins(2)]
        def _sum(xs):
            t = Lin({}, 0)
            for x in xs:
                t = t + Lin.of(x)
            return t.simplify()
        self.S = [0, _sum(self.L[:1]), _sum(self.L[:2]), _sum(self.L[:3])]
        self.method = _Tok("method")
        self.code = _Tok("method.get_code()")
        # the DCode of the model method is a real (abstract) DCode object: methods a refactoring adds to DCode are executed;
        # get_instructions / get_ins_off are answered by the model (hooks)
        self.dcode = Obj(self.dexm.cls("DCode"), "method.get_code().get_bc()")
        self.positive = {s: 2 for s in self.L if isinstance(s, Sym)}  # lower bounds of symbols (lengths are >= 2 bytes)
        self.symbols = {s for s in self.L if isinstance(s, Sym)}
        self._cont = None
        self.lookups = []
        self.bad_targets = []
        self.payload = None
        self.ins_attrs = {}

    # ---- hooks ---------------------------------------------------------------------------------------
    def compare(self, it, op, a, b, node, func):
        if isinstance(op, (ast.Is, ast.IsNot, ast.Eq, ast.NotEq)) and (a is None or b is None):
            other = b if a is None else a
            if other is None:
                return isinstance(op, (ast.Is, ast.Eq))
            if isinstance(other, (Sym, Lin, _Ins, _Tok, Obj, int)):
                return isinstance(op, (ast.IsNot, ast.NotEq))
            return NotImplemented
        if isinstance(a, (_Ins, _Tok)) or isinstance(b, (_Ins, _Tok)):
            if isinstance(op, (ast.Is, ast.Eq)):
                return a is b
            if isinstance(op, (ast.IsNot, ast.NotEq)):
                return a is not b
            return NotImplemented
        la, lb = _lin(a), _lin(b)
        if la is None or lb is None or not isinstance(op, (ast.Eq, ast.NotEq, ast.Lt, ast.LtE, ast.Gt, ast.GtE)):
            return NotImplemented
        d = la + lb.scale(-1)
        if any(x not in self.positive for x in d.terms):
            # a condition on the model's own symbols (e.g. the alignment test (C + 2*R) % 4 != 0): both outcomes are
            # possible for real inputs -> explore both.  Conditions on anything else stay undecided (AnalysisError).
            if self.is_model_value(a) and self.is_model_value(b):
                key = ("m", type(op).__name__, repr(_norm(a)), repr(_norm(b)))
                if key in it.asg:
                    return bool(it.asg[key])
                from .absint import Split
                raise Split([key])
            return NotImplemented
        coeffs = list(d.terms.items())
        if not coeffs:
            sign = (d.const > 0) - (d.const < 0)
        elif all(c > 0 for _, c in coeffs) and d.const + sum(c * self.positive[x] for x, c in coeffs) > 0:
            sign = 1
        elif all(c < 0 for _, c in coeffs) and d.const + sum(c * self.positive[x] for x, c in coeffs) < 0:
            sign = -1
        else:
            return NotImplemented
        return {ast.Eq: sign == 0, ast.NotEq: sign != 0, ast.Lt: sign < 0, ast.LtE: sign <= 0, ast.Gt: sign > 0, ast.GtE: sign >= 0}[type(op)]

    def is_model_value(self, v):
        v = _const(v)
        if isinstance(v, (int,)) and not isinstance(v, bool):
            return True
        if isinstance(v, Lin):
            return all(self.is_model_value(a) for a in v.terms)
        if isinstance(v, Sym):
            if v in self.symbols:
                return True
            if v.op in ("Mod", "FloorDiv", "BitAnd", "BitOr", "RShift", "LShift", "Sub", "Add", "Mult") and v.args:
                return all(self.is_model_value(a) for a in v.args)
        return False

    def binop(self, it, op, a, b, node):
        if isinstance(op, ast.LShift) and isinstance(b, int) and not isinstance(b, bool) and 0 <= b < 32:
            la = _lin(a)
            if la is not None and la.terms:
                return la.scale(1 << b).simplify()
        return NotImplemented

    def method_hook(self, it, recv, name, args, kwargs, e, func):
        if isinstance(recv, str) and name in ("join", "format"):
            parts = list(args[0]) if name == "join" and args and isinstance(args[0], (list, tuple)) else list(args)
            if not all(isinstance(x, (str, int)) for x in parts):
                # a text built from symbolic values (a block name, a log message): an opaque string, never a decision input
                return Sym("strvalue", recv, *[x if isinstance(x, (str, int, Sym, Lin)) else show(x) for x in parts])
        if isinstance(recv, (list, set, frozenset, tuple)) or (isinstance(recv, dict) and name not in ("items", "keys", "values", "get")):
            # python containers: the generic container semantics of the xref model (append / pop / add / update ...)
            from .xref_model import Runner
            if self._cont is None:
                self._cont = Runner(self.repo)
            r = self._cont.container_method(recv, name, args, kwargs, e, func)
            if r is not NotImplemented:
                return r[0]
            if not hasattr(recv, name):
                raise Raised("AttributeError", e, "'%s' object has no attribute '%s'" % (type(recv).__name__, name))
            raise AnalysisError("model: %s.%s is not modelled (%s)" % (type(recv).__name__, name, func.loc(e)))
        if isinstance(recv, dict):
            if name == "items" and not args:
                return [(k, v) for k, v in recv.items()]
            if name == "keys" and not args:
                return list(recv.keys())
            if name == "values" and not args:
                return list(recv.values())
            if name == "get" and args and _norm(args[0]) is not None and not isinstance(_const(args[0]), int):
                for kk, v in recv.items():
                    if _same(kk, args[0]):
                        return v
                return args[1] if len(args) > 1 else None
        if isinstance(recv, _Ins):
            if name == "get_length":
                return self.ins_attrs.get((recv.k, "length"), self.L[recv.k])
            if name == "get_op_value":
                return recv.op
            if name == "get_ref_off":
                return self.ins_attrs.get((recv.k, "ref_off"), Sym("ref_off%d" % recv.k))
            if name == "get_targets":
                self.bad_targets.append(("instruction that is not a switch payload", e))
                return []
            return Sym("ins%d.%s" % (recv.k, name))
        if recv is None and name == "get_targets":
            self.bad_targets.append(("None", e))
            return []
        if recv is self.method or (isinstance(recv, Obj) and recv.cls is not None and recv.cls.name == "EncodedMethod"):
            if name == "get_code":
                return self.code
            if name == "get_instructions" and recv is self.method:
                return list(self.ins)
            if name == "get_instructions_idx" and recv is self.method:
                return [(self.S[k], self.ins[k]) for k in range(3)]
            if recv is self.method and name == "get_name":
                return "m"
            if recv is self.method:
                return Sym("method.%s" % name)
            return NotImplemented
        if recv is self.code:
            if name == "get_bc":
                return self.dcode
            return Sym("code.%s" % name)
        if recv is self.dcode:
            if name == "get_ins_off" and len(args) == 1:
                self.lookups.append((args[0], e))
                return self.payload
            if name == "get_instructions":
                return list(self.ins)
            recv.attrs["cached_instructions"] = list(self.ins)
            recv.attrs.setdefault("idx", 0)
            return NotImplemented
        if isinstance(recv, Obj) and recv.cls is not None and recv.cls.name == "DCode" and name == "get_instructions" and recv.cls.lookup("get_instructions") is not None:
            # DCode.get_instructions: the cached list if there is one (set_instructions replaces it), else a fresh
            # disassembly -- which the model answers with its instruction list; the real method is executed for the rest
            return NotImplemented
        if isinstance(recv, Obj) and recv.name == "payload":
            if name == "get_targets":
                if recv.cls is not None and recv.cls.name in ("PackedSwitch", "SparseSwitch"):
                    return [Sym("T0"), Sym("T1")]
                self.bad_targets.append(("%s object" % (recv.cls.name if recv.cls else "?"), e))
                return []
            return Sym("payload.%s" % name)
        if isinstance(recv, Sym) and recv.op in ("global", "name", "modattr", "attr") and "logger" in show(recv):
            return None
        return NotImplemented

    def call_hook(self, it, name, callee, args, kwargs, e, func):
        if name == "sorted" and len(args) == 1 and isinstance(args[0], (list, tuple)) and not kwargs:
            r = self.sort(it, list(args[0]), e, func)
            if r is not None:
                return r
        if name == "next" and args and isinstance(args[0], (list, tuple)):
            if args[0]:
                return args[0][0]
            if len(args) > 1:
                return args[1]
            raise Raised("StopIteration", e)
        if name == "hash" and len(args) == 1 and isinstance(args[0], int) and not isinstance(args[0], bool):
            return hash(args[0])
        if name in ("dict", "list", "set") and not args and not kwargs:
            return {"dict": dict, "list": list, "set": set}[name]()
        if name in ("any", "all") and len(args) == 1 and isinstance(args[0], (list, tuple)) and all(isinstance(x, bool) for x in args[0]):
            return any(args[0]) if name == "any" else all(args[0])
        if name == "isinstance" and len(args) == 2:
            v, t = args
            ts = list(t) if isinstance(t, (tuple, list)) else [t]
            if all(isinstance(x, Ref) and x.kind == "class" for x in ts):
                if isinstance(v, Obj) and v.cls is not None:
                    return any(v.cls.is_subclass_of(x.obj.name) for x in ts)
                if v is None or isinstance(v, (_Ins, _Tok, int)):
                    return False
        return NotImplemented

    def global_hook(self, it, name, func):
        if func is None:
            return NotImplemented
        r = func.module.resolve_name(name)
        if r is not None and r[0] == "const":
            v = self.folder.global_(func.module, name)
            if isinstance(v, Unknown) or _has_unknown(v):
                # a table the constant folder does not fold (lambdas, function references ...): evaluate it
                try:
                    return it.eval(r[2], {}, _ModFunc(r[1]))
                except AnalysisError:
                    return NotImplemented
        return NotImplemented

    def less(self, it, a, b, node, func):
        """a < b for model values / tuples of them (lexicographic); None if undecided"""
        if isinstance(a, (tuple, list)) and isinstance(b, (tuple, list)):
            for x, y in zip(a, b):
                if self._eq(it, x, y, node, func) is True:
                    continue
                return self.less(it, x, y, node, func)
            return len(a) < len(b)
        if isinstance(a, (int, str)) and isinstance(b, type(a)) and not isinstance(a, bool):
            return a < b
        try:
            r = self.compare(it, ast.Lt(), a, b, node, func)
        except Exception:
            return None
        return r if isinstance(r, bool) else None

    def _eq(self, it, a, b, node, func):
        if isinstance(a, (int, str)) and isinstance(b, (int, str)):
            return a == b
        if _norm(a) is not None and _norm(b) is not None:
            return _same(a, b)
        return a is b

    def sort(self, it, xs, node, func):
        out = []
        for x in xs:
            pos = len(out)
            for j, y in enumerate(out):
                lt = self.less(it, x, y, node, func)
                if lt is None:
                    return None
                if lt:
                    pos = j
                    break
            out.insert(pos, x)
        return out

    def subscript(self, it, base, k, e, func):
        """dict lookup with a symbolic (linear-form) key: decided by equality of the normal forms"""
        if isinstance(base, dict) and _norm(k) is not None and not isinstance(_const(k), int):
            for kk, v in base.items():
                if _same(kk, k):
                    return v
            raise Raised("KeyError", e, show(k))
        return NotImplemented

    def func_hook(self, it, target, args, kwargs, e, func):
        if target.qualname == "LinearSweepAlgorithm.get_instructions":
            return list(self.ins)   # the disassembly of the model method
        return NotImplemented

    def hooks(self, inline):
        return {"compare": self.compare, "method": self.method_hook, "call": self.call_hook, "binop": self.binop,
                "global": self.global_hook, "subscript": self.subscript, "func": self.func_hook, "inline_funcs": inline}

    def new_block(self, it, start, method):
        """a DEXBasicBlock built by the real constructor (every attribute the class keeps exists), starting at `start`"""
        cls = self.anam.cls("DEXBasicBlock")
        o = Obj(cls, "block")
        init = cls.lookup("__init__")
        if init is not None:
            it.call_function(init, [start, _Tok("vm"), method, _Tok("basic_blocks")], recv=o)
        return o

    def new_dcode(self, it, name="dcode"):
        """a DCode object built by the real constructor (so that every attribute it keeps exists)"""
        cls = self.dexm.cls("DCode")
        o = Obj(cls, name)
        init = cls.lookup("__init__")
        if init is not None:
            it.call_function(init, [_Tok("class_manager"), 0, Sym("size"), _Tok("buff")], recv=o)
        return o

    def interp(self, asg, inline):
        return _ModelInterp(self, self.repo, self.folder, asg=dict(asg), hooks=self.hooks(inline), unknown_cond="error")


from .xref_model import XInterp   # strict evaluation: nothing is lost silently (see XInterp)


class _ModelInterp(XInterp):
    """a truth value that depends only on the model's own symbols (e.g. `if payload_idx % 4:`) can go either way for real
    inputs: both outcomes are explored.  Every other undecidable condition is an AnalysisError."""

    def __init__(self, model, *a, **kw):
        super().__init__(*a, **kw)
        self._model = model

    def unknown(self, v, node, func):
        if self._model.is_model_value(v):
            from .absint import Split
            key = ("m", "truth", repr(_norm(v)) if _norm(v) is not None else show(v))
            if key in self.asg:
                return bool(self.asg[key])
            raise Split([key])
        return super().unknown(v, node, func)


def _has_unknown(v):
    if isinstance(v, Unknown):
        return True
    if isinstance(v, (list, tuple, set, frozenset)):
        return any(_has_unknown(x) for x in v)
    if isinstance(v, dict):
        return any(_has_unknown(x) for x in v.values())
    return False


def _all_funcs(*mods):
    s = {"*module*"}
    for m in mods:
        for f in m.functions.values():
            s.add(f.qualname)
    return s


def _const(v):
    if isinstance(v, Bits) and v.is_const():
        return v.value()
    return v


# =====================================================================================================
# (A) offset accumulators
# =====================================================================================================
CONCRETE_LENGTHS = [(2, 4, 6), (6, 2, 4), (4, 6, 2)]


def rule_offset_functions(sink, repo):
    """symbolic lengths first; where a condition on them cannot be decided (e.g. an offset compared with a small
    constant, a halved length) the same model is evaluated for a few concrete length vectors instead -- every one of
    them is a possible method, so a mismatch found there is still a positively computed counterexample"""
    try:
        _offset_functions(sink, Model(repo))
    except AnalysisError as e:
        if hasattr(sink, "note"):
            sink.note("offset functions: symbolic lengths undecided (%s); evaluated for the length vectors %s" % (str(e)[:160], CONCRETE_LENGTHS))
        for lens in CONCRETE_LENGTHS:
            _offset_functions(sink, Model(repo, lens))


def _offset_functions(sink, md):
    repo = md.repo
    dcode = md.dexm.cls("DCode")
    inline = _all_funcs(md.dexm, md.anam)
    names = {l: "len(ins%d)" % k for k, l in enumerate(md.L) if isinstance(l, Sym)}
    S = md.S
    off_inside = (Lin.of(md.L[0]) + Lin({}, 1)).simplify()
    what_of = ["offset of instruction 0 (0)", "offset of instruction 1 (len0)", "offset of instruction 2 (len0+len1)"]

    def runs(f, args, recv_factory):
        def run(asg):
            it = md.interp(asg, inline)
            rf = recv_factory(it) if (recv_factory is new_dcode or getattr(recv_factory, "needs_interp", False)) else recv_factory()
            return it.call_function(f, list(args), recv=rf)
        return explore(run)

    def single(res, f, what):
        outs = []
        for asg, r in res:
            outs.append(r)
        first = outs[0]
        for o in outs[1:]:
            if repr(o) != repr(first):
                raise AnalysisError("%s: abstract run for the %s split into paths with different results (%s / %s)" % (f.qualname, what, show(first)[:60], show(o)[:60]))
        return first

    # ---- DCode.off_to_pos / get_ins_off -------------------------------------------------------------
    def new_dcode(it):
        return md.new_dcode(it)

    for name, expect, miss in (("off_to_pos", lambda k: k, -1), ("get_ins_off", lambda k: md.ins[k], None)):
        f = dcode.lookup(name)
        sink.require(f is not None, "anchor vanished: DCode.%s" % name)
        sink.analysed(f)
        cases = [(S[k], expect(k), what_of[k]) for k in range(3)]
        cases += [(off_inside, miss, "address inside instruction 1 (no instruction starts there)"),
                  (S[3], miss, "address behind the last instruction"),
                  (-2, miss, "negative address")]
        for off, want, what in cases:
            got = _const(single(runs(f, [off], new_dcode), f, what))
            sink.count("offset_cases")
            if isinstance(got, Raised):
                sink.check("offset-functions", "DCode.%s(%s)" % (name, what), False, f, "DCode.%s raises %s for the %s" % (name, got.exc, what.split(" (")[0]),
                           "DCode.%s raises %s for the %s" % (name, got, what), node=got.node)
                continue
            if isinstance(got, (Sym, Lin)):
                raise AnalysisError("DCode.%s: result %s for the %s is outside the interpreter's fragment" % (name, show(got)[:100], what))
            ok = got is want or (not isinstance(want, _Ins) and not isinstance(got, _Ins) and got == want)
            sink.check("offset-functions", "DCode.%s(%s)" % (name, what), ok, f, "DCode.%s(%s) -> %s" % (name, what.split(" (")[0], show(got)[:40]),
                       "DCode.%s returns %s for the %s; the disassembler's instruction offsets are the prefix sums of get_length(), expected %s" % (
                           name, show(got)[:60], what, show(want)[:40]), detail="%s -> %s" % (what, show(want)[:40]))
    # ---- history: an address lookup, then set_instructions() installs another layout, then lookups again ----------------
    fset = dcode.lookup("set_instructions")
    if fset is not None:
        new_list = [md.ins[2], md.ins[0], md.ins[1]]
        n_off = [0, md.L[2], (Lin.of(md.L[2]) + Lin.of(md.L[0])).simplify()]
        for name, expect in (("get_ins_off", lambda k: new_list[k]), ("off_to_pos", lambda k: k)):
            f = dcode.lookup(name)
            for k in (1, 2):
                def run(asg, f=f, k=k):
                    it = md.interp(asg, inline)
                    o = md.new_dcode(it)
                    it.call_function(f, [S[1]], recv=o)          # a lookup on the original layout
                    it.call_function(fset, [list(new_list)], recv=o)
                    return it.call_function(f, [n_off[k]], recv=o)
                what = "offset of instruction %d of the list installed by set_instructions() after an earlier lookup" % k
                got = _const(single(explore(run), f, what))
                sink.count("offset_cases")
                if isinstance(got, Raised):
                    sink.check("offset-functions", "DCode.%s after set_instructions" % name, False, f, "DCode.%s raises %s after set_instructions" % (name, got.exc),
                               "DCode.%s raises %s for the %s" % (name, got, what), node=got.node)
                    continue
                if isinstance(got, (Sym, Lin)):
                    raise AnalysisError("DCode.%s: result %s after set_instructions is outside the interpreter's fragment" % (name, show(got)[:100]))
                want = expect(k)
                ok = got is want or (not isinstance(want, _Ins) and not isinstance(got, _Ins) and got == want)
                sink.check("offset-functions", "DCode.%s after set_instructions (%d)" % (name, k), ok, f,
                           "DCode.%s after set_instructions -> %s instead of %s" % (name, show(got)[:40], show(want)[:40]),
                           "a lookup, then DCode.set_instructions([ins2, ins0, ins1]), then DCode.%s(%s) returns %s; the disassembler now reports %s there "
                           "(the answer stems from the layout before set_instructions)" % (name, render(n_off[k], names), show(got)[:40], show(want)[:40]),
                           detail="after set_instructions the new layout is used")
    # ---- EncodedMethod.get_instructions_idx ------------------------------------------------------------
    em = md.dexm.cls("EncodedMethod")
    f = em.lookup("get_instructions_idx")
    sink.require(f is not None, "anchor vanished: EncodedMethod.get_instructions_idx")
    sink.analysed(f)
    got = single(runs(f, [], lambda: Obj(em, "encoded_method")), f, "instruction list")
    if isinstance(got, Raised):
        raise AnalysisError("EncodedMethod.get_instructions_idx raises %s in the model" % got)
    if not isinstance(got, (list, tuple)) or not all(isinstance(x, (tuple, list)) and len(x) == 2 for x in got):
        raise AnalysisError("EncodedMethod.get_instructions_idx: result %s is outside the interpreter's fragment" % show(got)[:120])
    sink.count("offset_cases")
    sink.check("offset-functions", "get_instructions_idx yields every instruction", len(got) == 3, f, "get_instructions_idx yields %d of 3 instructions" % len(got),
               "get_instructions_idx yields %d pairs for a method of 3 instructions" % len(got), detail="3 (offset, instruction) pairs")
    for k, pair in enumerate(got[:3]):
        o, i = _const(pair[0]), pair[1]
        if isinstance(o, _Ins) and not isinstance(i, _Ins):
            okp, shown = False, "(instruction, offset)"
        else:
            okp, shown = (_same(o, S[k]) and i is md.ins[k]), "(%s, %s)" % (render(o, names), show(i))
            if _norm(o) is None and not isinstance(o, _Ins):
                raise AnalysisError("EncodedMethod.get_instructions_idx: offset %s is outside the interpreter's fragment" % show(o)[:80])
        sink.count("offset_cases")
        sink.check("offset-functions", "get_instructions_idx step %d" % k, okp, f, "get_instructions_idx step %d yields %s" % (k, shown),
                   "get_instructions_idx yields %s at step %d; expected (%s, instruction %d): the offset before the instruction's length is added" % (
                       shown, k, render(S[k], names), k), detail="step %d = (%s, instruction %d)" % (k, render(S[k], names), k))
    # ---- DEXBasicBlock.get_instructions ------------------------------------------------------------------
    bb = md.anam.cls("DEXBasicBlock")
    f = bb.lookup("get_instructions")
    sink.require(f is not None, "anchor vanished: DEXBasicBlock.get_instructions")
    sink.analysed(f)

    def new_block(start, end):
        def mk(it):
            o = md.new_block(it, start, md.method)
            o.attrs.update(start=start, end=end, method=md.method)
            return o
        mk.needs_interp = True
        return mk

    for (a, b, want, what) in ((S[1], S[2], [1], "block [len0, len0+len1)"), (0, S[2], [0, 1], "block [0, len0+len1)"), (S[1], S[3], [1, 2], "block [len0, end)")):
        got = single(runs(f, [], new_block(a, b)), f, what)
        if isinstance(got, Raised) or not isinstance(got, (list, tuple)) or not all(isinstance(x, _Ins) for x in got):
            raise AnalysisError("DEXBasicBlock.get_instructions: result %s for %s is outside the interpreter's fragment" % (show(got)[:100], what))
        ks = [x.k for x in got]
        sink.count("offset_cases")
        sink.check("offset-functions", "DEXBasicBlock.get_instructions %s" % what, ks == want, f, "get_instructions of %s -> instructions %s" % (what, ks),
                   "DEXBasicBlock.get_instructions returns instructions %s for the %s; with the disassembler's offsets it contains %s" % (ks, what, want),
                   detail="%s -> instructions %s" % (what, want))
    sink.floor("offset_cases", 19)  # 23 with the set_instructions sequence


# =====================================================================================================
# (B) DEXBasicBlock.push and determineNext: payload address, units, type check
# =====================================================================================================
def _unit_check(sink, f, label, what, v, md, names, seen):
    """every code-unit atom enters with coefficient 2, every byte atom with coefficient 1"""
    v = _const(v)
    if isinstance(v, int):
        return
    l = _lin(v)
    if l is None:
        raise AnalysisError("%s: %s %s is outside the interpreter's fragment" % (label, what, show(v)[:100]))
    cu = [(a, c) for a, c in l.terms.items() if a in md.code_units]
    by = [(a, c) for a, c in l.terms.items() if a in md.bytes_]
    other = [a for a in l.terms if a not in md.code_units and a not in md.bytes_]
    if other and not cu:
        return
    if not cu:
        return
    ok = all(c == 2 for _, c in cu) and all(c == 1 for _, c in by)
    key = (label, what, _norm(v))
    if key in seen:
        return
    seen.add(key)
    sink.count("unit_terms")
    sink.check("units", "%s %s" % (label, what), ok, f, "%s: %s" % (what, render(v, names)),
               "%s computes the %s %s: a 16-bit code-unit value (get_ref_off / get_targets) must enter a byte offset doubled exactly once" % (label, what, render(v, names)),
               detail="code units doubled exactly once: %s" % render(v, names))


def rule_payload_model(sink, repo):
    md = Model(repo)
    inline = _all_funcs(md.dexm, md.anam)
    C, R, Lk, E = Sym("insn_offset"), Sym("ref_off"), Sym("insn_length"), Sym("block_end")
    T0, T1 = Sym("T0"), Sym("T1")
    names = {C: "insn_offset", R: "ref_off", Lk: "insn_length", E: "insn_offset", T0: "target", T1: "target"}
    md.code_units = {R, T0, T1}
    md.bytes_ = {C, Lk, E}
    md.symbols |= {C, R, Lk, E, T0, T1, Sym("block_start"), Sym("n")}
    md.positive[Lk] = 2
    packed = md.dexm.cls("PackedSwitch")
    sparse = md.dexm.cls("SparseSwitch")
    other = md.dexm.classes.get("Instruction10x") or md.dexm.cls("Instruction")
    seen = set()
    canon = {}

    # ---------------------------------------------------------------- DEXBasicBlock.push
    bb = md.anam.cls("DEXBasicBlock")
    f = bb.lookup("push")
    sink.require(f is not None, "anchor vanished: DEXBasicBlock.push")
    sink.analysed(f)
    looked = set()
    for k in OP_DOMAIN:
        ins = _Ins(0, k)
        md.ins_attrs = {(0, "length"): Lk, (0, "ref_off"): R}
        data = Obj(packed if k != 0x26 else md.dexm.classes.get("FillArrayData", packed), "payload")
        md.payload = data

        def run(asg):
            md.lookups, md.bad_targets = [], []
            it = md.interp(asg, inline)
            o = md.new_block(it, Sym("block_start"), md.method)
            o.attrs.update(end=E, start=Sym("block_start"), nb_instructions=Sym("n"), last_length=0, special_ins={}, method=md.method)
            r = it.call_function(f, [ins], recv=o)
            return o, list(md.lookups), r
        for asg, res in explore(run):
            if isinstance(res, Raised):
                raise AnalysisError("DEXBasicBlock.push raises %s in the model (opcode 0x%02x)" % (res, k))
            o, lookups, _ = res
            endv = o.attrs.get("end")
            kk = ("end", _norm(endv))
            if kk not in seen:
                seen.add(kk)
                if _norm(endv) is None:
                    raise AnalysisError("DEXBasicBlock.push: block end %s is outside the interpreter's fragment" % show(endv)[:80])
                sink.count("block_end_updates")
                sink.check("offset-functions", "push advances the block end", _same(endv, Lin({E: 1, Lk: 1})), f,
                           "push: end = %s" % render(endv, {E: "end", Lk: "insn_length"}),
                           "DEXBasicBlock.push leaves end = %s; with the disassembler's offsets the block ends at end + length of the pushed instruction" % render(endv, {E: "end", Lk: "insn_length"}),
                           detail="end += length of the pushed instruction")
            sp = o.attrs.get("special_ins")
            if lookups:
                looked.add(k)
            for addr, node in lookups:
                kk = ("addr", _norm(addr), k in PAYLOAD_USERS)
                canon.setdefault("push", set()).add(render(addr, names))
                if kk in seen:
                    continue
                seen.add(kk)
                if _norm(addr) is None:
                    raise AnalysisError("DEXBasicBlock.push: payload address %s is outside the interpreter's fragment" % show(addr)[:80])
                sink.count("payload_lookups")
                sink.check("payload-address", "DEXBasicBlock.push payload address", _same(addr, Lin({E: 1, R: 2})), f, "get_ins_off(%s)" % render(addr, names),
                           "DEXBasicBlock.push looks the payload of %s up at %s; the instruction encodes insn_offset + 2*ref_off (the sibling computation in determineNext must agree)" % (
                               _opn(k), render(addr, names)), node=node, detail="payload address = insn_offset + 2*ref_off")
                _unit_check(sink, f, "DEXBasicBlock.push", "payload address", addr, md, names, seen)
            if isinstance(sp, dict) and lookups:
                for key, val in sp.items():
                    if val is data:
                        kk = ("key", _norm(key))
                        if kk in seen:
                            continue
                        seen.add(kk)
                        sink.count("payload_links")
                        sink.check("payload-address", "DEXBasicBlock.push link key", _same(key, E), f, "special_ins[%s]" % render(key, names),
                                   "DEXBasicBlock.push stores the payload link under %s; specification: under the offset of the instruction itself" % render(key, names),
                                   detail="special_ins key = offset of the instruction")
    extra = looked - PAYLOAD_USERS
    sink.check("payload-opcodes", "DEXBasicBlock.push payload opcodes", not extra, f, "push payload lookup for %s" % _ops(extra),
               "DEXBasicBlock.push looks a payload up for %s, which do not carry a payload offset" % _ops(extra), detail="no payload lookup outside {%s}" % _ops(PAYLOAD_USERS))
    push_deferred = None
    if PAYLOAD_USERS - looked:
        # not a verdict: the link may be established elsewhere (decided by the end-to-end model, rule_payload_links_model)
        push_deferred = ("DEXBasicBlock.push: no payload lookup through method.get_code().get_bc().get_ins_off() observed for %s -- the link is "
                         "established in a way the per-function rule does not follow" % _ops(PAYLOAD_USERS - looked))

    # ---------------------------------------------------------------- determineNext
    f = md.dexm.functions.get("determineNext")
    sink.require(f is not None, "anchor vanished: determineNext")
    sink.analysed(f)
    looked = set()
    n_guard = 0
    for k in OP_DOMAIN:
        ins = _Ins(0, k)
        md.ins_attrs = {(0, "length"): Lk, (0, "ref_off"): R}
        scenarios = [("PackedSwitch payload", Obj(packed, "payload"))]
        first = True
        si = 0
        while si < len(scenarios):
            sname, data = scenarios[si]
            si += 1
            md.payload = data

            def run(asg):
                md.lookups, md.bad_targets = [], []
                it = md.interp(asg, inline)
                r = it.call_function(f, [ins, C, md.method])
                return r, list(md.lookups), list(md.bad_targets)
            for asg, res in explore(run):
                if isinstance(res, Raised):
                    if sname.startswith("Packed") or sname.startswith("Sparse"):
                        raise AnalysisError("determineNext raises %s in the model (opcode 0x%02x, %s)" % (res, k, sname))
                    continue
                r, lookups, bad = res
                if lookups and first:
                    first = False
                    looked.add(k)
                    scenarios += [("SparseSwitch payload", Obj(sparse, "payload")), ("no instruction at the address", None),
                                  ("another instruction at the address", Obj(other, "payload"))]
                for addr, node in lookups:
                    canon.setdefault("determineNext", set()).add(render(addr, names))
                    kk = ("dn-addr", _norm(addr) if _norm(addr) is not None else show(addr))
                    if kk in seen:
                        continue
                    seen.add(kk)
                    if _norm(addr) is None:
                        raise AnalysisError("determineNext: payload address %s is outside the interpreter's fragment" % show(addr)[:80])
                    sink.count("payload_lookups")
                    sink.check("payload-address", "determineNext payload address", _same(addr, Lin({C: 1, R: 2})), f, "get_ins_off(%s)" % render(addr, names),
                               "determineNext looks the payload of %s up at %s; the instruction encodes insn_offset + 2*ref_off (the sibling computation in DEXBasicBlock.push must agree)" % (
                                   _opn(k), render(addr, names)), node=node, detail="payload address = insn_offset + 2*ref_off")
                    _unit_check(sink, f, "determineNext", "payload address", addr, md, names, seen)
                if lookups:
                    n_guard += 1
                for whatb, node in bad:
                    kk = ("bad", whatb)
                    if kk in seen:
                        continue
                    seen.add(kk)
                    sink.check("payload-type", "determineNext get_targets guarded", False, f, "get_targets() on %s" % whatb,
                               "determineNext calls get_targets() although the payload address holds %s: the looked-up instruction is not checked to be a "
                               "PackedSwitch/SparseSwitch payload before use" % whatb, node=node)
                if isinstance(r, (list, tuple)):
                    for x in r:
                        _unit_check(sink, f, "determineNext", "returned offset", x, md, names, seen)
                elif r is not None and not isinstance(r, (Sym,)):
                    pass
    if looked:
        sink.ob("payload-type", "determineNext get_targets guarded", True, "get_targets() is never reached when the payload address holds None or a non-payload instruction (%d model runs)" % n_guard)
    sink.count("payload_uses", 1 if looked else 0)
    extra = looked - SWITCH_OPS
    sink.check("payload-opcodes", "determineNext payload opcodes", not extra, f, "determineNext payload lookup for %s" % _ops(extra),
               "determineNext looks a switch payload up for %s, which are not switch instructions" % _ops(extra), detail="no payload lookup outside {%s}" % _ops(SWITCH_OPS))
    if SWITCH_OPS - looked:
        raise AnalysisError("determineNext: no payload lookup through m.get_code().get_bc().get_ins_off() observed for %s -- the targets are obtained in a way this rule does not follow" % _ops(SWITCH_OPS - looked))
    a, b = canon.get("push", set()), canon.get("determineNext", set())
    sink.ob("payload-address", "siblings agree", a == b, "push: %s / determineNext: %s" % (sorted(a), sorted(b)))
    sink.floor("payload_lookups", 1 if push_deferred else 2)
    sink.floor("unit_terms", 2 if push_deferred else 3)
    sink.floor("block_end_updates", 1)
    return push_deferred


def _opn(k):
    if k in dalvik.OPCODES:
        return "0x%02x %s" % (k, dalvik.OPCODES[k][0])
    return "0x%02x" % k


def _ops(s):
    return ", ".join(_opn(k) for k in sorted(s)) or "-"


# =====================================================================================================
# (C) end to end: after MethodAnalysis._create_basic_block the payload link of every fill-array-data instruction is
#     the instruction the disassembler reports at the encoded offset (two instructions sharing one payload)
# =====================================================================================================
def rule_payload_links_model(sink, repo):
    """two model methods: a payload shared by two fill-array-data instructions in front of it, and a payload placed
    BEFORE the instruction that refers to it (negative offset, legal)"""
    _payload_links(sink, repo, "shared")
    _payload_links(sink, repo, "backward")
    return True


def _payload_links(sink, repo, layout):
    """-> True if the model could be evaluated (violations, if any, have been reported); raises AnalysisError otherwise"""
    from fractions import Fraction
    md = Model(repo)
    inline = _all_funcs(md.dexm, md.anam)
    ana = md.anam
    L3 = Sym("L3")
    md.L.append(L3)
    md.positive[L3] = 2
    md.symbols.add(L3)
    S = md.S
    fad = md.dexm.classes.get("FillArrayData")
    if fad is None:
        raise AnalysisError("class FillArrayData vanished")
    payload = Obj(fad, "payload")
    half = Fraction(1, 2)
    if layout == "shared":
        # both fill-array-data instructions encode the offset of the same payload (instruction 2):  S_k + 2*ref_off_k = S_2
        md.ins = [_Ins(0, 0x26), _Ins(1, 0x26), payload, _Ins(3, 0x0E)]
        md.ins_attrs = {(0, "ref_off"): Lin({md.L[0]: half, md.L[1]: half}), (1, "ref_off"): Lin({md.L[1]: half})}
        users, ppos = (0, 1), 2
        descr = "[fill-array-data, fill-array-data, payload, return-void] whose two fill-array-data instructions both encode the offset of the payload"
    else:
        # the payload precedes its user:  S_1 + 2*ref_off_1 = S_0 = 0, i.e. a negative branch offset
        md.ins = [payload, _Ins(1, 0x26), _Ins(2, 0x0E)]
        md.ins_attrs = {(1, "ref_off"): Lin({md.L[0]: -half})}
        users, ppos = (1,), 0
        descr = "[payload, fill-array-data, return-void] whose fill-array-data encodes the (negative) offset of the payload in front of it"
    offsets = [S[0], S[1], S[2], S[3]][:len(md.ins)]
    names = {md.L[0]: "len0", md.L[1]: "len1", md.L[2]: "len2", L3: "len3"}
    base_method = md.method_hook

    def method_hook(it, recv, name, args, kwargs, e, func):
        if recv is payload:
            if name == "get_length":
                return md.L[ppos]
            if name == "get_op_value":
                return 0x0300
            return Sym("payload.%s" % name)
        if recv is md.method:
            if name == "get_instructions_idx":
                return [(offsets[k], md.ins[k]) for k in range(len(md.ins))]
            if name == "get_instructions":
                return list(md.ins)
            if name == "get_name":
                return "m"
            if name == "get_code_off":
                return 0
        if recv is md.dcode and name == "get_ins_off" and len(args) == 1:
            for k in range(len(md.ins)):
                if _same(args[0], offsets[k]):
                    return md.ins[k]
            if _norm(args[0]) is None:
                raise AnalysisError("payload address %s is outside the interpreter's fragment" % show(args[0])[:80])
            return None
        if isinstance(recv, Sym) and recv.op == "module" and func is not None:
            r = func.module.resolve_name(recv.args[0])
            if r is not None and r[0] == "module" and r[1] is not None and name in r[1].functions:
                target = r[1].functions[name]
                hr = func_hook(it, target, args, kwargs, e, func)
                if hr is not NotImplemented:
                    return hr
                return it.call_function(target, args, kwargs)
        if isinstance(recv, Obj) and recv.cls is not None and recv.cls.lookup(name) is None:
            a = recv.cls.lookup_attr(name)
            if isinstance(a, ast.Name) and recv.cls.lookup(a.id) is not None:  # class-level alias:  get = __iter__
                return it.call_function(recv.cls.lookup(a.id), args, kwargs, recv=recv)
        return base_method(it, recv, name, args, kwargs, e, func)

    model_classes = {"DEXBasicBlock", "BasicBlocks", "Exceptions", "ExceptionAnalysis"}

    def construct(it, cls, args, kwargs, e, func):
        if cls.module is ana and cls.name in model_classes:
            o = Obj(cls, cls.name)
            init = cls.lookup("__init__")
            if init is not None:
                it.call_function(init, args, kwargs, recv=o)
            return o
        return NotImplemented

    def func_hook(it, target, args, kwargs, e, func):
        if target.qualname == "determineException":
            return []
        return NotImplemented

    def global_hook(it, name, func):
        if name == "BasicOPCODES" and func is not None and func.module is ana:
            return set(dalvik.FLOW_OPS)
        return md.global_hook(it, name, func)

    ma_cls = ana.cls("MethodAnalysis")
    f = ma_cls.lookup("_create_basic_block")
    sink.require(f is not None, "anchor vanished: MethodAnalysis._create_basic_block")
    hooks = md.hooks(inline)
    hooks.update(method=method_hook, construct=construct, func=func_hook)
    hooks["global"] = global_hook

    def run(asg):
        it = _ModelInterp(md, repo, md.folder, asg=dict(asg), hooks=hooks, unknown_cond="error")
        mo = Obj(ma_cls, "method_analysis")
        bbs = construct(it, ana.cls("BasicBlocks"), [], {}, None, f)
        exs = construct(it, ana.cls("Exceptions"), [], {}, None, f)
        mo.attrs.update({"_MethodAnalysis__vm": _Tok("vm"), "method": md.method, "basic_blocks": bbs, "exceptions": exs, "code": md.code})
        it.call_function(f, [], recv=mo)
        blocks = bbs.attrs.get("bb")
        if not isinstance(blocks, list) or not blocks or not all(isinstance(b, Obj) for b in blocks):
            raise AnalysisError("MethodAnalysis._create_basic_block: no basic blocks in the model run")
        out = []
        for k in users:
            got = []
            for b in blocks:
                g = b.cls.lookup("get_special_ins")
                if g is None:
                    raise AnalysisError("DEXBasicBlock.get_special_ins vanished")
                got.append(it.call_function(g, [offsets[k]], recv=b))
            out.append(got)
        return out

    res = explore(run)
    for asg, r in res:
        if isinstance(r, Raised):
            raise AnalysisError("MethodAnalysis._create_basic_block raises %s in the model" % r)
    sink.analysed(f)
    for asg, r in res:
        for k, got in zip(users, r):
            hit = [g for g in got if g is not None]
            ok = len(hit) >= 1 and all(g is payload for g in hit)
            shown = "nothing (None)" if not hit else ", ".join(show(g)[:40] for g in hit)
            if hit and not all(isinstance(g, (Obj, _Ins)) for g in hit):
                raise AnalysisError("get_special_ins: result %s is outside the interpreter's fragment" % shown)
            sink.count("payload_links_end_to_end")
            tag = "fill-array-data #%d" % (k + 1) if layout == "shared" else "the fill-array-data behind its payload"
            sink.check("payload-link", "%s (%s layout)" % (tag, layout), ok, f,
                       "get_special_ins(offset of %s) -> %s" % (tag, shown),
                       "model method %s: "
                       "after _create_basic_block, get_special_ins(%s) is %s; the disassembler reports the fill-array-data-payload at the encoded offset %s" % (
                           descr, render(offsets[k], names), shown, render(offsets[ppos], names)),
                       detail="linked to the payload the disassembler reports at the encoded offset")
    return True
