#!/venv/bin/python
"""Extract 'Level text' / 'Trusted base' paragraphs from notes/CNN.md into agstatic/claims_notes.json (dev tool)."""
import json, os, re, sys
here = os.path.dirname(os.path.dirname(os.path.abspath(__file__)))
out = {}
for f in sorted(os.listdir(os.path.join(here, "notes"))):
    m = re.fullmatch(r"(C\d\d)\.md", f)
    if not m:
        continue
    t = open(os.path.join(here, "notes", f)).read()
    def grab(key):
        mm = re.search(r"(?is)(?:\*\*|##\s*)?%s(?:\*\*)?\s*:?\s*\n?(.*?)(?:\n\s*\n|\n##|\Z)" % key, t)
        if not mm:
            return None
        s = " ".join(mm.group(1).split())
        return s.strip('"* ').replace("**", "")
    lt, tb = grab("Level text"), grab("Trusted base")
    if lt and tb and tb in lt:
        lt = lt.split("Trusted base")[0].strip('"* ')
    out[m.group(1)] = dict(text=lt, note=tb)
json.dump(out, open(os.path.join(here, "agstatic", "claims_notes.json"), "w"), indent=1)
for k, v in out.items():
    print(k, "| text:", (v["text"] or "")[:90], "| note:", (v["note"] or "")[:70])
