"""Regular-language reasoning about *regex literals found in the analysed source*.

A pattern literal is parsed with CPython's own ``re._parser`` (this acts on
program text, not on program inputs), translated into an epsilon-NFA over
Unicode code-point sets and wrapped into a *whole-string acceptor* for one of
``re.match`` / ``re.search`` / ``re.fullmatch``:

    M(op, P) = { s : op(P, s) is not None }

The acceptor models the anchors exactly (no MULTILINE):

* ``^`` / ``\\A``   position 0 of the subject,
* ``\\Z``          end of the subject,
* ``$``           end of the subject **or** just before a final ``"\\n"``.

Two acceptors are compared by an on-the-fly subset construction over the
coarsest partition of the code-point space that respects every character set
of both patterns; a breadth-first product search yields shortest witnesses.

Unsupported constructs (look-around, back references, word boundaries,
IGNORECASE, MULTILINE, possessive/atomic groups, huge counted repeats) raise
``Unsupported`` -- callers turn that into an AnalysisError, never a verdict.
"""
from __future__ import annotations

import re
from collections import deque

try:  # Python >= 3.11
    import re._parser as _sre_parse
    import re._constants as _C
except ImportError:  # pragma: no cover
    import sre_parse as _sre_parse
    import sre_constants as _C

MAXCP = 0x10FFFF


class Unsupported(Exception):
    """The pattern uses a construct this module does not model."""


# ---------------------------------------------------------------------------
# character sets: sorted, disjoint, non-adjacent inclusive intervals
# ---------------------------------------------------------------------------
class CharSet:
    __slots__ = ("iv",)

    def __init__(self, intervals=()):
        iv = sorted((int(a), int(b)) for a, b in intervals if a <= b)
        out = []
        for a, b in iv:
            if out and a <= out[-1][1] + 1:
                if b > out[-1][1]:
                    out[-1] = (out[-1][0], b)
            else:
                out.append((a, b))
        self.iv = tuple(out)

    # constructors
    @staticmethod
    def of(chars):
        return CharSet((ord(c), ord(c)) if isinstance(c, str) else (c, c) for c in chars)

    @staticmethod
    def range(a, b):
        return CharSet([(a, b)])

    @staticmethod
    def full(maxcp=MAXCP):
        return CharSet([(0, maxcp)])

    EMPTY = None  # set below

    # algebra
    def union(self, o):
        return CharSet(self.iv + o.iv)

    __or__ = union

    def complement(self, maxcp=MAXCP):
        out, nxt = [], 0
        for a, b in self.iv:
            if a > nxt:
                out.append((nxt, a - 1))
            nxt = b + 1
        if nxt <= maxcp:
            out.append((nxt, maxcp))
        return CharSet(out)

    def intersect(self, o):
        out = []
        i = j = 0
        A, B = self.iv, o.iv
        while i < len(A) and j < len(B):
            lo = max(A[i][0], B[j][0])
            hi = min(A[i][1], B[j][1])
            if lo <= hi:
                out.append((lo, hi))
            if A[i][1] < B[j][1]:
                i += 1
            else:
                j += 1
        return CharSet(out)

    __and__ = intersect

    def minus(self, o):
        return self.intersect(o.complement())

    __sub__ = minus

    def __contains__(self, c):
        c = ord(c) if isinstance(c, str) else c
        for a, b in self.iv:
            if a <= c <= b:
                return True
            if a > c:
                return False
        return False

    def issubset(self, o):
        return self.minus(o).is_empty()

    def is_empty(self):
        return not self.iv

    def __bool__(self):
        return bool(self.iv)

    def __eq__(self, o):
        return isinstance(o, CharSet) and self.iv == o.iv

    def __hash__(self):
        return hash(self.iv)

    def size(self):
        return sum(b - a + 1 for a, b in self.iv)

    def min(self):
        return self.iv[0][0] if self.iv else None

    def sample(self):
        """the least member in the fixed reader-friendly total order `char_key`
        (digits < lower case < upper case < "_-.,/ " < other printable ASCII <
        ASCII controls < everything else by code point)"""
        if not self.iv:
            return None
        best = None
        for a, b in self.iv:
            if a > 127:
                break
            for c in range(a, min(b, 127) + 1):
                if best is None or char_key(c) < char_key(best):
                    best = c
        return best if best is not None else self.iv[0][0]

    def describe(self, limit=8):
        parts = []
        for a, b in self.iv[:limit]:
            parts.append(_cp(a) if a == b else "%s-%s" % (_cp(a), _cp(b)))
        if len(self.iv) > limit:
            parts.append("...")
        return "[" + "".join(parts) + "]"

    def __repr__(self):
        return "CharSet%s" % self.describe()


CharSet.EMPTY = CharSet()

_PUNCT = "_-.,/ "


def char_key(c):
    if c < 128:
        ch = chr(c)
        if ch.isdigit():
            return (0, c)
        if ch.islower():
            return (1, c)
        if ch.isupper():
            return (2, c)
        if ch in _PUNCT:
            return (3, _PUNCT.index(ch))
        if 32 < c < 127:
            return (4, c)
        return (5, c)
    return (6, c)


def _cp(c):
    if 33 <= c < 127 and chr(c) not in "-[]\\^":
        return chr(c)
    if c <= 0xFF:
        return "\\x%02x" % c
    if c <= 0xFFFF:
        return "\\u%04x" % c
    return "\\U%08x" % c


_CAT_CACHE: dict = {}


def _uni_category(pred_name):
    """code points satisfying a str predicate (what sre's Unicode categories use)"""
    if pred_name not in _CAT_CACHE:
        pred = {
            "digit": str.isdecimal,                       # Py_UNICODE_ISDECIMAL
            "space": str.isspace,                         # Py_UNICODE_ISSPACE
            "word": lambda ch: ch.isalnum() or ch == "_",  # Py_UNICODE_ISALNUM or '_'
        }[pred_name]
        iv, start = [], None
        for c in range(MAXCP + 1):
            if pred(chr(c)):
                if start is None:
                    start = c
            elif start is not None:
                iv.append((start, c - 1))
                start = None
        if start is not None:
            iv.append((start, MAXCP))
        _CAT_CACHE[pred_name] = CharSet(iv)
    return _CAT_CACHE[pred_name]


ASCII_DIGIT = CharSet.range(48, 57)
ASCII_SPACE = CharSet.of(" \t\n\r\f\v")
ASCII_WORD = CharSet([(48, 57), (65, 90), (97, 122), (95, 95)])
NEWLINE = CharSet.of("\n")


def category_set(cat, ascii_only, maxcp=MAXCP):
    name = str(cat)
    neg = "NOT_" in name
    if "DIGIT" in name:
        s = ASCII_DIGIT if ascii_only else _uni_category("digit")
    elif "SPACE" in name:
        s = ASCII_SPACE if ascii_only else _uni_category("space")
    elif "WORD" in name:
        s = ASCII_WORD if ascii_only else _uni_category("word")
    elif "LINEBREAK" in name:
        s = NEWLINE
    else:
        raise Unsupported("category %s" % name)
    s = s.intersect(CharSet.full(maxcp))
    return s.complement(maxcp) if neg else s


# ---------------------------------------------------------------------------
# parsing -> epsilon-NFA
# ---------------------------------------------------------------------------
BOS, EOL, EOS = "bos", "eol", "eos"  # ^ / \A ; $ ; \Z


class Regex:
    """epsilon-NFA of one pattern.  eps[q] = [(cond|None, q')], trans[q] = [(CharSet, q')]"""

    def __init__(self, pattern, flags=0):
        if isinstance(pattern, (bytes, bytearray)):
            self.maxcp = 255
            self.is_bytes = True
        else:
            self.maxcp = MAXCP
            self.is_bytes = False
        self.pattern = pattern
        try:
            tree = _sre_parse.parse(pattern, flags)
        except re.error as e:
            raise Unsupported("pattern %r does not compile: %s" % (pattern, e))
        self.flags = tree.state.flags
        if self.flags & re.IGNORECASE:
            raise Unsupported("IGNORECASE")
        if self.flags & re.MULTILINE:
            raise Unsupported("MULTILINE")
        if self.flags & re.LOCALE:
            raise Unsupported("LOCALE")
        self.ascii = bool(self.flags & re.ASCII) or self.is_bytes
        self.dotall = bool(self.flags & re.DOTALL)
        self.tree = tree
        self.eps: list[list] = []
        self.trans: list[list] = []
        self.anchors: set = set()
        self.start = self._new()
        self.accept = self._seq(list(tree), self.start)
        self.sets = {cs for row in self.trans for cs, _ in row}

    def _new(self):
        self.eps.append([])
        self.trans.append([])
        return len(self.eps) - 1

    def _e(self, a, b, cond=None):
        self.eps[a].append((cond, b))

    # --- charset of a single-character item, or None
    def item_charset(self, op, av):
        name = str(op)
        if name == "LITERAL":
            return CharSet.range(av, av)
        if name == "NOT_LITERAL":
            return CharSet.range(av, av).complement(self.maxcp)
        if name == "ANY":
            return CharSet.full(self.maxcp) if self.dotall else NEWLINE.complement(self.maxcp)
        if name == "CATEGORY":
            return category_set(av, self.ascii, self.maxcp)
        if name == "IN":
            acc = CharSet.EMPTY
            neg = False
            for o, a in av:
                n = str(o)
                if n == "NEGATE":
                    neg = True
                elif n == "LITERAL":
                    acc = acc | CharSet.range(a, a)
                elif n == "RANGE":
                    acc = acc | CharSet.range(a[0], a[1])
                elif n == "CATEGORY":
                    acc = acc | category_set(a, self.ascii, self.maxcp)
                else:
                    raise Unsupported("set item %s" % n)
            acc = acc.intersect(CharSet.full(self.maxcp))
            return acc.complement(self.maxcp) if neg else acc
        return None

    def _seq(self, items, q):
        for op, av in items:
            q = self._item(op, av, q)
        return q

    def _item(self, op, av, q):
        name = str(op)
        cs = self.item_charset(op, av)
        if cs is not None:
            n = self._new()
            self.trans[q].append((cs, n))
            return n
        if name == "SUBPATTERN":
            group, add, dele, p = av
            if add or dele:
                raise Unsupported("scoped inline flags")
            return self._seq(list(p), q)
        if name == "BRANCH":
            out = self._new()
            for alt in av[1]:
                s = self._new()
                self._e(q, s)
                e = self._seq(list(alt), s)
                self._e(e, out)
            return out
        if name in ("MAX_REPEAT", "MIN_REPEAT"):
            lo, hi, p = av
            p = list(p)
            if lo > 64 or (hi != _C.MAXREPEAT and hi > 64):
                raise Unsupported("counted repeat > 64")
            for _ in range(lo):
                q = self._seq(p, q)
            if hi == _C.MAXREPEAT:
                s = self._new()
                self._e(q, s)
                e = self._seq(p, s)
                self._e(e, s)
                out = self._new()
                self._e(s, out)
                return out
            out = self._new()
            self._e(q, out)
            for _ in range(hi - lo):
                q = self._seq(p, q)
                self._e(q, out)
            return out
        if name == "AT":
            an = str(av)
            n = self._new()
            if an in ("AT_BEGINNING", "AT_BEGINNING_STRING"):
                self._e(q, n, BOS)
                self.anchors.add(BOS)
            elif an == "AT_END":
                self._e(q, n, EOL)
                self.anchors.add(EOL)
            elif an == "AT_END_STRING":
                self._e(q, n, EOS)
                self.anchors.add(EOS)
            else:
                raise Unsupported(an)
            return n
        raise Unsupported(name)

    # --- structural helpers used by the file-name rules --------------------
    def top_items(self):
        """top-level item list with capture groups that wrap the whole pattern peeled off"""
        items = list(self.tree)
        while len(items) == 1 and str(items[0][0]) == "SUBPATTERN" and not items[0][1][1] and not items[0][1][2]:
            items = list(items[0][1][3])
        return items


def _has_anchor(items):
    for op, av in items:
        n = str(op)
        if n == "AT":
            return True
        if n == "SUBPATTERN" and _has_anchor(list(av[3])):
            return True
        if n == "BRANCH" and any(_has_anchor(list(a)) for a in av[1]):
            return True
        if n in ("MAX_REPEAT", "MIN_REPEAT") and _has_anchor(list(av[2])):
            return True
    return False


class _Sub(Regex):
    """Regex built from an already parsed item list (shares flags of the parent)"""

    def __init__(self, parent, items):
        self.maxcp = parent.maxcp
        self.is_bytes = parent.is_bytes
        self.pattern = parent.pattern
        self.flags = parent.flags
        self.ascii = parent.ascii
        self.dotall = parent.dotall
        self.tree = items
        self.eps, self.trans, self.anchors = [], [], set()
        self.start = self._new()
        self.accept = self._seq(list(items), self.start)
        self.sets = {cs for row in self.trans for cs, _ in row}


def single_char_language(rx, items=None):
    """If every match of the (anchor-free) pattern is exactly one character,
    return the CharSet of those characters, else None.  For such a pattern
    re.sub replaces exactly the characters of the set."""
    items = rx.top_items() if items is None else items
    if _has_anchor(items):
        return None
    sub = _Sub(rx, items)
    acc = Acceptor(sub, "fullmatch")
    alpha = Alphabet([acc])
    s0 = acc.initial()
    if acc.accepting(s0):
        return None
    out = CharSet.EMPTY
    for k in range(len(alpha.classes)):
        s1 = acc.step(s0, alpha, k)
        if not s1:
            continue
        if not acc.accepting(s1):
            return None  # some match needs more than one character
        for k2 in range(len(alpha.classes)):
            if acc.step(s1, alpha, k2):
                return None  # a longer match exists as well
        out = out | alpha.classes[k]
    return out


def trailing_char_class(rx):
    """pattern == <single-character language> followed by `$` or `\\Z`
    -> (CharSet, 'eol'|'eos') else None"""
    items = rx.top_items()
    if len(items) < 2 or str(items[-1][0]) != "AT":
        return None
    an = str(items[-1][1])
    kind = {"AT_END": EOL, "AT_END_STRING": EOS}.get(an)
    if kind is None:
        return None
    cs = single_char_language(rx, items[:-1])
    if cs is None:
        return None
    return cs, kind


# ---------------------------------------------------------------------------
# whole-string acceptors
# ---------------------------------------------------------------------------
PRE, POST = -1, -2
FREE, DOLLAR, ATEND = 0, 1, 2  # what is known about the rest of the subject


class Acceptor:
    """{ s : op(pattern, s) is not None } as an NFA whose states are
    (q, started, mode) configurations."""

    def __init__(self, rx: Regex, op: str):
        if op not in ("match", "search", "fullmatch"):
            raise Unsupported("regex operation %s" % op)
        self.rx = rx
        self.op = op
        self.maxcp = rx.maxcp
        self.sets = set(rx.sets) | {NEWLINE}

    def label(self):
        return "re.compile(%r).%s" % (self.rx.pattern, self.op)

    def _closure(self, confs):
        rx = self.rx
        seen = set(confs)
        stack = list(confs)
        while stack:
            q, st, mode = stack.pop()
            nxt = []
            if q == PRE:
                nxt.append((rx.start, st, mode))
            elif q == POST:
                pass
            else:
                if q == rx.accept:
                    nxt.append((POST, st, ATEND if self.op == "fullmatch" else mode))
                for cond, q2 in rx.eps[q]:
                    if cond is None:
                        nxt.append((q2, st, mode))
                    elif cond == BOS:
                        if not st:
                            nxt.append((q2, st, mode))
                    elif cond == EOL:
                        nxt.append((q2, st, max(mode, DOLLAR)))
                    elif cond == EOS:
                        nxt.append((q2, st, ATEND))
            for c in nxt:
                if c not in seen:
                    seen.add(c)
                    stack.append(c)
        return frozenset(seen)

    def initial(self):
        q0 = PRE if self.op == "search" else self.rx.start
        return self._closure([(q0, 0, FREE)])

    def step(self, confs, alpha, k):
        cls = alpha.classes[k]
        is_nl = alpha.is_newline[k]
        out = set()
        for q, st, mode in confs:
            if mode == ATEND:
                continue
            if mode == DOLLAR:
                if not is_nl:
                    continue
                nmode = ATEND
            else:
                nmode = FREE
            if q == PRE:
                if mode == FREE:
                    out.add((PRE, 1, FREE))
            elif q == POST:
                out.add((POST, 1, nmode))
            else:
                for cs, q2 in self.rx.trans[q]:
                    if alpha.member(cs, k):
                        out.add((q2, 1, nmode))
        return self._closure(out) if out else frozenset()

    @staticmethod
    def accepting(confs):
        return any(q == POST for q, _, _ in confs)


class Conj:
    """intersection of acceptors (empty list = every string)"""

    def __init__(self, parts, maxcp=MAXCP):
        self.parts = list(parts)
        self.maxcp = min([p.maxcp for p in self.parts] + [maxcp])
        self.sets = {NEWLINE}
        for p in self.parts:
            self.sets |= p.sets

    def label(self):
        return " and ".join(p.label() for p in self.parts) if self.parts else "<no filter>"

    def initial(self):
        return ("conj",) + tuple(p.initial() for p in self.parts)

    def step(self, st, alpha, k):
        nxt = tuple(p.step(s, alpha, k) for p, s in zip(self.parts, st[1:]))
        if any(not s for s in nxt):
            return ()
        return ("conj",) + nxt

    def accepting(self, st):
        return bool(st) and all(p.accepting(s) for p, s in zip(self.parts, st[1:]))


class Alphabet:
    """coarsest partition of [0, maxcp] respecting every set of the acceptors (+ extras)"""

    def __init__(self, acceptors, extra=()):
        maxcp = min(a.maxcp for a in acceptors)
        sets = set()
        for a in acceptors:
            sets |= a.sets
        sets |= set(extra)
        sets.add(NEWLINE)
        sets = [s for s in sets if s]
        cuts = {0, maxcp + 1}
        for s in sets:
            for a, b in s.iv:
                if a <= maxcp:
                    cuts.add(a)
                    cuts.add(min(b, maxcp) + 1)
        cuts = sorted(cuts)
        groups: dict = {}
        for lo, hi in zip(cuts, cuts[1:]):
            sig = frozenset(i for i, s in enumerate(sets) if lo in s)
            groups.setdefault(sig, []).append((lo, hi - 1))
        self.sets = sets
        self.classes = []
        self._sig = []
        for sig, iv in groups.items():
            self.classes.append(CharSet(iv))
            self._sig.append(sig)
        # deterministic, reader-friendly order: classes with ASCII alnum samples first
        order = sorted(range(len(self.classes)), key=lambda i: char_key(self.classes[i].sample()))
        self.classes = [self.classes[i] for i in order]
        self._sig = [self._sig[i] for i in order]
        self._idx = {s: i for i, s in enumerate(sets)}
        self.is_newline = [c == NEWLINE for c in self.classes]
        self.samples = [c.sample() for c in self.classes]

    def member(self, cs, k):
        i = self._idx.get(cs)
        if i is not None:
            return i in self._sig[k]
        return self.classes[k].issubset(cs)

    def word(self, ks):
        return "".join(chr(self.samples[k]) for k in ks)


def compare(a: Acceptor, b: Acceptor, extra_sets=(), region=None, max_states=200000):
    """Shortest witnesses of the symmetric difference of two acceptors.

    region: optional function CharSet(class) -> small int; the region of a
    word is the max over its characters.  Returns
        { r: {"only_a": word|None, "only_b": word|None} }   (r = 0 if no region function)
    """
    alpha = Alphabet([a, b], extra_sets)
    rk = [0] * len(alpha.classes) if region is None else [region(c) for c in alpha.classes]
    regions = sorted(set(rk)) or [0]
    res = {r: {"only_a": None, "only_b": None} for r in regions}
    start = (a.initial(), b.initial(), 0)
    seen = {start}
    dq = deque([(start, ())])

    def note(state, word):
        sa, sb, r = state
        if r not in res:
            res[r] = {"only_a": None, "only_b": None}
        aa, bb = a.accepting(sa), b.accepting(sb)
        if aa and not bb and res[r]["only_a"] is None:
            res[r]["only_a"] = alpha.word(word)
        if bb and not aa and res[r]["only_b"] is None:
            res[r]["only_b"] = alpha.word(word)

    note(start, ())
    while dq:
        (sa, sb, r), word = dq.popleft()
        for k in range(len(alpha.classes)):
            na = a.step(sa, alpha, k) if sa else sa
            nb = b.step(sb, alpha, k) if sb else sb
            if not na and not nb:
                continue
            st = (na, nb, max(r, rk[k]))
            if st in seen:
                continue
            seen.add(st)
            if len(seen) > max_states:
                raise Unsupported("product automaton too large")
            w = word + (k,)
            note(st, w)
            dq.append((st, w))
    return res, alpha


def canonical_dfa(acc, extra_sets=(), max_states=20000):
    """Minimal DFA of an acceptor over the language's own symbol-equivalence
    classes, numbered canonically.  Returns (groups, table, accepting) where
    groups is a list of CharSets (canonical order), table[i][g] the successor
    of state i (state 0 initial), accepting a list of bools.  The result
    depends on the *language* only, not on how the pattern is spelled."""
    alpha = Alphabet([acc], extra_sets)
    nk = len(alpha.classes)
    init = acc.initial()
    idx = {init: 0}
    states = [init]
    trans = []
    i = 0
    while i < len(states):
        row = []
        for k in range(nk):
            st = states[i]
            n = acc.step(st, alpha, k) if st else st
            if not n:
                n = None
            if n not in idx:
                idx[n] = len(states)
                states.append(n)
                if len(states) > max_states:
                    raise Unsupported("DFA too large")
            row.append(idx[n])
        trans.append(row)
        i += 1
    accepting = [bool(st) and acc.accepting(st) for st in states]
    # Moore refinement
    part = [1 if a else 0 for a in accepting]
    while True:
        sig = {}
        new = []
        for q in range(len(states)):
            key = (part[q],) + tuple(part[t] for t in trans[q])
            new.append(sig.setdefault(key, len(sig)))
        if len(sig) == len(set(part)):
            part = new
            break
        part = new
    nblocks = len(set(part))
    btrans = {}
    bacc = {}
    for q in range(len(states)):
        btrans[part[q]] = [part[t] for t in trans[q]]
        bacc[part[q]] = accepting[q]
    # merge symbol classes with identical columns
    cols = {}
    for k in range(nk):
        col = tuple(btrans[b][k] for b in range(nblocks))
        cols.setdefault(col, []).append(k)
    groups = []
    for col, ks in cols.items():
        cs = CharSet.EMPTY
        for k in ks:
            cs = cs | alpha.classes[k]
        groups.append((cs, ks[0]))
    groups.sort(key=lambda g: char_key(g[0].sample()))
    # canonical numbering by BFS in group order
    order = {part[0]: 0}
    queue = deque([part[0]])
    while queue:
        b = queue.popleft()
        for cs, k in groups:
            t = btrans[b][k]
            if t not in order:
                order[t] = len(order)
                queue.append(t)
    inv = sorted(order, key=order.get)
    table = [[order[btrans[b][k]] for cs, k in groups] for b in inv]
    return [g[0] for g in groups], table, [bacc[b] for b in inv]


def fingerprint(acc, extra_sets=()):
    """short stable identifier of the accepted language"""
    import hashlib
    groups, table, accepting = canonical_dfa(acc, extra_sets)
    blob = repr(([g.iv for g in groups], table, accepting)).encode()
    return hashlib.sha1(blob).hexdigest()[:10]


def equivalent(a, b):
    res, _ = compare(a, b)
    return all(v["only_a"] is None and v["only_b"] is None for v in res.values())


def accepts(acc: Acceptor, s: str):
    """membership by simulating the acceptor (used by self-checks of this module only)"""
    alpha = Alphabet([acc], [CharSet.of(s)] if s else [])
    confs = acc.initial()
    for ch in s:
        k = next(i for i, c in enumerate(alpha.classes) if ord(ch) in c)
        confs = acc.step(confs, alpha, k)
        if not confs:
            return False
    return acc.accepting(confs)


def selfcheck():
    """The model of the anchors is validated against CPython's re on a fixed
    table of (pattern, op, subject) triples -- patterns and subjects are the
    checker's own constants, no repository code is involved."""
    pats = [r"^a$", r"a$", r"a\Z", r"^a", r"\Aa.b$", r"a$\n", r"(\d+)?x$", r"a*$", r"$", r"^$", r"[^a]$", r"a|b$", r".\Z"]
    subs = ["", "a", "a\n", "a\n\n", "\na", "ba", "ab", "b", "\n", "a\nb", "1x", "x\n", "٣x", "aXb", "a\nb\n"]
    bad = []
    for p in pats:
        rx = Regex(p)
        for op in ("match", "search", "fullmatch"):
            acc = Acceptor(rx, op)
            f = getattr(re, op)
            for s in subs:
                if accepts(acc, s) != (f(p, s) is not None):
                    bad.append((p, op, s))
    return bad
