"""Symbolic executor used by the C08 / C10 / C11 rules (helper on top of absint.Interp).

Nothing of the repository is executed concretely: repository *source* is
interpreted by `absint.Interp` over opaque atoms (`Sym`), linear forms (`Lin`),
abstract instances (`Obj`) and Python containers of those.  This subclass adds
what the control-flow rules need:

* canonical, *semantic* condition atoms: every comparison that cannot be
  decided becomes a named atom (`eq0(2*off + cur - x)`, `le0(size)`,
  `in(idx1, DN0)`, `truthy(data)` ...) whose truth value is taken from the
  path assignment (`explore` enumerates the assignments); the same fact asked
  twice (or asked in the negated spelling) gets the same answer;
* linear arithmetic decides (in)equalities whenever the difference is constant
  or has a known sign (atoms declared positive by the rule);
* dictionaries / sets / lists indexed or searched with symbolic keys;
* symbolic `for` loops bind a *fresh* generic element `elem(<iterable>)`;
  a collection fed by `extend(X)` remembers the marker `extend(X)` and
  membership in it is the atom `in(v, X)`;
* generators (`yield`, `yield from`) are collected into lists, class-level
  method aliases (`get = __iter__`) are resolved;
* a trace of events (calls of repository functions, constructions, conditions)
  that the rules inspect.
"""
from __future__ import annotations

import ast
import itertools

from .absint import (Interp, Sym, Lin, Obj, Raised, Split, Bound, CondV, LambdaV, Comp, BufV, BytesV, _ModuleCtx,
                     _Break, _Continue, _Return, _int, _pyconst, show)
from .bits import Bits
from .consts import Ref, Unknown, is_unknown
from .model import AnalysisError, walk_no_nested


_GEN_CACHE = {}   # id(function node) -> (node, is generator)


def _is_lib(v, module, name, func):
    """the value of `module.name`, `import module as m; m.name` or `from module import name [as n]`"""
    if not isinstance(v, Sym):
        return False
    if v.op == "modattr" and len(v.args) == 2 and v.args[1] == name:
        alias = v.args[0]
        return alias == module or (func is not None and func.module.imports.get(alias, (None,))[0] == module)
    if v.op == "attr" and len(v.args) == 2 and v.args[1] == name and isinstance(v.args[0], Sym) \
            and v.args[0].op in ("name", "module") and v.args[0].args:
        alias = v.args[0].args[0]
        if func is not None and alias in func.module.imports:
            return func.module.imports[alias] == (module, None)
        return alias == module
    return v.op == "name" and func is not None and func.module.imports.get(v.args[0]) == (module, name)


def _is_itertools(v, name, func):
    return _is_lib(v, "itertools", name, func)


def _is_chain(v, func):
    """itertools.chain, however it was imported"""
    if not isinstance(v, Sym):
        return False
    if v.op == "modattr" and v.args == ("itertools", "chain"):
        return True
    if v.op == "attr" and len(v.args) == 2 and v.args[1] == "chain" and isinstance(v.args[0], Sym) \
            and v.args[0].op in ("name", "module") and v.args[0].args[:1] == ("itertools",):
        return func is None or func.module.imports.get("itertools", ("itertools", None))[0] == "itertools"
    if v.op == "name" and func is not None and func.module.imports.get(v.args[0]) == ("itertools", "chain"):
        return True
    return False


class ClosureV:
    """a function defined inside an interpreted function"""

    def __init__(self, node, env, func):
        self.node, self.env, self.func = node, env, func

    def __repr__(self):
        return "<closure %s>" % self.node.name


class SetV:
    """abstract set: insertion-ordered list of abstract items (may hold extend-markers)"""

    def __init__(self, items=()):
        self.items = list(items)

    def __repr__(self):
        return "set{%s}" % ", ".join(show(x) for x in self.items)


class CatV:
    """byte string built by concatenation: ordered list of abstract parts"""

    def __init__(self, parts=()):
        self.parts = list(parts)

    def __repr__(self):
        return "cat[%s]" % ", ".join(show(x) for x in self.parts)


def key(v) -> str:
    """canonical text of an abstract value (names condition atoms)"""
    if isinstance(v, Sym):
        if v.op == "elem":
            return "elem(%s)" % key(v.args[0])
        if not v.args:
            return str(v.op)
        return "%s(%s)" % (v.op, ",".join(key(a) for a in v.args))
    if isinstance(v, Lin):
        parts = []
        for a, c in sorted(v.terms.items(), key=lambda kv: key(kv[0])):
            parts.append(("%d*" % c if c != 1 else "") + key(a))
        if v.const or not parts:
            parts.append(str(v.const))
        return "+".join(parts)
    if isinstance(v, Obj):
        return "<%s>" % v.name
    if isinstance(v, Bits):
        return str(v.value()) if v.is_const() else "bits<%s>" % v.describe()
    if isinstance(v, (tuple, list)):
        return ("(%s)" if isinstance(v, tuple) else "[%s]") % ",".join(key(x) for x in v)
    if isinstance(v, SetV):
        return "set{%s}" % ",".join(key(x) for x in v.items)
    if isinstance(v, CatV):
        return "cat[%s]" % ",".join(key(x) for x in v.parts)
    if isinstance(v, Ref):
        return "ref:%s" % v.name
    if isinstance(v, dict):
        return "{%s}" % ",".join("%s:%s" % (key(k), key(x)) for k, x in v.items())
    return repr(v)


def _dedupe(sv):
    seen, out = set(), []
    for x in sv.items:
        k = key(x)
        if k not in seen:
            seen.add(k)
            out.append(x)
    sv.items[:] = out
    return sv


def _set_items(v):
    if isinstance(v, SetV):
        return list(v.items)
    if isinstance(v, (set, frozenset)):
        return sorted(v, key=repr)
    return None


def _set_op(op, a, b):
    """| & - ^ on abstract sets whose members are all concrete-keyed (no extend-markers unless plain union)"""
    ia, ib = _set_items(a), _set_items(b)
    if ia is None or ib is None:
        return None
    if isinstance(op, ast.BitOr):
        return _dedupe(SetV(ia + ib))
    if any(is_marker(x) or isinstance(x, (Sym, Lin)) for x in ia + ib):
        return None
    ka, kb = {key(x) for x in ia}, {key(x) for x in ib}
    if isinstance(op, ast.Sub):
        return SetV([x for x in ia if key(x) not in kb])
    if isinstance(op, ast.BitAnd):
        return SetV([x for x in ia if key(x) in kb])
    return _dedupe(SetV([x for x in ia if key(x) not in kb] + [x for x in ib if key(x) not in ka]))


def subst_sym(v, old, new):
    """replace the atom `old` by `new` inside an abstract value"""
    if isinstance(v, Sym):
        if v == old:
            return new
        if not v.args:
            return v
        return Sym(v.op, *[subst_sym(a, old, new) for a in v.args])
    if isinstance(v, Lin):
        out = Lin({}, v.const)
        for a, c in v.terms.items():
            t = Lin.of(subst_sym(a, old, new))
            if t is None:
                raise AnalysisError("substitution leaves the linear fragment")
            out = out + t.scale(c)
        return out.simplify()
    if isinstance(v, tuple):
        return tuple(subst_sym(x, old, new) for x in v)
    if isinstance(v, list):
        return [subst_sym(x, old, new) for x in v]
    return v


OPAQUE_OPS = {"expr", "name", "global", "concat", "comp", "deep-call", "param", "star", "strformat", "strop", "localdef", "dict",
              "fstring", "item", "yield-from", "seq", "modattr", "module", "unpacked", "unary", "new", "exc", "enum", "list", "tuple",
              "sorted", "reversed", "range", "int", "len?", "floatAdd", "floatSub", "floatMult", "floatDiv"}


def opaque_term(v, _depth=0):
    """the first sub-term of an abstract value that the interpreter could not give a meaning to (an unevaluated
    expression, an unresolved name, a call of something that is not a method of a model object ...), or None when
    every part of `v` is a constant, a model atom, arithmetic over those, or a method call on those.
    A verdict may only rest on values for which this returns None."""
    if _depth > 40:
        return "deep"
    if isinstance(v, Sym):
        if v.op in OPAQUE_OPS:
            return "%s(%s)" % (v.op, ", ".join(str(a)[:40] for a in v.args[:2]))
        if v.op == "call" and v.args and isinstance(v.args[0], str):
            # call of a function by (unresolved or non-inlined) name: known only if it is a repository qualname kept opaque on purpose
            pass
        for a in v.args:
            if isinstance(a, (Sym, Lin, list, tuple, Comp)):
                r = opaque_term(a, _depth + 1)
                if r:
                    return r
        return None
    if isinstance(v, Lin):
        for a in v.terms:
            r = opaque_term(a, _depth + 1)
            if r:
                return r
        return None
    if isinstance(v, Comp):
        return opaque_term(v.elt, _depth + 1) or opaque_term(v.iter, _depth + 1)
    if isinstance(v, (list, tuple)):
        for x in v:
            r = opaque_term(x, _depth + 1)
            if r:
                return r
        return None
    if isinstance(v, dict):
        for k_, x in v.items():
            r = opaque_term(k_, _depth + 1) or opaque_term(x, _depth + 1)
            if r:
                return r
        return None
    if isinstance(v, (SetV,)):
        return opaque_term(v.items, _depth + 1)
    if isinstance(v, CatV):
        return opaque_term(v.parts, _depth + 1)
    if isinstance(v, Unknown):
        return "unknown(%s)" % v.why
    if isinstance(v, (ClosureV, LambdaV, Bound)):
        return None
    return None


def generic_items(seq):
    """normalise a partly symbolic list: extend([elt for var in X]) -> the generic element elt[var := elem(X)]"""
    out = []
    for x in seq:
        if is_marker(x) and isinstance(x.args[0], Comp) and not x.args[0].conds:
            c = x.args[0]
            out.append(subst_sym(c.elt, Sym("loopvar", c.var), Sym("elem", c.iter, -1)))
        else:
            out.append(x)
    return out


def mcall(recv, name, *args):
    """the abstract value of `recv.name(*args)` for an opaque receiver"""
    return Sym("call", Sym("attr", recv, name), *args)


def is_marker(v):
    return isinstance(v, Sym) and v.op == "extend"


class SymInterp(Interp):
    """see module docstring.  hooks (all optional, return NotImplemented to decline):
       method(it, recv, name, args, kwargs, node, func)
       repo_call(it, fobj, args, kwargs, node, func)     call of a repository function by name
       new(it, cls, args, kwargs, node, func)            construction of a repository class
       global(it, name, func) / attr(it, base, attr, func)
       loop(it, for_node, iterable, elem, env, func)     entering a symbolic loop
       positive(atom) -> bool                            atom is known to be >= 1
       inline(fobj) -> bool                              interpret this repository function instead of keeping the call opaque
    `instantiate`: names of repository classes whose constructor is interpreted (Obj + __init__)."""

    def __init__(self, repo, folder=None, asg=None, hooks=None, instantiate=()):
        self.user = dict(hooks or {})
        base_hooks = {"method": self._h_method, "call": self._h_call, "subscript": self._h_subscript,
                      "attr": self._h_attr, "binop": self._h_binop}
        if "global" in self.user:
            base_hooks["global"] = self.user["global"]
        super().__init__(repo, folder, asg=asg, hooks=base_hooks)
        self.instantiate = set(instantiate)
        self.trace = []
        self.loop_ids = itertools.count()
        self.obj_ids = itertools.count()
        self.yield_stack = []

    # ---- atoms -----------------------------------------------------------
    def atom(self, *k):
        kk = ("c",) + tuple(k)
        if kk in self.asg:
            v = bool(self.asg[kk])
            self.trace.append(("cond", tuple(k), v))
            return v
        d = self._implied(k)
        if d is not None:
            return d
        raise Split([kk])

    def _implied(self, k):
        """facts about one value are not independent: None is falsy and an instance of nothing"""
        if k[0] not in ("isnone", "truthy", "isa"):
            return None
        subj = k[1]
        known = {}
        for kk, v in self.asg.items():
            if len(kk) >= 3 and kk[0] == "c" and kk[1] in ("isnone", "truthy", "isa") and kk[2] == subj:
                known.setdefault(kk[1], []).append(bool(v))
        if k[0] == "isnone":
            if any(known.get("truthy", [])) or any(known.get("isa", [])):
                return False
        elif any(known.get("isnone", [])):
            return False
        return None

    def positive(self, a):
        h = self.user.get("positive")
        return bool(h and h(a))

    def _sign(self, d: Lin):
        """+1 if d >= 1 for sure, -1 if d <= -1 for sure, 0 if d == 0 for sure, None unknown"""
        if not d.terms:
            return (d.const > 0) - (d.const < 0)
        if all(self.positive(a) for a in d.terms):
            cs = list(d.terms.values())
            if all(c > 0 for c in cs) and d.const + sum(cs) >= 1:
                return 1
            if all(c < 0 for c in cs) and d.const + sum(cs) <= -1:
                return -1
        return None

    def _canon(self, d: Lin):
        """(canonical Lin, flipped?) with the leading coefficient made positive"""
        lead = sorted(d.terms.items(), key=lambda kv: key(kv[0]))[0][1]
        if lead < 0:
            return d.scale(-1), True
        return d, False

    def eq(self, a, b):
        a, b = _int(a), _int(b)
        if a is b:
            return True
        if isinstance(a, bool) or isinstance(b, bool):
            if _pyconst(a) and _pyconst(b):
                return a == b
        if _pyconst(a) and _pyconst(b):
            return a == b
        if isinstance(a, Obj) or isinstance(b, Obj):
            return a is b
        if a is None or b is None:
            o = b if a is None else a
            if isinstance(o, (Sym, Lin)):
                return self.atom("isnone", key(o))
            return False
        if isinstance(a, (tuple, list)) and isinstance(b, (tuple, list)):
            if type(a) != type(b) or len(a) != len(b):
                return False
            return all(self.eq(x, y) for x, y in zip(a, b))
        for x, y in ((a, b), (b, a)):
            if isinstance(x, Sym) and x.op == "elem":
                return self.atom("in", key(y), key(x.args[0]))
        if isinstance(a, (Bits,)) or isinstance(b, (Bits,)):
            raise AnalysisError("bit-level comparison outside the symflow fragment: %s == %s" % (show(a), show(b)))
        la, lb = Lin.of(a), Lin.of(b)
        if la is not None and lb is not None:
            d = la + lb.scale(-1)
            s = self._sign(d)
            if s is not None:
                return s == 0
            d, _ = self._canon(d)
            return self.atom("eq0", key(d))
        if isinstance(a, (str, bytes)) and isinstance(b, (str, bytes)):
            return a == b
        ka, kb = sorted([key(a), key(b)])
        if ka == kb and not (isinstance(a, Sym) and "elem" in ka):
            return True
        return self.atom("eq", ka, kb)

    def le0(self, d: Lin):
        """d <= 0 over the integers"""
        s = self._sign(d)
        if s is not None:
            return s <= 0
        c, flipped = self._canon(d)
        if not flipped:
            return self.atom("le0", key(c))
        # d = -c ;  -c <= 0  <=>  c >= 0  <=>  not (c + 1 <= 0) ... over integers: c >= 0 <=> not (c <= -1)
        c1 = Lin(dict(c.terms), c.const + 1)
        s = self._sign(c1)
        if s is not None:
            return not (s <= 0)
        return not self.atom("le0", key(c1))

    def order(self, op, a, b):
        a, b = _int(a), _int(b)
        if _pyconst(a) and _pyconst(b):
            return {ast.Lt: a < b, ast.LtE: a <= b, ast.Gt: a > b, ast.GtE: a >= b}[type(op)]
        la, lb = Lin.of(a), Lin.of(b)
        if la is None or lb is None:
            return self.atom(type(op).__name__, key(a), key(b))
        one = Lin({}, 1)
        if isinstance(op, ast.LtE):
            return self.le0(la + lb.scale(-1))
        if isinstance(op, ast.Lt):
            return self.le0(la + lb.scale(-1) + one)
        if isinstance(op, ast.GtE):
            return self.le0(lb + la.scale(-1))
        return self.le0(lb + la.scale(-1) + one)

    def items_of(self, c):
        if isinstance(c, (list, tuple)):
            return list(c)
        if isinstance(c, dict):
            return list(c.keys())
        if isinstance(c, SetV):
            return list(c.items)
        if isinstance(c, (set, frozenset)):
            return sorted(c, key=repr)
        if isinstance(c, range):
            return list(c)
        return None

    def unpack_seq(self, v, n, node, func):
        """opaque sequences unpack to index(v, i) / slice(v, p, q): the same names a subscript gives"""
        if isinstance(v, (tuple, list)):
            elts = getattr(node, "elts", None)
            if elts is not None and any(isinstance(e, ast.Starred) for e in elts) and not any(is_marker(x) for x in v):
                p = next(i for i, e in enumerate(elts) if isinstance(e, ast.Starred))
                after = len(elts) - p - 1
                if len(v) < len(elts) - 1:
                    raise Raised("ValueError", node, "not enough values to unpack")
                vals = list(v)
                return vals[:p] + [vals[p:len(vals) - after]] + (vals[len(vals) - after:] if after else [])
            return super().unpack_seq(v, n, node, func)
        elts = getattr(node, "elts", None)
        if elts is not None and any(isinstance(e, ast.Starred) for e in elts):
            p = next(i for i, e in enumerate(elts) if isinstance(e, ast.Starred))
            after = len(elts) - p - 1
            out = [Sym("index", v, i) for i in range(p)]
            out.append(Sym("slice", v, p, -after if after else None))
            out += [Sym("index", v, -(after - j)) for j in range(after)]
            return out
        return [Sym("index", v, i) for i in range(n)]

    def comp_member(self, comp, v):
        """v in [elt for var in iter]  <=>  exists generic element of iter with elt == v"""
        if comp.conds:
            return self.atom("in", key(v), key(comp))
        gen = Sym("elem", comp.iter, -1)
        return self.eq(v, subst_sym(comp.elt, Sym("loopvar", comp.var), gen))

    def contains(self, c, v):
        if isinstance(c, Comp):
            return self.comp_member(c, v)
        items = self.items_of(c)
        if items is None:
            if isinstance(c, (str, bytes)) and isinstance(v, type(c)):
                return v in c
            return self.atom("in", key(v), key(c))
        for it in items:
            if is_marker(it):
                if isinstance(it.args[0], Comp):
                    if self.comp_member(it.args[0], v):
                        return True
                elif self.atom("in", key(v), key(it.args[0])):
                    return True
            elif self.eq(v, it):
                return True
        return False

    def compare(self, op, a, b, node, func):
        if isinstance(a, Bits) and not a.is_const() or isinstance(b, Bits) and not b.is_const():
            return super().compare(op, a, b, node, func)
        if isinstance(op, ast.In):
            return self.contains(b, a)
        if isinstance(op, ast.NotIn):
            return not self.contains(b, a)
        if isinstance(op, (ast.Eq, ast.Is)):
            return self.eq(a, b)
        if isinstance(op, (ast.NotEq, ast.IsNot)):
            return not self.eq(a, b)
        return self.order(op, a, b)

    def unknown(self, v, node, func):
        if isinstance(v, CondV):
            return super().unknown(v, node, func)
        if isinstance(v, (SetV,)):
            return bool(v.items)
        if isinstance(v, CatV):
            return bool(v.parts)
        return self.atom("truthy", key(v))

    def truth(self, v, node, func):
        if isinstance(v, SetV):
            if any(is_marker(x) for x in v.items):
                return self.atom("truthy", key(v))
            return bool(v.items)
        if isinstance(v, CatV):
            return bool(v.parts)
        if isinstance(v, (list, tuple)) and any(is_marker(x) for x in v):
            return True if any(not is_marker(x) for x in v) else self.atom("truthy", key(v))
        return super().truth(v, node, func)

    # ---- objects -----------------------------------------------------------
    def new_obj(self, cls, name=None):
        return Obj(cls, name or "%s#%d" % (cls.name if cls else "?", next(self.obj_ids)))

    def construct(self, cls, args, kwargs=None):
        o = self.new_obj(cls)
        init = cls.lookup("__init__")
        if init is not None:
            self.call_function(init, list(args), kwargs, recv=o)
        return o

    def call_function(self, func, args, kwargs=None, recv=None):
        gen = _GEN_CACHE.get(id(func.node))
        if gen is None or gen[0] is not func.node:
            gen = (func.node, any(isinstance(n, (ast.Yield, ast.YieldFrom)) for n in walk_no_nested(func.node)))
            _GEN_CACHE[id(func.node)] = gen
        gen = gen[1]
        self.trace.append(("enter", func.qualname))
        if gen:
            self.yield_stack.append([])
        try:
            r = super().call_function(func, args, kwargs, recv)
        finally:
            if gen:
                buf = self.yield_stack.pop()
        self.trace.append(("leave", func.qualname))
        return buf if gen else r

    def e_Yield(self, e, env, func):
        if not self.yield_stack:
            raise AnalysisError("%s: yield outside an interpreted generator" % func.loc(e))
        self.yield_stack[-1].append(self.eval(e.value, env, func) if e.value is not None else None)
        return None

    def e_YieldFrom(self, e, env, func):
        if not self.yield_stack:
            raise AnalysisError("%s: yield from outside an interpreted generator" % func.loc(e))
        v = self.eval(e.value, env, func)
        seq = self.concrete_iter(v)
        if seq is None:
            self.yield_stack[-1].append(Sym("extend", v))
        else:
            self.yield_stack[-1].extend(seq)
        return None

    def _display(self, e, env, func):
        """elements of a list/tuple/set display; *iterable elements are expanded (symbolic ones become markers)"""
        out = []
        for x in e.elts:
            if isinstance(x, ast.Starred):
                v = self.eval(x.value, env, func)
                seq = self.concrete_iter(v)
                if seq is None:
                    out.append(Sym("extend", v))
                else:
                    out.extend(seq)
            else:
                out.append(self.eval(x, env, func))
        return out

    def e_Set(self, e, env, func):
        return _dedupe(SetV(self._display(e, env, func)))

    def e_List(self, e, env, func):
        if any(isinstance(x, ast.Starred) for x in e.elts):
            return self._display(e, env, func)
        return super().e_List(e, env, func)

    def e_Tuple(self, e, env, func):
        if any(isinstance(x, ast.Starred) for x in e.elts) and isinstance(e.ctx, ast.Load):
            d = self._display(e, env, func)
            return d if any(is_marker(x) for x in d) else tuple(d)
        return super().e_Tuple(e, env, func)

    def _comp(self, e, env, func, kind):
        r = super()._comp(e, env, func, kind)
        if kind == "set" and isinstance(r, list):
            return _dedupe(SetV(r))
        return r

    def exec_stmt(self, s, env, func):
        if isinstance(s, ast.Return):
            self.trace.append(("return", func.qualname, s))
        if isinstance(s, ast.FunctionDef):
            env[s.name] = ClosureV(s, env, func)
            return None
        return super().exec_stmt(s, env, func)

    def e_Dict(self, e, env, func):
        if all(k is not None for k in e.keys):
            return super().e_Dict(e, env, func)
        d = {}
        for k, v in zip(e.keys, e.values):
            if k is None:
                sub = self.eval(v, env, func)
                if not isinstance(sub, dict):
                    return Sym("expr", ast.unparse(e)[:80])
                d.update(sub)
            else:
                try:
                    d[_int(self.eval(k, env, func))] = self.eval(v, env, func)
                except TypeError:
                    return Sym("expr", ast.unparse(e)[:80])
        return d

    def e_DictComp(self, e, env, func):
        if len(e.generators) != 1:
            return Sym("expr", ast.unparse(e)[:80])
        g = e.generators[0]
        it = self.eval(g.iter, env, func)
        seq = self.concrete_iter(it)
        if seq is None or any(is_marker(x) for x in seq):
            return Sym("expr", ast.unparse(e)[:80])
        out = {}
        for item in seq:
            env2 = dict(env)
            self.assign(g.target, item, env2, func)
            if all(self.truth(self.eval(c, env2, func), c, func) for c in g.ifs):
                k = _int(self.eval(e.key, env2, func))
                v = self.eval(e.value, env2, func)
                ek = self._dict_find(out, k)
                try:
                    out[k if ek is None else ek] = v
                except TypeError:
                    raise AnalysisError("%s: unhashable abstract dict key" % func.loc(e))
        return out

    def e_NamedExpr(self, e, env, func):
        v = self.eval(e.value, env, func)
        self.assign(e.target, v, env, func)
        return v

    def call_closure(self, c, args, kwargs):
        """a nested function: body interpreted in a copy of the defining environment (no rebinding of outer names)"""
        if self.depth >= 12:
            return Sym("deep-call", c.node.name)
        a = c.node.args
        if a.vararg or a.kwarg:
            raise AnalysisError("%s: nested function with *args/**kwargs outside the symflow fragment" % c.func.loc(c.node))
        env = dict(c.env)
        params = [x.arg for x in a.posonlyargs + a.args]
        defaults = list(a.defaults)
        for i, p_ in enumerate(params):
            if i < len(args):
                env[p_] = args[i]
            elif kwargs and p_ in kwargs:
                env[p_] = kwargs[p_]
            else:
                di = i - (len(params) - len(defaults))
                if 0 <= di < len(defaults):
                    env[p_] = self.eval(defaults[di], c.env, c.func)
                else:
                    raise Raised("TypeError", c.node, "missing argument %s" % p_)
        if any(isinstance(n, (ast.Yield, ast.YieldFrom, ast.Nonlocal)) for n in walk_no_nested(c.node)):
            raise AnalysisError("%s: nested generator / nonlocal outside the symflow fragment" % c.func.loc(c.node))
        self.depth += 1
        try:
            self.exec_block(c.node.body, env, c.func)
            return None
        except _Return as r:
            return r.value
        finally:
            self.depth -= 1

    # ---- loops ---------------------------------------------------------------
    def concrete_iter(self, it):
        if isinstance(it, SetV):
            return list(it.items)
        if isinstance(it, Obj) and it.cls is not None and it.cls.lookup("__iter__") is not None:
            r = self.call_function(it.cls.lookup("__iter__"), [], None, recv=it)
            if isinstance(r, (list, tuple)):
                return list(r)
            return None
        return super().concrete_iter(it)

    def exec_while(self, s, env, func):
        """bounded unrolling; the state that makes progress may live in object attributes, so no repetition test"""
        n = 0
        while True:
            if not self.truth(self.eval(s.test, env, func), s.test, func):
                self.exec_block(s.orelse, env, func)
                return
            n += 1
            if n > 256:
                raise AnalysisError("%s: while loop not bounded by abstract evaluation" % func.loc(s))
            try:
                self.exec_block(s.body, env, func)
            except _Break:
                return
            except _Continue:
                continue

    def exec_for(self, s, env, func):
        it = self.eval(s.iter, env, func)
        seq = self.concrete_iter(it)
        if seq is None:
            seq = [Sym("extend", it)]
        else:
            seq = list(seq)
        broke = False
        for item in seq:
            if is_marker(item):
                src = item.args[0]
                elem = Sym("elem", src, next(self.loop_ids))
                self.trace.append(("symloop", key(src)))
                h = self.user.get("loop")
                if h:
                    h(self, s, src, elem, env, func)
                self.assign(s.target, elem, env, func)
                try:
                    self.exec_block(s.body, env, func)
                except (_Break, _Continue):
                    pass
                continue
            self.assign(s.target, item, env, func)
            try:
                self.exec_block(s.body, env, func)
            except _Break:
                broke = True
                break
            except _Continue:
                continue
        if not broke:
            self.exec_block(s.orelse, env, func)

    # ---- stores ------------------------------------------------------------------
    def assign(self, t, v, env, func):
        if isinstance(t, ast.Subscript) and not isinstance(t.slice, ast.Slice):
            o = self.eval(t.value, env, func)
            if isinstance(o, dict):
                k = _int(self.eval(t.slice, env, func))
                for ek in list(o.keys()):
                    if self.eq(ek, k):
                        o[ek] = v
                        return
                try:
                    o[k] = v
                except TypeError:
                    raise AnalysisError("%s: unhashable abstract dict key %s" % (func.loc(t), show(k)))
                return
            if isinstance(o, list):
                k = _int(self.eval(t.slice, env, func))
                if isinstance(k, int) and not isinstance(k, bool):
                    try:
                        o[k] = v
                    except IndexError:
                        raise Raised("IndexError", t)
                    return
                raise AnalysisError("%s: list store with a symbolic index" % func.loc(t))
        return super().assign(t, v, env, func)

    # ---- hooks ---------------------------------------------------------------------
    def _h_attr(self, it, base, attr, func):
        h = self.user.get("attr")
        if h:
            r = h(self, base, attr, func)
            if r is not NotImplemented:
                return r
        if isinstance(base, Sym) and base.op == "module":
            mod = self._module(base, func)
            if mod is not None:
                r = mod.resolve_name(attr)
                if r is not None:
                    if r[0] == "class":
                        return Ref("class", r[1])
                    if r[0] == "func":
                        return Ref("func", r[1])
                    if r[0] == "const":
                        g = self.user.get("global")
                        if g:
                            rr = g(self, attr, func)
                            if rr is not NotImplemented:
                                return rr
                        v = self.folder.global_(mod, attr)
                        if not is_unknown(v):
                            return v
                        # not foldable as a literal: interpret the module-level initialiser
                        cache = self.__dict__.setdefault("_modconst", {})
                        ck = (mod.relpath, attr)
                        if ck not in cache:
                            cache[ck] = None
                            try:
                                cache[ck] = self.eval(r[2], {}, _ModuleCtx(r[1]))
                            except (Split, Raised):
                                cache[ck] = None
                        if cache[ck] is not None:
                            return cache[ck]
        return NotImplemented

    def _module(self, base, func):
        if func is None:
            return None
        r = func.module.resolve_name(base.args[0])
        if r is not None and r[0] == "module":
            return r[1]
        return None

    def _h_binop(self, it, op, a, b, node):
        a, b = _int(a), _int(b)   # constant bit values are plain ints here
        if isinstance(a, (Sym, Lin)) and isinstance(b, int) and not isinstance(b, bool) \
                and isinstance(op, (ast.BitAnd, ast.BitOr, ast.BitXor, ast.RShift, ast.Mod, ast.FloorDiv)):
            return Sym(type(op).__name__, a, b)
        if isinstance(b, (Sym, Lin)) and isinstance(a, int) and not isinstance(a, bool) \
                and isinstance(op, (ast.BitAnd, ast.BitOr, ast.BitXor)):
            return Sym(type(op).__name__, b, a)
        if isinstance(a, CatV) and isinstance(op, ast.Add):
            if isinstance(b, CatV):
                return CatV(a.parts + b.parts)
            return CatV(a.parts + [b])
        if isinstance(b, CatV) and isinstance(op, ast.Add):
            return CatV([a] + b.parts)
        if isinstance(op, (ast.BitOr, ast.BitAnd, ast.Sub, ast.BitXor)) and (isinstance(a, SetV) or isinstance(b, SetV)
                                                                              or isinstance(a, (set, frozenset)) and isinstance(b, (set, frozenset))):
            r = _set_op(op, a, b)
            if r is not None:
                return r
            raise AnalysisError("set operation on partly symbolic sets outside the symflow fragment")
        if isinstance(op, ast.Add) and (isinstance(a, list) and isinstance(b, (Sym, Comp)) or isinstance(b, list) and isinstance(a, (Sym, Comp))):
            la = a if isinstance(a, list) else [Sym("extend", a)]
            lb = b if isinstance(b, list) else [Sym("extend", b)]
            return la + lb
        if isinstance(op, ast.LShift) and isinstance(_int(b), int) and not isinstance(b, bool) and 0 <= _int(b) < 64 \
                and isinstance(a, (Sym, Lin)):
            la = Lin.of(a)
            if la is not None:
                return la.scale(1 << _int(b)).simplify()
        return NotImplemented

    def _h_subscript(self, it, base, k, node, func):
        h = self.user.get("subscript")
        if h:
            r = h(self, base, k, node, func)
            if r is not NotImplemented:
                return r
        k = _int(k)
        if isinstance(base, dict) and not (_pyconst(k) and not isinstance(k, float)):
            for ek in list(base.keys()):
                if self.eq(ek, k):
                    return base[ek]
            raise Raised("KeyError", node, key(k))
        if isinstance(base, (list, tuple)) and any(is_marker(x) for x in base):
            if isinstance(k, int):
                # position in a partly symbolic sequence is not known
                return Sym("index", Sym("seq", *base), k)
        return NotImplemented

    def _dict_find(self, d, k):
        for ek in list(d.keys()):
            if self.eq(ek, k):
                return ek
        return None

    def _h_method(self, it, recv, name, args, kwargs, node, func):
        h = self.user.get("method")
        if h:
            r = h(self, recv, name, args, kwargs, node, func)
            if r is not NotImplemented:
                return r
        if name in ("bisect_left", "bisect_right", "bisect", "insort", "insort_left", "insort_right") \
                and _is_lib(Sym("attr", recv, name), "bisect", name, func):
            return self._bisect(name, args, kwargs, node, func)
        if name == "groupby" and _is_lib(Sym("attr", recv, name), "itertools", name, func):
            return self._h_call(it, None, Sym("attr", recv, name), args, kwargs, node, func)
        if name == "from_iterable" and len(args) == 1 and _is_chain(recv, func):
            seq = self.concrete_iter(args[0])
            if seq is None:
                raise AnalysisError("%s: chain.from_iterable over a symbolic sequence of iterables" % func.loc(node))
            return self._chain(seq)
        if isinstance(recv, Sym) and recv.op == "module":
            mod = self._module(recv, func)
            if mod is not None:
                r = mod.resolve_name(name)
                if r is not None and r[0] == "func":
                    return self.repo_call(r[1], args, kwargs, node, func)
                if r is not None and r[0] == "class":
                    return self.new(r[1], args, kwargs, node, func)
            return NotImplemented
        if isinstance(recv, (bytes, bytearray)) and len(recv) == 0 and name == "join" and len(args) == 1:
            seq = self.concrete_iter(args[0])
            if seq is not None and not any(is_marker(x) for x in seq):
                parts = []
                for x in seq:
                    parts.extend(x.parts if isinstance(x, CatV) else [x])
                return CatV(parts)
        if isinstance(recv, SetV):
            if name == "add":
                if not any(self._same(x, args[0]) for x in recv.items):
                    recv.items.append(args[0])
                return None
            if name == "update":
                for a in args:
                    seq = self.concrete_iter(a)
                    if seq is None:
                        recv.items.append(Sym("extend", a))
                    else:
                        recv.items.extend(seq)
                return None
            if name == "copy":
                return SetV(recv.items)
            if name == "union":
                out = SetV(recv.items)
                self._h_method(it, out, "update", args, kwargs, node, func)
                return _dedupe(out)
            if name in ("difference", "intersection", "symmetric_difference") and len(args) == 1:
                opn = {"difference": ast.Sub(), "intersection": ast.BitAnd(), "symmetric_difference": ast.BitXor()}[name]
                other = args[0] if isinstance(args[0], (SetV, set, frozenset)) else SetV(self.concrete_iter(args[0]) or [Sym("extend", args[0])])
                r = _set_op(opn, recv, other)
                if r is not None:
                    return r
            if name in ("discard", "remove", "difference_update", "intersection_update") and len(args) == 1:
                if name in ("discard", "remove"):
                    other = SetV([args[0]])
                    opn = ast.Sub()
                else:
                    other = args[0] if isinstance(args[0], (SetV, set, frozenset)) else SetV(self.concrete_iter(args[0]) or [Sym("extend", args[0])])
                    opn = ast.Sub() if name == "difference_update" else ast.BitAnd()
                r = _set_op(opn, recv, other)
                if r is not None:
                    recv.items[:] = r.items
                    return None
            raise AnalysisError("%s: set method %s outside the symflow fragment" % (func.loc(node), name))
        if isinstance(recv, list):
            if name in ("append", "insert"):
                return NotImplemented
            if name == "extend":
                seq = self.concrete_iter(args[0])
                if seq is not None:
                    recv.extend(seq)
                else:
                    recv.append(Sym("extend", args[0]))
                return None
            if name == "pop":
                i = _int(args[0]) if args else -1
                if not isinstance(i, int) or any(is_marker(x) for x in recv):
                    raise AnalysisError("%s: list.pop on a symbolic position" % func.loc(node))
                self.trace.append(("list.pop", recv, i))
                try:
                    return recv.pop(i)
                except IndexError:
                    raise Raised("IndexError", node)
            if name == "copy":
                return list(recv)
            if name == "sort" and not args and len(recv) <= 5 and not any(is_marker(x) for x in recv) and set(kwargs or {}) <= {"key", "reverse"}:
                recv[:] = self._sorted(list(recv), (kwargs or {}).get("key"), (kwargs or {}).get("reverse", False), node, func)
                return None
            if name == "reverse":
                recv.reverse()
                self.trace.append(("list.reverse", recv))
                return None
            if name == "clear":
                del recv[:]
                return None
            if name == "remove":
                for i, x in enumerate(recv):
                    if not is_marker(x) and self.eq(x, args[0]):
                        del recv[i]
                        return None
                raise Raised("ValueError", node)
            raise AnalysisError("%s: list method %s outside the symflow fragment" % (func.loc(node), name))
        if isinstance(recv, dict):
            if name == "keys":
                return list(recv.keys())
            if name == "values":
                return list(recv.values())
            if name == "items":
                return [(k, v) for k, v in recv.items()]
            if name in ("get", "setdefault", "pop"):
                k = _int(args[0])
                ek = self._dict_find(recv, k)
                if ek is not None:
                    return recv.pop(ek) if name == "pop" else recv[ek]
                dflt = args[1] if len(args) > 1 else None
                if name == "setdefault":
                    recv[k] = dflt
                if name == "pop" and len(args) < 2:
                    raise Raised("KeyError", node, key(k))
                return dflt
            raise AnalysisError("%s: dict method %s outside the symflow fragment" % (func.loc(node), name))
        if isinstance(recv, CatV):
            if name == "extend":
                a = args[0]
                recv.parts.extend(a.parts if isinstance(a, CatV) else [a])
                return None
            if name == "append":
                recv.parts.append(Sym("byte", args[0]))
                return None
            raise AnalysisError("%s: bytearray method %s outside the symflow fragment" % (func.loc(node), name))
        if isinstance(recv, Obj) and recv.cls is not None and recv.cls.lookup(name) is None and name not in recv.attrs:
            # class-level alias  get = __iter__
            a = recv.cls.lookup_attr(name)
            if isinstance(a, ast.Name):
                f = recv.cls.lookup(a.id)
                if f is not None:
                    return self.call_function(f, args, kwargs, recv=recv)
        return NotImplemented

    def _bisect(self, fname, args, kwargs, node, func):
        """bisect_left/right over a concrete-length list of abstract numbers (the list is assumed sorted, as bisect does):
        the insertion point is found by comparisons, undecided ones become order atoms"""
        if kwargs or len(args) != 2 or not isinstance(args[0], list) or any(is_marker(x) for x in args[0]):
            raise AnalysisError("%s: %s outside the symflow fragment (lo/hi/key or a symbolic list)" % (func.loc(node), fname))
        a, x = args
        left = fname in ("bisect_left", "insort_left")
        i = 0
        while i < len(a):
            stop = self.order(ast.LtE(), x, a[i]) if left else self.order(ast.Lt(), x, a[i])
            if stop:
                break
            i += 1
        if fname.startswith("insort"):
            a.insert(i, x)
            return None
        return i

    def _sorted(self, seq, keyf, reverse, node, func):
        """stable insertion sort; undecided key comparisons become order atoms (every resulting order is explored)"""
        if not isinstance(reverse, bool):
            raise AnalysisError("%s: sorted(reverse=<non-constant>)" % func.loc(node))
        keys = [x if keyf is None else self.call_value(keyf, None, [x], {}, node, {}, func) for x in seq]
        pk = [k[0] if isinstance(k, tuple) and k else k for k in keys]
        if all(_pyconst(_int(k)) and not isinstance(k, bool) for k in pk) and len({type(_int(k)) for k in pk}) <= 1 and len(set(map(_int, pk))) == len(pk):
            # distinct constant (leading) keys decide the order outright
            order = sorted(range(len(seq)), key=lambda i: _int(pk[i]), reverse=reverse)
            return [seq[i] for i in order]
        if len(seq) > 5:
            raise AnalysisError("%s: sorted() of %d symbolic keys" % (func.loc(node), len(seq)))
        out = []
        for x, kx in zip(seq, keys):
            pos = len(out)
            while pos > 0:
                ky = out[pos - 1][1]
                less = self.order(ast.Lt(), ky, kx) if reverse else self.order(ast.Lt(), kx, ky)
                if not less:
                    break
                pos -= 1
            out.insert(pos, (x, kx))
        return [x for x, _ in out]

    def _chain(self, iterables):
        out = []
        for x in iterables:
            seq = self.concrete_iter(x)
            if seq is None:
                out.append(Sym("extend", x))
            else:
                out.extend(seq)
        return out

    def _same(self, a, b):
        try:
            return key(a) == key(b)
        except Exception:
            return False

    def repo_call(self, fobj, args, kwargs, node, func):
        h = self.user.get("repo_call")
        if h:
            r = h(self, fobj, args, kwargs, node, func)
            if r is not NotImplemented:
                return r
        h = self.user.get("inline")
        if h and h(fobj):
            return self.call_function(fobj, list(args), kwargs)
        self.trace.append(("call", fobj.qualname, tuple(args)))
        return Sym("call", fobj.qualname, *args)

    def new(self, cls, args, kwargs, node, func):
        h = self.user.get("new")
        if h:
            r = h(self, cls, args, kwargs, node, func)
            if r is not NotImplemented:
                return r
        if cls.name in self.instantiate:
            o = self.construct(cls, args, kwargs)
            self.trace.append(("new", cls.name, o, tuple(args)))
            return o
        self.trace.append(("new", cls.name, None, tuple(args)))
        return Sym("new", cls.name, *args)

    def _h_call(self, it, name, callee, args, kwargs, node, func):
        h = self.user.get("call")
        if h:
            r = h(self, name, callee, args, kwargs, node, func)
            if r is not NotImplemented:
                return r
        if isinstance(callee, ClosureV):
            return self.call_closure(callee, args, kwargs)
        if _is_chain(callee, func):
            return self._chain(args)
        for bname in ("bisect_left", "bisect_right", "bisect", "insort", "insort_left", "insort_right"):
            if _is_lib(callee, "bisect", bname, func):
                return self._bisect(bname, args, kwargs, node, func)
        if _is_itertools(callee, "groupby", func) and args:
            seq = self.concrete_iter(args[0])
            keyf = (kwargs or {}).get("key", args[1] if len(args) > 1 else None)
            if seq is None or any(is_marker(x) for x in seq):
                raise AnalysisError("%s: itertools.groupby over a symbolic sequence" % func.loc(node))
            groups = []
            for x in seq:
                kx = x if keyf is None else self.call_value(keyf, None, [x], {}, node, {}, func)
                if groups and self.eq(groups[-1][0], kx):
                    groups[-1][1].append(x)
                else:
                    groups.append((kx, [x]))
            return groups
        if isinstance(callee, Ref) and callee.kind == "func":
            return self.repo_call(callee.obj, args, kwargs, node, func)
        if isinstance(callee, Ref) and callee.kind == "class":
            cls = callee.obj
            if self.folder.is_enum(cls) or cls.is_subclass_of("Exception") or cls.name.endswith("Error"):
                return NotImplemented
            return self.new(cls, args, kwargs, node, func)
        if name == "sum" and isinstance(callee, Sym) and callee.op == "name" and args:
            seq = self.concrete_iter(args[0])
            if seq is not None and not any(is_marker(x) for x in seq):
                tot = Lin.of(_int(args[1])) if len(args) > 1 else Lin({}, 0)
                for x in seq:
                    lx = Lin.of(_int(x))
                    if tot is None or lx is None:
                        tot = None
                        break
                    tot = tot + lx
                if tot is not None:
                    return tot.simplify()
        if name == "setattr" and isinstance(callee, Sym) and callee.op == "name" and len(args) == 3 \
                and isinstance(args[0], Obj) and isinstance(args[1], str):
            args[0].attrs[self.mangle(args[1], func)] = args[2]
            return None
        if name == "len" and isinstance(callee, Sym) and callee.op == "name" and len(args) == 1 and isinstance(args[0], CatV):
            tot = Lin({}, 0)
            for part in args[0].parts:
                tot = tot + Lin.of(Sym("len", part))
            return tot.simplify()
        if name == "bool" and isinstance(callee, Sym) and callee.op == "name" and len(args) == 1:
            return self.truth(args[0], node, func)
        if name == "next" and isinstance(callee, Sym) and callee.op == "name" and args:
            seq = self.concrete_iter(args[0])
            if seq is not None and not any(is_marker(x) for x in seq):
                if seq:
                    return seq[0]
                if len(args) > 1:
                    return args[1]
                raise Raised("StopIteration", node)
        if isinstance(callee, (Sym,)) and callee.op == "name":
            if name in ("set", "frozenset"):
                if not args:
                    return SetV()
                seq = self.concrete_iter(args[0])
                return SetV(seq) if seq is not None else SetV([Sym("extend", args[0])])
            if name == "dict" and not args:
                return dict(kwargs or {})
            if name == "dict" and len(args) == 1 and not kwargs:
                if isinstance(args[0], dict):
                    return dict(args[0])
                seq = self.concrete_iter(args[0])
                if seq is not None and all(isinstance(x, (tuple, list)) and len(x) == 2 for x in seq):
                    try:
                        return {_int(k_): v_ for k_, v_ in seq}
                    except TypeError:
                        pass
            if name in ("bytearray", "bytes") and not args:
                return CatV()
            if name == "list":
                if not args:
                    return []
                seq = self.concrete_iter(args[0])
                return list(seq) if seq is not None else [Sym("extend", args[0])]
            if name == "tuple" and args:
                seq = self.concrete_iter(args[0])
                if seq is not None and not any(is_marker(x) for x in seq):
                    return tuple(seq)
            if name == "len" and args and isinstance(args[0], Obj) and args[0].cls is not None and args[0].cls.lookup("__len__") is not None:
                return self.call_function(args[0].cls.lookup("__len__"), [], None, recv=args[0])
            if name == "len" and args and isinstance(args[0], SetV) and not any(is_marker(x) for x in args[0].items):
                return len(args[0].items)
            if name == "len" and args and isinstance(args[0], list) and any(is_marker(x) for x in args[0]):
                return Sym("len", *args)
            if name == "enumerate" and args:
                seq = self.concrete_iter(args[0])
                if seq is not None and not any(is_marker(x) for x in seq):
                    start = _int(args[1]) if len(args) > 1 else 0
                    if isinstance(start, int):
                        return [(start + i, x) for i, x in enumerate(seq)]
            if name in ("any", "all") and len(args) == 1:
                seq = self.concrete_iter(args[0])
                if seq is not None and not any(is_marker(x) for x in seq):
                    vals = [self.truth(x, node, func) for x in seq]
                    return any(vals) if name == "any" else all(vals)
            if name == "sorted" and args:
                seq = self.concrete_iter(args[0])
                if seq is not None and not any(is_marker(x) for x in seq) and set(kwargs or {}) <= {"key", "reverse"}:
                    return self._sorted(list(seq), (kwargs or {}).get("key"), (kwargs or {}).get("reverse", False), node, func)
                return Sym(name, *args)
            if name == "reversed" and args:
                seq = self.concrete_iter(args[0])
                if seq is not None and not any(is_marker(x) for x in seq):
                    return list(reversed(seq))
                return Sym(name, *args)
        return NotImplemented


def run_paths(make, max_paths=4000):
    """explore(run) with our Split type: make(asg) -> result."""
    from .absint import explore
    return explore(make, max_paths=max_paths)
