"""Positive / negative examples for the C22 rule (never imported, only parsed).

Every function name says what the rule must conclude:
  sens_*   order-sensitive consumption of a set of identity-/str-hashed elements  -> finding
  ok_*     order-insensitive consumption                                          -> silent
  exempt_* order-sensitive consumption of a set of ints                           -> exempt
  addr_*   use of id()/hash()                                                      -> finding (address-dependent)
  clock_*  use of time / random                                                   -> finding (nondeterministic-source)
"""
import time
import random


class N:
    def __init__(self, num):
        self.num = num
        self.tag = None
        self.items = []

    def touch(self, v):
        self.tag = v


class Sink:
    def __init__(self):
        self.out = []
        self.last = None
        self.seen = set()

    def emit(self, x):
        self.out.append(x)

    def mark(self, x):
        self.seen.add(x)


def make():
    return {N(1), N(2), N(3)}


def sens_append(sink: Sink):
    s = make()
    for n in s:
        sink.emit(n)


def sens_list():
    s = make()
    return list(s)


def sens_last_writer(sink: Sink):
    s = make()
    for n in s:
        sink.last = n


def sens_pop():
    s = make()
    first = s.pop()
    return first


def sens_str_join():
    names = {"a", "b", "c"}
    return ", ".join(names)


def sens_comprehension():
    s = make()
    return [n.num for n in s]


def sens_early_exit():
    s = make()
    for n in s:
        if n.num > 1:
            return n
    return None


def ok_sorted(sink: Sink):
    s = make()
    for n in sorted(s, key=lambda x: x.num):
        sink.emit(n)


def ok_membership(x):
    s = make()
    return x in s and len(s) > 2


def ok_own_state():
    s = make()
    for n in s:
        n.touch(1)
        n.items.append(n.num)


def ok_keyed(sink: Sink):
    s = make()
    d = {}
    for n in s:
        d[n] = n.num
        sink.mark(n)
    return len(d)


def ok_min_fold():
    s = make()
    best = 99
    for n in s:
        best = min(best, n.num)
    return best


def ok_any():
    s = make()
    return any(n.num == 2 for n in s)


def exempt_int_list():
    regs = set()
    for i in range(4):
        regs.add(i * 2)
    return list(regs)


def addr_sort(nodes):
    return sorted(nodes, key=id)


def addr_hash(n):
    return hash(n) % 7


def clock_stamp():
    return "// decompiled at %d" % time.time()


def clock_shuffle(items):
    random.shuffle(items)
    return items
