"""C23 -- Java string literals denote exactly the original string.

Rule: writer.string() is a per-character map (its loop only appends).  The
code-point domain [0, 0x10FFFF] is partitioned by every constant the function
compares a character with (plus the JLS-relevant points), so that each
comparison is uniformly true or false on a class; the loop body is abstractly
interpreted once per class with the code point symbolic (bit provenance for
the BMP, 0x10000 + y for supplementary characters).  The appended pieces are
then read with Java's lexical rules (JLS 3.3 unicode escapes are translated
before lexing; 3.10.6 escape sequences): a raw character is allowed unless it
is '"', '\\', LF or CR; backslash + raw char only for '"', ''' and '\\';
Python's unicode-escape only for TAB, LF, CR; '\\u' must be followed by exactly
four single hex digits that are the nibbles of the UTF-16 code unit, never for
LF, CR, '"' or '\\'; supplementary characters need a surrogate pair (or the raw
character).  Writer.visit_constant must route str constants through string().
"""
from __future__ import annotations

import ast

from ..absint import Interp, Sym, Lin, StrV, Raised, explore, show
from ..bits import Bits
from ..consts import Folder
from ..fmtpieces import pieces, FormatError
from ..model import AnalysisError, walk_no_nested

WRITER = "androguard/decompiler/writer.py"
FORBIDDEN_RAW = {0x22, 0x5C, 0x0A, 0x0D}
FORBIDDEN_UESC = {0x22, 0x5C, 0x0A, 0x0D}
SELF_ESCAPABLE = {0x22, 0x27, 0x5C}   # \" \' \\ denote the character itself
PY_ESCAPE_OK = {0x09, 0x0A, 0x0D}     # python unicode-escape gives \t \n \r, which Java reads the same way


def breakpoints(fnode, module=None):
    pts = {0, 0x110000, 0x22, 0x23, 0x27, 0x28, 0x5C, 0x5D, 0x08, 0x09, 0x0A, 0x0B, 0x0C, 0x0D, 0x0E, 0x20, 0x7F, 0x80,
           0xD800, 0xDC00, 0xE000, 0x10000}
    roots = [fnode]
    if module is not None:
        # constants of module-level tables / helper functions the function refers to by name
        seen = set()
        for n in ast.walk(fnode):
            if isinstance(n, ast.Name) and n.id not in seen:
                seen.add(n.id)
                if n.id in module.assigns:
                    roots.append(module.assigns[n.id])
                elif n.id in module.functions and module.functions[n.id].node is not fnode:
                    roots.append(module.functions[n.id].node)
    for n in (x for r in roots for x in ast.walk(r)):
        if isinstance(n, ast.Constant):
            if isinstance(n.value, str) and len(n.value) == 1:
                pts.update((ord(n.value), ord(n.value) + 1))
            elif isinstance(n.value, int) and not isinstance(n.value, bool) and 0 <= n.value <= 0x110000:
                pts.update((n.value, n.value + 1))
    pts = sorted(p for p in pts if 0 <= p <= 0x110000)
    return [(a, b - 1) for a, b in zip(pts, pts[1:])]


def code_for_class(lo, hi):
    """symbolic code point for the class; constant high bits fixed where lo and hi agree"""
    if lo >= 0x10000:
        y = Bits.source([("s", "y", i) for i in range(20)], False)
        return Lin({y: 1}, 0x10000), y
    if lo == hi:
        return Bits.const(lo), None
    bl = []
    diff = False
    for i in range(15, -1, -1):
        a, b = (lo >> i) & 1, (hi >> i) & 1
        if not diff and a == b:
            bl.append(a)
        else:
            diff = True
            bl.append(("s", "c", i))
    bl.reverse()
    return Bits.source(bl, False), None


def run(ctx):
    ctx.explanation = __doc__
    repo = ctx.repo
    m = ctx.mod(WRITER)
    folder = Folder(repo)
    f = m.func("string")
    ctx.analysed(f)
    classes = breakpoints(f.node, m)
    ctx.count("classes", len(classes))
    for lo, hi in classes:
        _check_class(ctx, repo, folder, f, lo, hi)
    ctx.floor("classes", 20)
    _check_visit_constant(ctx, m)
    ctx.assume("string() maps each character independently (its loop only appends to the result list)")
    ctx.assume("Python's 'unicode-escape' codec maps TAB/LF/CR to \\t/\\n/\\r")


def _check_class(ctx, repo, folder, f, lo, hi):
    code, y = code_for_class(lo, hi)
    inst = "code points U+%04X..U+%04X" % (lo, hi)

    def as_code(v):
        if isinstance(v, StrV) and len(v.chars) == 1:
            v = v.chars[0]
        if isinstance(v, str) and len(v) == 1:
            return ("const", ord(v))
        if isinstance(v, int) and not isinstance(v, bool):
            return ("const", v)
        if isinstance(v, Bits) and v.is_const():
            return ("const", v.value())
        if v == code or (isinstance(v, Bits) and isinstance(code, Bits) and v == code):
            return ("code", None)
        return None

    def compare(it, op, a, b, node, func):
        ca, cb = as_code(a), as_code(b)
        if ca is None or cb is None:
            return NotImplemented
        if ca[0] == cb[0] == "const":
            import operator as o
            fn = {ast.Lt: o.lt, ast.LtE: o.le, ast.Gt: o.gt, ast.GtE: o.ge, ast.Eq: o.eq, ast.NotEq: o.ne}.get(type(op))
            return fn(ca[1], cb[1]) if fn else NotImplemented
        if ca[0] == "code" and cb[0] == "code":
            return isinstance(op, (ast.Eq, ast.LtE, ast.GtE))
        flip = {ast.Lt: ast.Gt, ast.LtE: ast.GtE, ast.Gt: ast.Lt, ast.GtE: ast.LtE, ast.Eq: ast.Eq, ast.NotEq: ast.NotEq}
        if ca[0] == "const":
            op = flip[type(op)]()
            k = ca[1]
        else:
            k = cb[1]
        t = type(op)
        if t is ast.Lt:
            lo_t, hi_t = lo < k, hi < k
        elif t is ast.LtE:
            lo_t, hi_t = lo <= k, hi <= k
        elif t is ast.Gt:
            lo_t, hi_t = lo > k, hi > k
        elif t is ast.GtE:
            lo_t, hi_t = lo >= k, hi >= k
        elif t is ast.Eq:
            if lo == hi:
                return lo == k
            if k < lo or k > hi:
                return False
            raise AnalysisError("partition too coarse for %s on %s" % (ast.unparse(node), inst))
        elif t is ast.NotEq:
            if lo == hi:
                return lo != k
            if k < lo or k > hi:
                return True
            raise AnalysisError("partition too coarse for %s on %s" % (ast.unparse(node), inst))
        else:
            return NotImplemented
        if lo_t != hi_t:
            raise AnalysisError("partition too coarse for %s on %s" % (ast.unparse(node), inst))
        return lo_t

    def subscript(it, base, k, e, func):
        # TABLE[c] with the tracked character as key: select the entry whose key the class equals
        ck = as_code(k)
        if isinstance(base, dict) and ck is not None and (ck == ("code", None) or (lo == hi and ck == ("const", lo))):
            if lo == hi:
                for kk, vv in base.items():
                    if isinstance(kk, str) and len(kk) == 1 and ord(kk) == lo:
                        return vv
                from ..absint import Raised as _R
                raise _R("KeyError", e, "U+%04X" % lo)
            for kk in base:
                if isinstance(kk, str) and len(kk) == 1 and lo <= ord(kk) <= hi:
                    raise AnalysisError("partition too coarse for %s on %s" % (ast.unparse(e), inst))
            from ..absint import Raised as _R
            raise _R("KeyError", e, inst)
        return NotImplemented

    def run(asg):
        it = Interp(repo, folder, asg=dict(asg), hooks={"compare": compare, "subscript": subscript, "inline_funcs": set(q for q in f.module.functions if "." not in q and q != f.qualname)})
        it.max_split = 0
        out = it.call_function(f, [StrV([code])])
        return out

    res = explore(run)
    ctx.require(len(res) == 1, "writer.string: a condition on %s is not decided by the class partition" % inst)
    r = res[0][1]
    if isinstance(r, Raised):
        ctx.check("literal", inst, False, f, "U+%04X..U+%04X raises" % (lo, hi), "string() raises %s for %s" % (r, inst), node=r.node)
        return
    items = []
    _flatten_str(r, items)
    toks = _tokens(items, code)
    for t in toks:
        if t[0] == "other" and isinstance(t[1], (Sym, Lin)):
            raise AnalysisError("writer.string: for %s a piece of the literal is a term outside the interpreter's fragment: %s" % (inst, show(t[1])[:160]))
    verdict, why = _lex(toks, code, y, lo, hi)
    shown = " ".join(_tokshow(t) for t in toks)
    ctx.check("literal", inst, verdict, f, "%s -> %s" % (_clsname(lo, hi), shown[:140]),
              "for %s string() writes %s: %s" % (inst, shown[:300], why),
              witness={"class": [lo, hi]}, detail="%s -> %s (%s)" % (inst, shown[:120], why))


def _flatten_str(v, out):
    """flatten string building terms (join of a list, +, % / format with %s of a nested string) into a piece list"""
    if isinstance(v, (str, StrV)):
        out.append(v)
    elif isinstance(v, (list, tuple)):
        for x in v:
            _flatten_str(x, out)
    elif isinstance(v, Sym) and v.op == "call" and v.args and isinstance(v.args[0], Sym) and v.args[0].op == "attr" \
            and v.args[0].args[1] == "join" and v.args[0].args[0] == "" and len(v.args) == 2:
        _flatten_str(v.args[1], out)
    elif isinstance(v, Sym) and v.op == "strop" and v.args[0] == "Add":
        _flatten_str(v.args[1], out)
        _flatten_str(v.args[2], out)
    elif isinstance(v, Sym) and v.op == "concat":
        for x in v.args:
            _flatten_str(x, out)
    elif isinstance(v, Sym) and v.op == "strformat":
        # expand %s / {} of nested string terms, keep numeric conversions for the piece normaliser
        tmpl, args = v.args
        args = args if isinstance(args, tuple) else (args,)
        nested = [a for a in args if isinstance(a, (StrV, list)) or (isinstance(a, Sym) and a.op in ("call", "strop", "strformat", "concat"))]
        if not nested:
            out.append(v)
            return
        import re as _re
        parts = _re.split(r"(%s|\{\})", tmpl)
        ai = 0
        for part in parts:
            if part in ("%s", "{}"):
                if ai >= len(args):
                    raise AnalysisError("writer.string: formatting term with too few arguments: %s" % show(v)[:120])
                _flatten_str(args[ai], out)
                ai += 1
            elif part:
                if "%" in part.replace("%%", "") or "{" in part.replace("{{", ""):
                    raise AnalysisError("writer.string: mixed formatting term outside the fragment: %s" % show(v)[:120])
                out.append(part.replace("%%", "%").replace("{{", "{").replace("}}", "}"))
    else:
        out.append(v)


def _clsname(lo, hi):
    if hi <= 0x1F:
        return "C0 control"
    if lo >= 0x10000:
        return "supplementary"
    if lo >= 0x80:
        return "non-ASCII BMP U+%04X.." % lo
    return "U+%04X..U+%04X" % (lo, hi)


def _tokens(items, code):
    """flatten appended items into tokens: ('lit', ch) per literal character | ('raw',) | ('pyescape',) |
    ('hex', nibbles) | ('other', value)"""
    toks = []
    for it in items:
        if isinstance(it, str):
            toks.extend(("lit", ch) for ch in it)
        elif isinstance(it, StrV):
            for c in it.chars:
                if isinstance(c, int):
                    toks.append(("lit", chr(c)))
                elif c == code:
                    toks.append(("raw",))
                elif isinstance(c, Bits) and c.is_const():
                    toks.append(("lit", chr(c.value())))
                else:
                    toks.append(("other", c))
        elif _is_pyescape(it, code):
            toks.append(("pyescape",))
        elif isinstance(it, Sym) and it.op == "strformat":
            try:
                for p in pieces(it):
                    if p[0] == "lit":
                        toks.extend(("lit", ch) for ch in p[1])
                    elif p[0] == "hex":
                        toks.append(("hex", p[1]))
                    elif p[0] in ("hexvar", "hexopaque"):
                        toks.append(("hexvar", p[1], p[-1]))
                    else:
                        toks.append(("other", p))
            except FormatError as e:
                toks.append(("other", str(e)))
        else:
            toks.append(("other", it))
    return toks


def _is_pyescape(v, code):
    # c.encode('unicode-escape').decode('ascii')  or  str(c.encode('unicode-escape'), 'ascii')
    try:
        if v.op == "str" and len(v.args) == 2 and v.args[1] in ("ascii", "latin-1", "utf-8"):
            enc_call = v.args[0]
            enc = enc_call.args[0]
            if enc.op == "attr" and enc.args[1] == "encode" and enc_call.args[1] in ("unicode-escape", "unicode_escape"):
                s_ = enc.args[0]
                return isinstance(s_, StrV) and len(s_.chars) == 1 and (s_.chars[0] == code or (isinstance(s_.chars[0], Bits) and isinstance(code, Bits) and s_.chars[0] == code))
    except (AttributeError, IndexError):
        pass
    try:
        if v.op != "call":
            return False
        dec = v.args[0]
        if not (dec.op == "attr" and dec.args[1] == "decode"):
            return False
        enc_call = dec.args[0]
        enc = enc_call.args[0]
        if not (enc.op == "attr" and enc.args[1] == "encode" and enc_call.args[1] in ("unicode-escape", "unicode_escape")):
            return False
        s = enc.args[0]
        return isinstance(s, StrV) and len(s.chars) == 1 and s.chars[0] == code
    except (AttributeError, IndexError):
        return False


def _tokshow(t):
    if t[0] == "lit":
        return repr(t[1])
    if t[0] == "hex":
        return "hex%d(%s)" % (len(t[1]), ",".join(n.describe() for n in t[1]))
    if t[0] == "hexvar":
        return "hex?(%s)" % show(t[2])[:60]
    if t[0] == "other":
        return "?(%s)" % show(t[1])[:60]
    return t[0]


def _lex(toks, code, y, lo, hi):
    """read the tokens with Java's lexical rules; must denote exactly the one character"""
    if not (len(toks) >= 2 and toks[0] == ("lit", '"') and toks[-1] == ("lit", '"')):
        return False, "literal is not enclosed in double quotes"
    body = toks[1:-1]
    cls = set(range(lo, hi + 1)) if hi - lo < 64 else None

    def within(s):
        return cls is not None and cls <= s

    def disjoint(s):
        return all(not (lo <= x <= hi) for x in s)

    if body == [("raw",)]:
        if disjoint(FORBIDDEN_RAW):
            return True, "raw character (legal inside a Java string literal)"
        return False, "a raw %s inside a string literal does not denote the character (JLS 3.10.5)" % sorted(x for x in FORBIDDEN_RAW if lo <= x <= hi)
    if body == [("lit", "\\"), ("raw",)]:
        if within(SELF_ESCAPABLE):
            return True, "backslash escape of the character itself"
        return False, "backslash followed by the raw character is only valid for \" ' and \\"
    NAMED = {"b": 0x08, "t": 0x09, "n": 0x0A, "f": 0x0C, "r": 0x0D, "s": 0x20, '"': 0x22, "'": 0x27, "\\": 0x5C}
    if len(body) >= 2 and body[0] == ("lit", "\\") and all(t[0] == "lit" for t in body[1:]):
        rest = "".join(t[1] for t in body[1:])
        if rest in NAMED:
            if lo == hi == NAMED[rest]:
                return True, "escape sequence \\%s" % rest
            return False, "\\%s denotes U+%04X, not this character" % (rest, NAMED[rest])
        if rest and all(ch in "01234567" for ch in rest) and len(rest) <= 3:
            val = int(rest, 8)
            if len(rest) < 3 and not (len(rest) == 2 and rest[0] in "4567"):
                return False, ("the octal escape \\%s is shorter than three digits: Java reads following octal digits of the string "
                               "as part of it (JLS 3.10.6), so it does not denote the character in every context" % rest)
            if val > 0xFF or not (lo == hi == val):
                return False, "octal escape \\%s denotes U+%04X, not this character" % (rest, val)
            return True, "three-digit octal escape"
    if body == [("pyescape",)]:
        if within(PY_ESCAPE_OK):
            return True, "\\t / \\n / \\r"
        return False, "python unicode-escape is only a Java escape for TAB, LF and CR"
    # \uXXXX sequences
    units = []
    i = 0
    while i < len(body):
        if body[i] == ("lit", "\\") and i + 1 < len(body) and body[i + 1] == ("lit", "u"):
            j = i + 2
            while j < len(body) and body[j] == ("lit", "u"):
                j += 1
            digs = []
            while j < len(body) and len(digs) < 4:
                t = body[j]
                if t[0] == "hex":
                    digs.extend(t[1])
                elif t[0] == "lit" and t[1] in "0123456789abcdefABCDEF":
                    digs.append(Bits.const(int(t[1], 16)))
                else:
                    break
                j += 1
            if len(digs) != 4:
                return False, "a \\u escape must be followed by exactly four hex digits; here a digit position holds %s" % (_tokshow(body[j]) if j < len(body) else "nothing")
            units.append(digs)
            i = j
        else:
            return False, "unrecognised piece %s" % _tokshow(body[i])
    if not units:
        return False, "empty literal body"

    def nibbles(b):
        return [Bits.source(list(b.b[4 * k: 4 * k + 4]), False) for k in (3, 2, 1, 0)]

    if hi <= 0xFFFF:
        if len(units) != 1:
            return False, "%d unicode escapes for one BMP character" % len(units)
        if not isinstance(code, Bits):
            return False, "internal: BMP class without bit value"
        if units[0] != nibbles(code):
            return False, "the four digits are not the nibbles of the code unit"
        if not disjoint(FORBIDDEN_UESC):
            return False, "unicode escapes are translated before lexing (JLS 3.3): \\u000a, \\u000d, \\u0022, \\u005c do not denote the character inside a literal"
        return True, "\\uXXXX with the four nibbles of the code unit"
    # supplementary: surrogate pair of y = code - 0x10000
    if len(units) != 2:
        return False, "a supplementary character needs a surrogate pair (two \\u escapes of four digits)"
    high = Bits.const(0xD800) | y.shr(10)
    low = Bits.const(0xDC00) | (y & Bits.const(0x3FF))
    if units[0] == nibbles(high) and units[1] == nibbles(low):
        return True, "surrogate pair"
    return False, "the two escapes are not the UTF-16 surrogate pair of the code point"


def _check_visit_constant(ctx, m):
    """Writer.visit_constant is executed abstractly with a str constant: what reaches self.write must be string(cst)."""
    repo = ctx.repo
    folder = Folder(repo)
    w = m.cls("Writer")
    f = w.lookup("visit_constant")
    ctx.require(f is not None, "Writer.visit_constant vanished")
    ctx.analysed(f)
    sfunc = m.func("string")
    cst = StrV([Bits.source([("s", "k", i) for i in range(16)], False)])
    written = []

    def func_hook(it, target, args, kwargs, e, func):
        if target is sfunc or target.qualname == "string":
            return Sym("string()", *args)
        if target.cls is not None and target.name in ("write", "write_ext", "write_ind", "end_ins") and target.cls.name == w.name:
            written.append((target.name, list(args)))
            return None
        return NotImplemented

    def method(it, recv, name, args, kwargs, e, func):
        from ..absint import Obj
        if isinstance(recv, Obj) and name in ("write", "write_ext", "write_ind", "end_ins"):
            written.append((name, list(args)))
            return None
        return NotImplemented

    def run(asg):
        from ..absint import Obj
        del written[:]
        it = Interp(repo, folder, asg=dict(asg), hooks={"func": func_hook, "method": method, "inline_funcs": {"*module*"}, "no_inline": {"string"}})
        o = Obj(w, "writer")
        it.call_function(f, [cst], recv=o)
        return [x for x in written]

    res = explore(run)
    ok = bool(res)
    why = ""
    for asg, r in res:
        if isinstance(r, Raised):
            raise AnalysisError("Writer.visit_constant: abstract run raises %s" % r)
        texts = [a[0] for name, a in r if name == "write" and a]
        if not texts:
            raise AnalysisError("Writer.visit_constant: no write() observed in the abstract run")
        t = texts[0]
        if t == Sym("string()", cst):
            continue
        if isinstance(t, Sym) and t.op == "string()":
            ok, why = False, "string() is applied to %s, not to the constant" % show(t.args[0])[:80]
        elif isinstance(t, (StrV, str)) or (isinstance(t, Sym) and t.op in ("strformat", "strop", "repr") and "string()" not in show(t)):
            ok, why = False, "the text written for a str constant is %s; it does not go through string()" % show(t)[:120]
        else:
            raise AnalysisError("Writer.visit_constant: written text %s is outside the interpreter's fragment" % show(t)[:120])
    ctx.check("routing", "Writer.visit_constant routes str through string()", ok, f, "visit_constant",
              "string constants are not written through string() in Writer.visit_constant: %s" % why)

MUTATION_TARGETS = [(WRITER, "string"), (WRITER, "Writer.visit_constant")]
