"""Order-type domain: all weak orderings of k symbolic points.

A weak ordering assigns each name a rank (ties allowed).  Predicates over
`<, <=, ==, !=, >=, >` of the names are evaluated exactly per ordering, which
decides any comparison-only predicate for *all* integer values at once.
"""
from __future__ import annotations

import ast
import itertools


def weak_orderings(names):
    """yield dict name->rank for every weak ordering (Fubini number many)."""
    names = list(names)
    n = len(names)
    seen = set()
    for ranks in itertools.product(range(n), repeat=n):
        # canonical: ranks used must be exactly 0..m-1
        used = sorted(set(ranks))
        if used != list(range(len(used))):
            continue
        if ranks in seen:
            continue
        seen.add(ranks)
        yield dict(zip(names, ranks))


def describe(o):
    groups = {}
    for k, v in o.items():
        groups.setdefault(v, []).append(k)
    return " < ".join("=".join(sorted(groups[r])) for r in sorted(groups))


def concretize(o, scale=10, base=0):
    """integer witness for an ordering"""
    return {k: base + v * scale for k, v in o.items()}


class NotOrderPredicate(Exception):
    pass


def eval_pred(e, o, env=None):
    """evaluate a comparison/boolean ast expression under ordering o.
    env maps source expressions (ast.unparse text) to point names."""
    env = env or {}

    def point(x):
        t = ast.unparse(x)
        if t in env:
            return o[env[t]]
        if isinstance(x, ast.Name) and x.id in o:
            return o[x.id]
        raise NotOrderPredicate(t)

    if isinstance(e, ast.BoolOp):
        vals = [eval_pred(v, o, env) for v in e.values]
        return all(vals) if isinstance(e.op, ast.And) else any(vals)
    if isinstance(e, ast.UnaryOp) and isinstance(e.op, ast.Not):
        return not eval_pred(e.operand, o, env)
    if isinstance(e, ast.Compare):
        left = point(e.left)
        for op, c in zip(e.ops, e.comparators):
            right = point(c)
            ok = {ast.Lt: left < right, ast.LtE: left <= right, ast.Gt: left > right, ast.GtE: left >= right,
                  ast.Eq: left == right, ast.NotEq: left != right}.get(type(op))
            if ok is None:
                raise NotOrderPredicate(ast.unparse(e))
            if not ok:
                return False
            left = right
        return True
    if isinstance(e, ast.Constant) and isinstance(e.value, bool):
        return e.value
    raise NotOrderPredicate(ast.unparse(e))
