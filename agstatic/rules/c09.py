"""C09 -- corrupted or non-DEX input is rejected at the header, before any structure is parsed.

Rule (interpretation of the source on abstract points + CFG ordering; the repository is never imported):
(1) HeaderItem.__init__ is *interpreted* (agstatic/minipy.py: own semantics; helper methods, static methods, module
    constants, zip/setattr loops, locals, early returns, try/except are simply executed) on a model of the stream
    (tell/seek/read, struct unpacking of regions).  The bytes at header offsets 0 (8s), 8, 36, 40 (little-endian u32) and
    the buffer length are *partition values*; every other header field is unconstrained (`Free`): a comparison on it is a
    choice point and both outcomes are explored.
(2) For every point of a finite partition of the wrong values -- all lengths 0..0x6f; every wrong byte at the magic
    positions 0,1,2,3,7 (both dex/dey); every ordered pair (adler32, stored checksum) and every header_size / endian tag
    over the integer partition induced by the constants the code compares them with (the partition is refined until it is
    closed under the comparisons actually executed) -- *every* explored path must end in ValueError/NotImplementedError.
    A path that runs to the normal end is a positively established acceptance of a wrong header (violation); a
    struct.error escaping is reported as such; anything the interpreter cannot model is exit 2.
(3) The Adler-32 operand is the stream region [offset+12, EOF) (known exactly from the modelled reads).
(4) DalvikPacker(tag) on its own: 0x12345678 constructs and yields struct.Struct('<'+fmt); every other cell raises.
(5) Ordering (CFG): in DEX._load the HeaderItem(...) statement lies on every path to the exit and dominates every other
    construction of a buffer-reading class and every use of the buffer; DEX.__init__ reaches _load on every path with
    nothing reading the buffer before; neither call sits in a `try` that swallows ValueError/NotImplementedError.
"""
from __future__ import annotations

import ast
import re
import struct

from ..cfg import CFG, raises_only
from ..model import DEX, AnalysisError, norm, parent, walk_no_nested
from ..minipy import Interp, Role, Free, Obj, ClassV, FuncV, BufferV, Region, StructV, PyRaise, explore
from ..pathkit import (Ev, truths, NotEvaluable, Opaque, Defs, reach, branch_edges, swallowed_by,
                       non_catching_handlers, int_consts, order_points, exec_path, stmt_of,
                       run_mutants, rename_locals, flip_ifs, neq_to_not_eq)

UTIL = "androguard/util.py"

# ---- specification (Dalvik executable format, header_item) -------------------------------
HEADER_LEN = 0x70
OFF_MAGIC, OFF_CHECKSUM, OFF_HEADER_SIZE, OFF_ENDIAN = 0, 8, 36, 40
CHECKSUM_FROM = 12
ENDIAN_CONSTANT = 0x12345678
GOOD_MAGICS = [b"dex\n035\x00", b"dey\n036\x00"]
MAGIC_CONSTRAINED = {0: {0x64}, 1: {0x65}, 2: {0x78, 0x79}, 3: {0x0A}, 7: {0x00}}
REJECT_EXC = ("ValueError", "NotImplementedError")


def _mentions(expr, keys):
    return [n for n in ast.walk(expr) if isinstance(n, ast.expr) and ast.unparse(n) in keys]


class Core:
    """the header clauses are decided by *interpreting* HeaderItem.__init__ / DalvikPacker.__init__ (agstatic.minipy)
    on every point of a finite partition of the wrong header values; helper methods, static methods, module constants,
    zip/setattr loops, locals, early returns are simply executed.  Unconstrained header fields are `Free` values whose
    comparisons are explored both ways."""

    VALID = dict(nbytes=4096, magic=GOOD_MAGICS[0], checksum=0x1234ABCD, adler=0x1234ABCD, header_size=HEADER_LEN, endian=ENDIAN_CONSTANT)

    def __init__(self, ctx):
        self.ctx = ctx
        self.m = ctx.mod(DEX)
        self.util = ctx.mod(UTIL)
        self.rec = {r: set() for r in ("nbytes", "checksum", "adler", "header_size", "endian")}
        self.holders = {}
        self.n_runs = 0

    # ------------------------------------------------------------------ one interpreted construction
    def buffer_param(self):
        hdr = self.hdr = self.m.func("HeaderItem.__init__")
        self.ctx.analysed(hdr)
        for p in hdr.node.args.args[1:]:
            ann = ast.unparse(p.annotation) if p.annotation is not None else ""
            if p.arg in ("buff", "buf", "buffer") or "BinaryIO" in ann or ann.startswith("IO"):
                self.buff = p.arg
                return
        raise AnalysisError("HeaderItem.__init__ has no recognisable buffer parameter")

    def construct(self, pt, decisions, prior=None):
        """-> (interp, outcome) ; outcome = ('ok',) | ('raise', name, node) | ('skip',).
        With `prior`, a header with the values `prior` is constructed first in the same interpreter (same class-level
        and module-level state); the path is skipped unless that first construction succeeds."""
        P0 = self.P0
        cache = {}
        cur = {"pt": prior if prior is not None else pt}
        adler_regions = []

        def field(it, abs_off, size, code, order):
            pt = cur["pt"]
            magic = bytes(pt["magic"])
            rel = abs_off - P0
            key = (rel, size, code, order)
            if key in cache:
                return cache[key]
            v = None
            if 0 <= rel and rel + size <= 8:
                # any layout of the eight magic bytes: the slot gets exactly the bytes of the abstract point
                raw = magic[rel:rel + size]
                if code in "sp":
                    v = magic if (rel == 0 and size == 8) else raw
                else:
                    try:
                        v = struct.unpack(order + code, raw)[0]
                    except struct.error as e:
                        raise NotEvaluable("magic bytes read as %r: %s" % (code, e))
                if isinstance(v, bytes):
                    it.watch_obj(v, "magic")
            elif rel in (OFF_CHECKSUM, OFF_HEADER_SIZE, OFF_ENDIAN) and size == 4:
                if order != "<" or code not in "IL":
                    raise NotEvaluable("header word at offset %d is read as %r%s, not as a little-endian unsigned 32-bit value" % (rel, order, code))
                role = {OFF_CHECKSUM: "checksum", OFF_HEADER_SIZE: "header_size", OFF_ENDIAN: "endian"}[rel]
                v = Role(pt[role], role, self.rec[role])
            elif rel < HEADER_LEN and any(rel < o + 4 and o < rel + size for o in (OFF_CHECKSUM, OFF_HEADER_SIZE, OFF_ENDIAN)) or \
                    (rel < 8 and rel + size > 0 and not (rel == 0 and size == 8)):
                raise NotEvaluable("header bytes [%d,%d) are read with an unexpected layout" % (rel, rel + size))
            else:
                v = Free("header field @%d" % rel)
            cache[key] = v
            return v

        def adler(it, args, node):
            if len(args) < 1 or not isinstance(args[0], Region):
                raise NotEvaluable("adler32 over something that is not read from the buffer")
            adler_regions.append((args[0].start - P0, args[0].size, node, it.qual()))
            return Role(cur["pt"]["adler"], "adler", self.rec["adler"])

        it = Interp(self.ctx.repo, field, {"zlib.adler32": adler}, decisions)
        it.adler_regions = adler_regions

        def one(p_):
            cur["pt"] = p_
            cache.clear()
            buf = BufferV(Role(p_["nbytes"], "nbytes", self.rec["nbytes"]), pos=P0)
            args = [Obj(self.hdr.cls)]
            for p in self.hdr.params()[1:]:
                args.append(buf if p == self.buff else (Obj(None, p) if p != "size" else 0))
            self.n_runs += 1
            try:
                it.call_function(FuncV(self.hdr), args, {})
                return ("ok",)
            except PyRaise as e:
                return ("raise", e.name, e.node)
        if prior is not None:
            first = one(prior)
            if first[0] != "ok":
                return it, ("skip",)
            it.trace.append(("choice", "a valid file was parsed before in the same process", "HeaderItem.__init__", True))
            del adler_regions[:]
        out = one(pt)
        for r, hs in it.holders.items():
            self.holders.setdefault(r, set()).update(hs)
        return it, out

    def paths(self, pt):
        try:
            return explore(lambda dec: dec, lambda dec: self.construct(pt, dec), max_runs=64)
        except NotEvaluable as e:
            raise AnalysisError("HeaderItem.__init__ left the interpretable fragment: %s" % e)

    def outcomes(self, pt, prior=None):
        """all (interp, outcome) over the choice paths of one abstract point"""
        res = []
        stack = [[]]
        while stack:
            prefix = stack.pop()
            try:
                it, out = self.construct(pt, prefix, prior)
            except NotEvaluable as e:
                raise AnalysisError("HeaderItem.__init__ left the interpretable fragment: %s" % e)
            res.append((it, out))
            if len(res) > 400:
                raise AnalysisError("more than 400 paths over unconstrained header fields")
            for i in range(len(prefix), len(it.choices)):
                stack.append(it.choices[:i] + [not it.choices[i]])
        return res

    @staticmethod
    def _path_desc(it):
        cs = [t for t in it.trace if t[0] == "choice"]
        return "" if not cs else " when " + ", ".join("%s is %s" % (w, v) for _, w, _, v in cs[:3])

    def locate(self, it, role):
        """the evaluated construct that last looked at the role value -> (Func-like, construct, node)"""
        cand = [(n, q) for r, n, q, _ in it.role_cmps if r == role or (role == "checksum" and r == "adler")]
        node = q = None
        if cand:
            node, q = cand[-1]
        else:
            hs = self.holders.get(role, set())
            pats = [re.compile(r"(?<![\w.])%s(?![\w])" % re.escape(h)) for h in hs]
            for kind, n, qq, v in it.trace:
                if kind == "if" and any(p.search(ast.unparse(n.test)) for p in pats):
                    node, q = n, qq
        if node is None:
            return self.hdr, "no test on %s" % role, self.hdr.node
        st = node
        while st is not None and not isinstance(st, ast.stmt):
            st = parent(st)
        st = st or node
        f = self.m.functions.get(q) or self.hdr
        cons = "if %s" % norm(st.test) if isinstance(st, ast.If) else norm(st)[:140]
        return f, cons, st

    def family(self, role, label, what_wrong, points):
        """every path of every point must end in ValueError/NotImplementedError"""
        ctx = self.ctx
        ctx.count("guards")
        n_paths = 0
        step = max(1, len(points) // 12)
        # the same wrong value again, after a valid file was parsed by the same process (class-/module-level state):
        # a sample of the points plus every point that keeps all stored header fields of that valid file (only the content differs)
        hist = {id(p): (d, p) for d, p in points[::step]}
        hist.update({id(p): (d, p) for d, p in points if all(p[k] == self.VALID[k] for k in p if k != "adler")})
        runs = [(desc, pt, None) for desc, pt in points] + [(desc + " after a valid file was parsed in the same process", pt, self.VALID) for desc, pt in hist.values()]
        for desc, pt, prior in runs:
            for it, out in self.outcomes(pt, prior):
                n_paths += 1
                if out[0] == "skip" or (out[0] == "raise" and out[1] in REJECT_EXC):
                    continue
                pd = self._path_desc(it)
                if out[0] == "ok":
                    f, cons, node = self.locate(it, role)
                    ctx.check("guard/" + role, label, False, f, cons,
                              "a header with %s is accepted: for %s%s HeaderItem.__init__ runs to its normal end (interpreted path, no raise)" % (what_wrong, desc, pd),
                              node=node, witness=dict(point=desc, path=pd))
                    return False
                if out[1] == "error":
                    f, cons, node = self.locate(it, role)
                    ctx.check("guard/" + role, label, False, f, cons,
                              "for %s%s HeaderItem.__init__ does not reject with ValueError: struct.error escapes from `%s`" % (desc, pd, norm(out[2])[:60] if out[2] is not None else "?"),
                              node=out[2] if out[2] is not None else node, witness=dict(point=desc))
                    return False
                raise AnalysisError("interpreting HeaderItem.__init__ for %s ended in %s at `%s`: not a modelled outcome" % (desc, out[1], norm(out[2])[:60] if out[2] is not None else "?"))
        ctx.check("guard/" + role, label, True, self.hdr, role, "",
                  detail="%d abstract points / %d interpreted paths, all end in ValueError/NotImplementedError (%s)" % (len(points), n_paths, what_wrong))
        return True

    def closed(self, role, build, run_once):
        """run a family until the constants the code compares the role with are all in the partition"""
        for _ in range(5):
            before = {k: set(v) for k, v in self.rec.items()}
            ok = run_once(build())
            if not ok or all(self.rec[k] <= before[k] for k in self.rec):
                return ok
        raise AnalysisError("the partition for %s does not close" % role)

    def pts_int(self, role, good, extra=()):
        consts = {c for c in self.rec[role] if isinstance(c, int)} | {good} | set(extra)
        return [p for p in order_points(consts, extra=(0xFFFFFFFF,)) if p <= 0xFFFFFFFF and p != good]

    def check_header(self):
        ctx = self.ctx
        V = self.VALID
        # ---- the valid header must be constructible (otherwise the model does not fit the code)
        outs = self.outcomes(V)
        oks = [o for o in outs if o[1][0] == "ok"]
        strange = [o for o in outs if o[1][0] == "raise" and o[1][1] not in REJECT_EXC]
        if strange:
            raise AnalysisError("interpreting HeaderItem.__init__ on a valid header ended in %s at `%s`" % (strange[0][1][1], norm(strange[0][1][2])[:60] if strange[0][1][2] is not None else "?"))
        self.valid_rejected = None
        if not oks:
            o = outs[0][1]
            # either an inverted guard (then a wrong-value family below is accepted and reported) or a model that does not fit
            self.valid_rejected = "a valid header is rejected by the interpreted HeaderItem.__init__ (%s at `%s`)" % (o[1], norm(o[2])[:60] if o[2] is not None else "?")
        else:
            ctx.ob("model", "valid header is accepted", True, "valid header (dex 035, header_size 0x70, endian 0x12345678, adler == checksum): %d paths, %d accepted" % (len(outs), len(oks)))
        # ---- checksum operand (positively known region)
        seen = set()
        for it, out in outs:
            for start, size, node, q in it.adler_regions:
                if id(node) in seen:
                    continue
                seen.add(id(node))
                ctx.count("checksum_operands")
                f = self.m.functions.get(q) or self.hdr
                ctx.check("checksum/operand", "adler32 operand is bytes [12, EOF) of the header's file", start == CHECKSUM_FROM and size is None, f, node,
                          "the Adler-32 is computed over bytes [%s, %s) relative to the header, not over [12, EOF)" % (start, "EOF" if size is None else start + size),
                          node=node, detail="adler32 over stream bytes [offset+%s, %s)" % (start, "EOF" if size is None else start + size))
        if not seen and not self.valid_rejected:
            ctx.check("checksum/operand", "adler32 is computed", False, self.hdr, "no adler32 call", "no Adler-32 is computed on the path of a valid header", node=self.hdr.node)
        # ---- families
        self.closed("nbytes", lambda: [("a %d byte buffer" % n, dict(V, nbytes=n)) for n in range(0, HEADER_LEN)],
                    lambda pts: self.family("size", "buffer shorter than 0x70 bytes is rejected", "fewer than 0x70 bytes", pts))
        mpts = []
        for bi, base in enumerate(GOOD_MAGICS):
            for pos, allowed in MAGIC_CONSTRAINED.items():
                for v in range(256):
                    if v not in allowed:
                        mpts.append(("magic %r" % (base[:pos] + bytes([v]) + base[pos + 1:]), dict(V, magic=base[:pos] + bytes([v]) + base[pos + 1:])))
        self.family("magic", "wrong magic byte at positions 0,1,2,3,7 is rejected", "a magic whose bytes 0-3 are not 'dex\\n'/'dey\\n' or whose byte 7 is not NUL", mpts)
        ctx.assume("the version digits magic[4:7] are deliberately tolerated by the code (warning, version 35 assumed); "
                   "the magic clause is decided for the bytes the format fixes: 'dex'/'dey', '\\n', NUL; every single wrong byte is "
                   "enumerated with the other bytes valid")

        def cs_points():
            consts = ({c for c in self.rec["checksum"] | self.rec["adler"]} - {0xFFFFFFFF})
            pts = [p for p in order_points(consts, extra=(0xFFFFFFFF, V["checksum"])) if p <= 0xFFFFFFFF]
            return [("adler32=0x%x, stored checksum=0x%x" % (a, c), dict(V, adler=a, checksum=c)) for a in pts for c in pts if a != c]
        self.closed("checksum", cs_points, lambda pts: self.family("checksum", "adler32 != stored checksum is rejected", "a stored checksum different from the computed Adler-32", pts))
        self.closed("header_size", lambda: [("header_size=0x%x" % v, dict(V, header_size=v)) for v in self.pts_int("header_size", HEADER_LEN)],
                    lambda pts: self.family("header_size", "header_size != 0x70 is rejected", "a header_size other than 0x70", pts))
        self.closed("endian", lambda: [("endian_tag=0x%08x" % v, dict(V, endian=v)) for v in self.pts_int("endian", ENDIAN_CONSTANT, (0x78563412,))],
                    lambda pts: self.family("endian", "endian_tag != 0x12345678 is rejected by HeaderItem.__init__", "an endian tag other than 0x12345678", pts))
        ctx.count("interpreted_runs", self.n_runs)
        if self.valid_rejected and not ctx.findings:
            raise AnalysisError(self.valid_rejected + ": the model does not fit the code")

    # ------------------------------------------------------------------ DalvikPacker on its own
    def check_packer(self):
        ctx = self.ctx
        pcls = self.m.cls("DalvikPacker")
        pk = self.m.func("DalvikPacker.__init__")
        ctx.analysed(pk)
        rec = set()

        def build(v):
            res = []
            stack = [[]]
            while stack:
                prefix = stack.pop()
                it = Interp(ctx.repo, None, {}, prefix)
                try:
                    o = it.call(ClassV(pcls), [Role(v, "endian", rec)], {})
                    out = ("ok", o, it)
                except PyRaise as e:
                    out = ("raise", e.name, e.node)
                except NotEvaluable as e:
                    raise AnalysisError("DalvikPacker.__init__ left the interpretable fragment: %s" % e)
                res.append(out)
                for i in range(len(prefix), len(it.choices)):
                    stack.append(it.choices[:i] + [not it.choices[i]])
                if len(res) > 16:
                    raise AnalysisError("DalvikPacker.__init__ depends on unconstrained values")
            return res
        good = build(ENDIAN_CONSTANT)
        ctx.count("guards")
        good_rejected = None
        if not all(o[0] == "ok" for o in good):
            # an inverted/shifted test (then another tag is accepted below and reported) or a model that does not fit
            good_rejected = "DalvikPacker(0x12345678) does not construct in the interpreter (%s)" % (good[0][1],)
        else:
            # the prefix handed to struct
            try:
                st = good[0][2].call(good[0][2].get_attr(good[0][1], "__getitem__"), ["I"], {})
            except (NotEvaluable, PyRaise) as e:
                raise AnalysisError("DalvikPacker.__getitem__ left the interpretable fragment: %s" % e)
            le = isinstance(st, StructV) and st.fmt == "<I"
            ctx.ob("endian/prefix", "DalvikPacker(0x12345678)['I'] is struct.Struct('<I')", le, "interpreted: %s" % (getattr(st, "fmt", st),))
            ctx.require(le, "DalvikPacker[fmt] is not struct.Struct('<' + fmt) for the little-endian tag")
        bad = []
        outcomes = {}
        for _ in range(5):
            before = set(rec)
            consts = rec | {ENDIAN_CONSTANT, 0x78563412}
            for v in order_points(consts, extra=(0xFFFFFFFF,)):
                if v > 0xFFFFFFFF or v == ENDIAN_CONSTANT or v in outcomes:
                    continue
                outs = build(v)
                outcomes[v] = outs
            if rec <= before:
                break
        for v, outs in sorted(outcomes.items()):
            for o in outs:
                if o[0] == "ok":
                    bad.append((v, "accepted"))
                elif o[1] not in REJECT_EXC:
                    raise AnalysisError("DalvikPacker(0x%x) ended in %s: not a modelled outcome" % (v, o[1]))
        ctx.count("guards")
        wit = ["0x%08x -> %s" % b for b in bad[:4]]
        ctx.check("endian/reject", "every endian_tag != 0x12345678 raises (%d cells of the constant partition)" % len(outcomes), not bad, pk,
                  "endian_tag != 0x12345678", "DalvikPacker accepts endian tag(s) other than 0x12345678: %s" % ", ".join(wit), node=pk.node, witness=wit,
                  detail="cells: %s" % ", ".join("0x%x:%s" % (v, "/".join(sorted({o[1] if o[0] == "raise" else "ok" for o in outs}))) for v, outs in sorted(outcomes.items())))
        if good_rejected and not bad:
            raise AnalysisError(good_rejected + ": the model does not fit the code")

    # ------------------------------------------------------------------ ordering
    def parser_classes(self):
        out = {}
        for c in self.m.classes.values():
            f = c.methods.get("__init__")
            if f is None:
                continue
            a = f.node.args
            for p in a.args:
                ann = ast.unparse(p.annotation) if p.annotation is not None else ""
                if p.arg in ("buff", "buf") or "BinaryIO" in ann or ann.startswith("IO"):
                    out[c.name] = c
        return out

    def _ctor(self, call, pcs):
        if isinstance(call.func, ast.Name):
            r = self.m.resolve_name(call.func.id)
            if r and r[0] == "class" and r[1].name in pcs:
                return r[1].name
        return None

    def _touches(self, func, buf_keys, pcs, depth, seen):
        """does DEX.<method> (transitively through self.m() calls) construct a parser class or use the buffer?"""
        for c in (x for x in walk_no_nested(func.node) if isinstance(x, ast.Call)):
            if self._ctor(c, pcs):
                return "%s constructs %s" % (func.qualname, self._ctor(c, pcs))
            txt = [ast.unparse(a) for a in c.args] + [ast.unparse(k.value) for k in c.keywords]
            if any(t in buf_keys for t in txt) or (isinstance(c.func, ast.Attribute) and ast.unparse(c.func.value) in buf_keys):
                return "%s uses the buffer in %s" % (func.qualname, norm(c)[:60])
            if isinstance(c.func, ast.Attribute) and isinstance(c.func.value, ast.Name) and c.func.value.id == "self":
                g = func.cls.lookup(c.func.attr) if func.cls else None
                if g is not None and g.qualname not in seen:
                    if depth <= 0:
                        raise AnalysisError("call chain from %s too deep to classify" % func.qualname)
                    seen.add(g.qualname)
                    r = self._touches(g, buf_keys, pcs, depth - 1, seen)
                    if r:
                        return r
        return None

    def check_order(self):
        ctx = self.ctx
        load = self.m.func("DEX._load")
        init = self.m.func("DEX.__init__")
        ctx.analysed(load)
        ctx.analysed(init)
        pcs = self.parser_classes()
        ctx.count("parser_classes", len(pcs))
        ctx.require("HeaderItem" in pcs and "MapList" in pcs, "HeaderItem/MapList are no longer recognised as buffer-reading classes")
        cfg = CFG(load.node)
        hcalls = [c for c in walk_no_nested(load.node) if isinstance(c, ast.Call) and self._ctor(c, pcs) == "HeaderItem"]
        ctx.count("header_calls", len(hcalls))
        if not hcalls:
            ctx.check("order/header-first", "DEX._load constructs HeaderItem", False, load, "no HeaderItem(...) in DEX._load",
                      "DEX._load does not construct HeaderItem: nothing validates the header", node=load.node)
            self.offset_zero = False
            return
        H = stmt_of(hcalls[0], load.node)
        hcall = hcalls[0]
        hp = self.hdr.params()[1:] if hasattr(self, "hdr") else self.m.func("HeaderItem.__init__").params()[1:]
        bidx = hp.index(self.buff) if hasattr(self, "buff") and self.buff in hp else 1
        ctx.require(len(hcall.args) > bidx, "HeaderItem(...) call does not pass the buffer positionally")
        bufexpr = ast.unparse(hcall.args[bidx])
        buf_keys = {bufexpr}
        on_all = not reach(cfg, cfg.entry, cfg.exit, avoid_nodes=[H])
        ctx.check("order/header-first", "HeaderItem(...) lies on every path through DEX._load", on_all, load, H,
                  "DEX._load can reach its exit without constructing HeaderItem: the header checks are skipped on some path", node=H,
                  detail="every path entry->exit of DEX._load passes `%s`" % norm(H)[:70])
        sw = swallowed_by(H, load.node, REJECT_EXC)
        ctx.check("order/not-swallowed", "HeaderItem(...) is not under a swallowing try in DEX._load", not sw, load, H,
                  "the HeaderItem(...) call sits in a try whose handler catches the rejection and continues", node=H)
        n_other = 0
        for c in (x for x in walk_no_nested(load.node) if isinstance(x, ast.Call)):
            if c is hcall:
                continue
            st = stmt_of(c, load.node)
            what = None
            if self._ctor(c, pcs):
                what = "constructs %s" % self._ctor(c, pcs)
            elif any(ast.unparse(a) in buf_keys for a in c.args) or (isinstance(c.func, ast.Attribute) and ast.unparse(c.func.value) in buf_keys):
                what = "uses the buffer"
            elif isinstance(c.func, ast.Attribute) and isinstance(c.func.value, ast.Name) and c.func.value.id == "self":
                g = load.cls.lookup(c.func.attr)
                if g is not None:
                    what = self._touches(g, buf_keys, pcs, 3, {g.qualname})
            if what is None:
                continue
            n_other += 1
            ctx.count("ordered_constructions")
            dom = st is not H and cfg.dominates(H, st) and not reach(cfg, st, H)
            ctx.check("order/header-first", "%s is dominated by HeaderItem(...)" % norm(c)[:60], dom, load, c,
                      "DEX._load %s (`%s`) on a path where HeaderItem(...) has not run yet: structures are parsed before the header is validated"
                      % (what, norm(c)[:80]), node=c, detail="%s only after `%s`" % (what, norm(H)[:50]))
        # ---- DEX.__init__
        icfg = CFG(init.node)
        lcalls = [c for c in walk_no_nested(init.node) if isinstance(c, ast.Call) and isinstance(c.func, ast.Attribute)
                  and isinstance(c.func.value, ast.Name) and c.func.value.id == "self" and c.func.attr == load.node.name]
        ctx.count("load_calls", len(lcalls))
        if not lcalls:
            ctx.check("order/load-called", "DEX.__init__ calls _load", False, init, "no self._load(...)", "DEX.__init__ never calls _load", node=init.node)
            self.offset_zero = False
            return
        L = stmt_of(lcalls[0], init.node)
        on_all = not reach(icfg, icfg.entry, icfg.exit, avoid_nodes=[L])
        sw = swallowed_by(L, init.node, REJECT_EXC)
        ctx.check("order/load-called", "self._load(...) lies on every path through DEX.__init__ and is not swallowed", on_all and not sw, init, L,
                  "DEX.__init__ %s" % ("can finish without calling _load" if not on_all else "catches the header rejection raised below _load and continues"),
                  node=L, detail="every path entry->exit passes `%s`; no enclosing try catches ValueError/NotImplementedError" % norm(L))
        for c in (x for x in walk_no_nested(init.node) if isinstance(x, ast.Call)):
            st = stmt_of(c, init.node)
            if st is L or (icfg.dominates(L, st) and not reach(icfg, st, L)):
                continue
            what = None
            if self._ctor(c, pcs):
                what = "constructs %s" % self._ctor(c, pcs)
            elif isinstance(c.func, ast.Attribute) and ast.unparse(c.func.value) in buf_keys:
                what = "uses the buffer"
            elif isinstance(c.func, ast.Attribute) and isinstance(c.func.value, ast.Name) and c.func.value.id == "self":
                g = init.cls.lookup(c.func.attr)
                if g is not None:
                    what = self._touches(g, buf_keys, pcs, 3, {g.qualname})
            if what:
                ctx.check("order/header-first", "nothing parses before _load in DEX.__init__", False, init, c,
                          "DEX.__init__ %s (`%s`) before _load validates the header" % (what, norm(c)[:80]), node=c)
        ctx.ob("order/header-first", "no buffer-reading construction in DEX.__init__ before _load", True,
               "calls before `%s` neither construct a buffer-reading class nor touch %s" % (norm(L), bufexpr))
        # ---- is the buffer fresh (position 0) when HeaderItem runs?
        idefs = Defs(init.node)
        ds = idefs.of(bufexpr)
        fresh = False
        if len(ds) == 1 and ds[0][0] == "assign" and isinstance(ds[0][1], ast.Call):
            v = ds[0][1]
            if ast.unparse(v.func) in ("io.BufferedReader", "BufferedReader") and v.args and isinstance(v.args[0], ast.Call) \
                    and ast.unparse(v.args[0].func) in ("io.BytesIO", "BytesIO"):
                fresh = True
            if ast.unparse(v.func) in ("io.BytesIO", "BytesIO"):
                fresh = True
        self.offset_zero = fresh
        if fresh:
            ctx.assume("the header is parsed from a freshly created reader (%s = %s, nothing reads it before HeaderItem), "
                       "so HeaderItem.offset is 0 and absolute header offsets equal offset-relative ones" % (bufexpr, norm(ds[0][1])))

    # ------------------------------------------------------------------
    def run(self):
        self.buffer_param()
        self.check_packer()
        self.check_order()
        self.P0 = 0 if self.offset_zero else 4096
        self.check_header()


def core(ctx):
    Core(ctx).run()


def run(ctx):
    ctx.explanation = __doc__
    core(ctx)
    ctx.floor("guards", 7)            # size, magic, checksum, header_size, endian accept, endian reject, endian call
    ctx.floor("checksum_operands", 1)
    ctx.floor("parser_classes", 20)
    ctx.floor("ordered_constructions", 1)
    ctx.floor("header_calls", 1)
    ctx.floor("load_calls", 1)
    ctx.note("ODEX._preload (a different entry point, it parses the ODEX wrapper before the embedded DEX header) is outside the property")
    if ctx.tier == "thorough":
        thorough(ctx)


# ---------------------------------------------------------------------------- thorough tier
def _raise_to_pass(pred):
    def tr(fn):
        done = 0
        for n in list(walk_no_nested(fn)):
            if isinstance(n, ast.If) and pred(n):
                for i, s in enumerate(n.body):
                    if isinstance(s, ast.Raise):
                        n.body[i] = ast.Expr(value=ast.Call(func=ast.Attribute(value=ast.Name(id="logger", ctx=ast.Load()), attr="warning", ctx=ast.Load()),
                                                            args=[ast.Constant(value="ignored")], keywords=[]))
                        done += 1
        if not done:
            raise LookupError
    return tr


def _negate(pred):
    def tr(fn):
        done = 0
        for n in list(walk_no_nested(fn)):
            if isinstance(n, ast.If) and pred(n):
                n.test = ast.UnaryOp(op=ast.Not(), operand=n.test)
                done += 1
        if not done:
            raise LookupError
    return tr


def _delete(pred):
    def tr(fn):
        done = 0
        for n in list(walk_no_nested(fn)):
            for f in ("body", "orelse"):
                b = getattr(n, f, None)
                if isinstance(b, list):
                    for i, s in enumerate(list(b)):
                        if isinstance(s, ast.If) and pred(s):
                            b[b.index(s)] = ast.Pass()
                            done += 1
        if not done:
            raise LookupError
    return tr


def _wrap_try(pred):
    def tr(fn):
        done = 0
        for n in list(walk_no_nested(fn)):
            b = getattr(n, "body", None)
            if isinstance(b, list):
                for i, s in enumerate(list(b)):
                    if isinstance(s, ast.stmt) and not isinstance(s, ast.Try) and pred(s):
                        b[i] = ast.Try(body=[s], handlers=[ast.ExceptHandler(type=ast.Name(id="Exception", ctx=ast.Load()), name=None, body=[ast.Pass()])],
                                       orelse=[], finalbody=[])
                        done += 1
        if not done:
            raise LookupError
    return tr


def _replace_const(old, new, where=lambda n: True):
    def tr(fn):
        done = 0
        roots = [x for x in walk_no_nested(fn) if where(x)]
        for n in (y for r in roots for y in ast.walk(r)):
            if isinstance(n, ast.Constant) and n.value == old and not isinstance(n.value, bool):
                n.value = new
                done += 1
        if not done:
            raise LookupError
    return tr


def _move_first_to_end(pred):
    def tr(fn):
        for i, s in enumerate(fn.body):
            if pred(s):
                fn.body.append(fn.body.pop(i))
                return
        raise LookupError
    return tr


def thorough(ctx):
    m = ctx.mod(DEX)
    hdr = m.func("HeaderItem.__init__")
    pk = m.func("DalvikPacker.__init__")
    load = m.func("DEX._load")
    init = m.func("DEX.__init__")
    c0 = Core(_quiet(ctx))
    c0.run()
    texts = dict(c0.holders)
    texts["nbytes"] = {"nbytes"}

    def on(rolename):
        keys = texts.get(rolename, set())
        return lambda n: isinstance(n, ast.If) and any(k in ast.unparse(n.test) for k in keys) and any(isinstance(s, ast.Raise) for s in n.body)
    mutants = []
    for r in ("nbytes", "magic", "checksum", "header_size"):
        mutants.append(("%s guard: raise -> logger.warning" % r, hdr, _raise_to_pass(on(r))))
        mutants.append(("%s guard: test negated" % r, hdr, _negate(on(r))))
        mutants.append(("%s guard: deleted" % r, hdr, _delete(on(r))))
        mutants.append(("%s guard: wrapped in try/except Exception: pass" % r, hdr, _wrap_try(on(r))))
    mutants.append(("checksum from offset+8", hdr, _replace_const(12, 8, lambda n: isinstance(n, ast.Call) and ast.unparse(n.func) == "read_at")))
    mutants.append(("endian word read at 44", hdr, _replace_const(40, 44, lambda n: isinstance(n, ast.Call) and ast.unparse(n.func) == "read_at")))
    mutants.append(("header_size compared with 0x74", hdr, _replace_const(0x70, 0x74, lambda n: isinstance(n, ast.If))))
    mutants.append(("DalvikPacker: else-raise -> warning", pk, _raise_to_pass(lambda n: True)))
    mutants.append(("DalvikPacker: accepts 0x12345679 instead", pk, _replace_const(0x12345678, 0x12345679)))
    mutants.append(("_load: HeaderItem moved after the map", load, _move_first_to_end(lambda s: "HeaderItem(" in ast.unparse(s))))
    mutants.append(("_load: HeaderItem wrapped in try", load, _wrap_try(lambda s: "HeaderItem(" in ast.unparse(s))))
    mutants.append(("__init__: _load wrapped in try", init, _wrap_try(lambda s: "self._load(" in ast.unparse(s))))
    benign = [
        ("HeaderItem.__init__: locals renamed", hdr, rename_locals()),
        ("HeaderItem.__init__: a != b -> not (a == b)", hdr, neq_to_not_eq()),
        ("DalvikPacker.__init__: if/else arms flipped", pk, flip_ifs()),
        ("DEX._load: if/else arms flipped", load, flip_ifs()),
        ("DEX._load: locals renamed", load, rename_locals()),
    ]
    run_mutants(ctx, core, mutants, benign)


def _quiet(ctx):
    from ..pathkit import Sink
    return Sink(ctx)
