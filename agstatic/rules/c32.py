"""C32 -- a v1 certificate is reported only if it verifies the signature file.

Rule (interpretation with symbolic library objects; the repository is never imported, `cryptography`/`asn1crypto`
are trusted and modelled as opaque terms).  agstatic/minipy.py interprets the repository source; PKCS#7 objects, keys and
hash objects are symbolic terms (`signer_info['signed_attrs'].dump()[1:]` is a term, a comparison or isinstance on a
term is a choice point and every outcome is explored; helper methods, lookup tables, for/else, next(generator), guard
clauses, De Morgan variants are simply executed).  `<key>.verify(sig, data, ...)` is an event whose outcome (returns /
raises InvalidSignature) is a choice; `h.update(x)` / `h.digest()` build a digest term that remembers what was hashed.

(S+V) APK.verify_signer_info_against_sig_file (calling verify_signature for real) is run for signed attributes present /
absent, every cell of the partition of max_sdk_version induced by the constants it is compared with, certificate found / not
found, twice in a row with different .SF bytes (so a value remembered from the first call cannot vouch for the second).  On
every explored path that returns a certificate: a verify event of *this* call returned normally, its key is derived from
the certificate found for the SignerInfo, its signature is signer_info['signature'], its data is the .SF parameter (no
signed attributes) or b'\\x31' + signer_info['signed_attrs'].dump()[1:] (signed attributes), in which case a comparison
between the digest of exactly the .SF bytes and a value of the signed attributes came out equal on this path; and the
returned value is derived from that certificate.
(D) APK.get_certificate_der (with the function above replaced by a three-way stub: returns a certificate / None / raises)
for three file names: a returned value is one of the stub's results, obtained for get_file(<name>.SF), the PKCS#7 object
loaded from get_file(name) and its own signer_infos/certificates; once the stub raised, None is returned.
get_certificates_v1 / get_certificate only report Certificate.load(get_certificate_der(...)).
A VIOLATION needs a path with known terms that contradicts the above; anything the interpreter cannot model is exit 2.
"""
from __future__ import annotations

import ast

from ..minipy import (Interp, Obj, ClassV, FuncV, Native, PyRaise, Sym, Role, Free, term_of, has_subterm, subterms, show_term,
                      all_paths)
from ..model import APK, AnalysisError, norm, parent, walk_no_nested
from ..pathkit import NotEvaluable, order_points, run_mutants, rename_locals, flip_ifs, neq_to_not_eq

OWN_MUTATION_ADEQUACY = True   # thorough() below mutates the anchored functions in memory (pathkit.run_mutants)
OID_MESSAGE_DIGEST = "1.2.840.113549.1.9.4"   # RFC 5652, id-messageDigest
MD_NAMES = (OID_MESSAGE_DIGEST, "message_digest")
SET_TAG = b"\x31"                             # DER tag of SET OF (signed attributes are signed with it)

SI = ("in", "signer_info")
ATTRS = ("sub", SI, "signed_attrs")
PRESENCE_TERMS = (ATTRS, ("attr", ATTRS, "native"))
RETAGGED = ("binop", "Add", SET_TAG, ("slice", ("call", ("attr", ATTRS, "dump"), (), ()), 1, None))


def _is_none(e):
    return isinstance(e, ast.Constant) and e.value is None


def pos_params(func):
    ps = func.params()
    static = any(ast.unparse(d) == "staticmethod" for d in func.node.decorator_list)
    return ps if static else ps[1:]


class Run:
    """one interpreted path: interpreter + the events the rule looks at"""

    def __init__(self, core, decisions, present=None):
        self.core = core
        self.present = present
        self.verifies = []      # (recv term, sig term, data term, ok, node, qualname)
        self.updates = {}       # (epoch, hash object term) -> [arg terms]
        self.epoch = 0          # top-level invocation counter: hash objects of different invocations are different objects
        self.stub_calls = []    # (qualname, args dict, result)
        self.raised_in_stub = False
        hooks = {"func": self.func_hook, "symcall": self.symcall, "symtruth": self.symtruth, "symiter": self.symiter, "symcompare": self.symcompare}
        self.it = Interp(core.ctx.repo, None, hooks, decisions, max_steps=200000)
        self.stubs = {}

    # ---- library model
    def symcall(self, it, f, args, kwargs, node):
        t = f.term
        if t[0] == "attr" and t[2] == "verify" and len(args) >= 2:
            key = ("verify", t[1], tuple(term_of(a) for a in args[:2]))
            ok = it.choose(key, "")
            it.trace.append(("choice", "`%s` accepts the signature" % show_term(t)[:40], it.qual(), ok))
            self.verifies.append((t[1], term_of(args[0]), term_of(args[1]), ok, node, it.qual()))
            if not ok:
                raise PyRaise("InvalidSignature", node)
            return None
        if t[0] == "attr" and t[2] == "update" and len(args) == 1:
            self.updates.setdefault((self.epoch, t[1]), []).append(term_of(args[0]))
            return None
        if t[0] == "attr" and t[2] in ("digest", "hexdigest") and not args:
            h = t[1]
            first = list(h[2]) if (isinstance(h, tuple) and h[0] == "call" and h[2]) else []
            return Sym(("digest", h, tuple(first + self.updates.get((self.epoch, h), []))))
        return NotImplemented

    def symtruth(self, it, v, node):
        if self.present is not None and v.term in PRESENCE_TERMS:
            return self.present
        if self.present is not None and has_subterm(v.term, ATTRS) and v.term[0] in ("call",) and v.term[1] == ("ext", "len"):
            return self.present
        return NotImplemented

    def symiter(self, it, v, node):
        if self.present is not None and v.term == ATTRS:
            if not self.present:
                return []
            out = [Sym(("elem", ATTRS, 0))]
            more = it.choose(("iter", ATTRS, 1), "")
            it.trace.append(("choice", "the signed attributes have a second element", it.qual(), more))
            if more:
                out.append(Sym(("elem", ATTRS, 1)))
            return out
        if self.present is not None and has_subterm(v.term, ATTRS) and v.term != ATTRS and v.term[0] != "sub" and v.term[0] != "elem":
            raise NotEvaluable("iteration over %s" % show_term(v.term)[:60])
        return NotImplemented

    def symcompare(self, it, opn, a, b, node):
        if self.present is None:
            return NotImplemented
        for x, y in ((a, b), (b, a)):
            if isinstance(x, Sym) and (x.term in PRESENCE_TERMS or (x.term[0] == "call" and x.term[1] == ("ext", "len") and x.term[2] and x.term[2][0] in PRESENCE_TERMS)):
                if isinstance(y, Free):
                    raise NotEvaluable("comparison of the signed attributes with an unknown value")
                is_len = x.term[0] == "call"
                empty = (y is None or y == [] or y == () or y == {} or y == b"" or y == "") if not is_len else None
                if not is_len and empty and opn in ("Is", "Eq", "NotEq"):
                    r = not self.present
                    return r if opn != "NotEq" else not r
                if is_len and isinstance(y, int) and not isinstance(y, bool):
                    n = 1 if self.present else 0     # >= 1 attribute when present
                    swapped = x is b
                    table = {"Eq": n == y, "NotEq": n != y, "Gt": (y > n) if swapped else (n > y), "GtE": (y >= n) if swapped else (n >= y),
                             "Lt": (y < n) if swapped else (n < y), "LtE": (y <= n) if swapped else (n <= y)}
                    if y in (0, 1) and opn in table and not (self.present and y == 1 and opn in ("Eq", "NotEq", "Gt", "LtE") ):
                        return table[opn]
                raise NotEvaluable("presence test of the signed attributes: %s" % (ast.unparse(node)[:60] if node is not None else opn))
        return NotImplemented

    # ---- repository functions replaced by models
    def func_hook(self, it, fv, loc, node):
        fn = self.stubs.get(fv.qualname)
        if fn is None:
            return NotImplemented
        return fn(it, fv, loc, node)


class Core:
    def __init__(self, ctx):
        self.ctx = ctx
        self.m = ctx.mod(APK)
        self.apk = self.m.cls("APK")

    # ================================================================== (S+V)
    def signer_paths(self, present, max_sdk, cert_found):
        f = self.si
        ps = pos_params(f)
        rec = self.sdk_rec

        def run(decisions):
            r = Run(self, decisions, present)
            it = r.it
            cert = Sym(("cert", ("in", "certificates"), SI))

            def find_certificate(it_, fv, loc, node):
                r.stub_calls.append((fv.qualname, dict(loc), cert if cert_found else None))
                return cert if cert_found else None

            def get_hash_algorithm(it_, fv, loc, node):
                a = term_of(loc.get(pos_params(fv.func)[0])) if fv.func is not None else None
                return (Sym(("hashlib_ctor", a)), Sym(("crypto_hash", a)))
            r.stubs = {"APK.find_certificate": find_certificate, "APK.get_hash_algorithm": get_hash_algorithm,
                       "APK.canonical_name": lambda it_, fv, loc, node: Sym(("canonical_name", term_of(loc.get("name"))))}
            self_obj = Obj(self.apk)
            outs = []
            for k in (1, 2):
                sf = Sym(("in", "sf_object#%d" % k))
                args = {ps[0]: Sym(("in", "signed_data")), ps[1]: Sym(("in", "certificates")), ps[2]: Sym(SI), ps[3]: sf}
                if len(ps) > 4:
                    args[ps[4]] = None if max_sdk is None else Role(max_sdk, "max_sdk", rec)
                r.epoch = k
                v0, c0 = len(r.verifies), len(it.sym_cmps)
                try:
                    val = it.call(it.get_attr(self_obj, f.node.name), [args[p] for p in ps[:5]], {})
                    out = ("return", val)
                except PyRaise as e:
                    out = ("raise", e.name, e.node)
                outs.append((out, sf.term, r.verifies[v0:], it.sym_cmps[c0:], cert.term))
            return it, (r, outs)
        try:
            return all_paths(run, max_runs=6000)
        except NotEvaluable as e:
            raise AnalysisError("verify_signer_info_against_sig_file / verify_signature left the interpretable fragment: %s" % e)

    @staticmethod
    def _path_desc(it):
        cs = [t for t in it.trace if t[0] == "choice"]
        return "; ".join("%s is %s" % (w, v) for _, w, _, v in cs[-6:])

    def judge_signer(self, present, it, out, sf, verifies, cmps, cert):
        """-> None | (rule, construct node/str, func, message)   (raises NotEvaluable when a term is not understood)"""
        if out[0] != "return" or out[1] is None:
            return None
        R = out[1]
        what = "with signed attributes" if present else "without signed attributes"
        fV = self.m.functions.get(verifies[-1][5]) if verifies else None
        ok_events = [v for v in verifies if v[3]]
        if isinstance(R, (bool, int, str)) and not isinstance(R, Sym):
            raise NotEvaluable("verify_signer_info_against_sig_file returns %r" % (R,))
        if not ok_events:
            where = None
            if verifies:
                where = self.m.functions.get(verifies[-1][5])
            else:
                cs = [t for t in it.trace if t[0] == "choice"]
                where = self.m.functions.get(cs[-1][2]) if cs else None
            return ("verify/gating", "certificate returned without a successful verify", where or self.si,
                    "%s a certificate (%s) is returned on a path where no public-key verify call of this invocation returned normally [%s]"
                    % (what, show_term(term_of(R))[:60], self._path_desc(it)))
        want = RETAGGED if present else sf
        good = [v for v in ok_events if v[2] == want]
        if not good:
            v = ok_events[-1]
            if any(isinstance(x, tuple) and x and x[0] == "free" for x in subterms(v[2])):
                raise NotEvaluable("the verified bytes are not a known term")
            callers_choice = v[2] == sf or has_subterm(v[2], ATTRS)
            return ("signer/data", ("bytes verified %s" % what) if callers_choice else v[4], self.si if callers_choice else (self.m.functions.get(v[5]) or self.si),
                    "%s the signature is verified over %s instead of %s" % (what, show_term(v[2])[:80], "b'\\x31' + signed_attrs.dump()[1:]" if present else "the .SF bytes"))
        v = good[-1]
        if not has_subterm(v[1], ("sub", SI, "signature")):
            return ("verify/operands", v[4], self.m.functions.get(v[5]) or self.si, "the verified signature value is %s, not signer_info['signature']" % show_term(v[1])[:60])
        if not has_subterm(v[0], cert):
            return ("verify/operands", v[4], self.m.functions.get(v[5]) or self.si,
                    "the verifying key %s is not derived from the certificate referenced by the SignerInfo" % show_term(v[0])[:80])
        if not has_subterm(term_of(R), cert):
            return ("verify/which-certificate", "returned value", self.si, "the reported value %s is not derived from the certificate whose key verified" % show_term(term_of(R))[:80])
        if present:
            dig = []
            for opn, a, b, res, node, q in cmps:
                if opn not in ("Eq", "NotEq"):
                    continue
                for x, y in ((a, b), (b, a)):
                    if isinstance(x, tuple) and x and x[0] == "digest":
                        dig.append((x, y, res if opn == "Eq" else not res, node, q))
            if not dig:
                return ("signer/digest-gate", "no digest comparison", self.si,
                        "with signed attributes a certificate is returned on a path where the digest of the .SF was never compared with the messageDigest attribute [%s]" % self._path_desc(it))
            eq = [d for d in dig if d[2]]
            if not eq:
                d = dig[-1]
                return ("signer/digest-gate", d[3], self.m.functions.get(d[4]) or self.si,
                        "with signed attributes a certificate is returned although the digest comparison came out unequal [%s]" % self._path_desc(it))
            d = eq[-1]
            hashed = d[0][2]
            if tuple(hashed) != (sf,):
                return ("signer/digest-gate", d[3], self.m.functions.get(d[4]) or self.si,
                        "the digest compared with the messageDigest attribute is computed over %s, not over the .SF bytes" % ([show_term(h)[:40] for h in hashed] or "nothing"))
            if not has_subterm(d[1], ATTRS):
                return ("signer/digest-gate", d[3], self.m.functions.get(d[4]) or self.si,
                        "the .SF digest is compared with %s, which is not taken from the signed attributes" % show_term(d[1])[:60])
            elems = [x for x in subterms(d[1]) if isinstance(x, tuple) and len(x) == 3 and x[0] == "elem" and x[1] == ATTRS]
            named = any(opn == "Eq" and res and ((a in MD_NAMES and any(has_subterm(b, e) for e in elems)) or (b in MD_NAMES and any(has_subterm(a, e) for e in elems)))
                        for opn, a, b, res, node, q in it.sym_cmps)
            if not named:
                raise NotEvaluable("cannot tell which signed attribute the .SF digest is compared with (%s)" % show_term(d[1])[:60])
        return None

    def signer(self):
        ctx = self.ctx
        self.vs = self.m.func("APK.verify_signature")
        self.si = self.m.func("APK.verify_signer_info_against_sig_file")
        ctx.analysed(self.vs)
        ctx.analysed(self.si)
        ctx.require(len(pos_params(self.si)) >= 4, "verify_signer_info_against_sig_file signature changed")
        self.sdk_rec = set()
        done = set()
        n_paths = n_cert = 0
        n_ok = {True: 0, False: 0}
        reported = set()
        for _ in range(4):
            before = set(self.sdk_rec)
            sdks = [None] + [p for p in order_points(self.sdk_rec | {24}) if p < 10 ** 6]
            for present in (True, False):
                for sdk in sdks:
                    for found in (True, False):
                        if (present, sdk, found) in done:
                            continue
                        done.add((present, sdk, found))
                        label = "signed attributes %s, max_sdk_version=%s, certificate %s" % ("present" if present else "absent", sdk, "found" if found else "not found")
                        for it, (r, outs) in self.signer_paths(present, sdk, found):
                            n_paths += 1
                            for k, (out, sf, verifies, cmps, cert) in enumerate(outs):
                                if out[0] == "raise" and out[1] not in ("ValueError", "InvalidSignature", "TypeError", "AttributeError", "KeyError", "IndexError", "StopIteration"):
                                    raise AnalysisError("interpreting verify_signer_info_against_sig_file ended in %s at `%s`" % (out[1], norm(out[2])[:60] if out[2] is not None else "?"))
                                if out[0] == "return" and out[1] is not None:
                                    n_cert += 1
                                    if not found:
                                        pass
                                try:
                                    bad = self.judge_signer(present, it, out, sf, verifies, cmps, cert)
                                except NotEvaluable as e:
                                    raise AnalysisError("verify_signer_info_against_sig_file (%s): %s" % (label, e))
                                if bad is None:
                                    if out[0] == "return" and out[1] is not None:
                                        n_ok[present] += 1
                                    continue
                                rule, cons, f, msg = bad
                                key = (rule, norm(cons) if not isinstance(cons, str) else cons)
                                if key in reported:
                                    continue
                                reported.add(key)
                                ctx.check(rule, label, False, f, cons, "%s (call #%d, %s)" % (msg, k + 1, label), node=cons if not isinstance(cons, str) else f.node,
                                          witness=dict(point=label, path=self._path_desc(it)))
            if self.sdk_rec <= before:
                break
        ctx.count("signer_paths", n_paths)
        ctx.count("certificate_paths_with_attrs", n_ok[True])
        ctx.count("certificate_paths_without_attrs", n_ok[False])
        if not reported:
            ctx.ob("verify/gating", "every path of verify_signer_info_against_sig_file that returns a certificate", True,
                   "%d interpreted paths (2 calls each); %d return a certificate, each after a successful verify over the right bytes with the referenced certificate's key" % (n_paths, n_cert))
            ctx.ob("signer/data", "verified bytes", True, "without signed attributes: the .SF parameter; with: b'\\x31' + signer_info['signed_attrs'].dump()[1:]")
            ctx.ob("signer/digest-gate", "digest of the .SF equals the messageDigest attribute on every certificate path with signed attributes", True,
                   "%d such paths" % n_ok[True])
            ctx.ob("verify/which-certificate", "the returned value is derived from the verifying certificate", True, "")

    # ================================================================== (D)
    def der(self):
        ctx = self.ctx
        f = self.gcd = self.m.func("APK.get_certificate_der")
        ctx.analysed(f)
        p_file = pos_params(f)[0]
        reported = set()
        n_paths = n_ret = 0
        for name, sfname in (("META-INF/CERT.RSA", "META-INF/CERT.SF"), ("META-INF/A.B.DSA", "META-INF/A.B.SF"), ("META-INF/x.EC", "META-INF/x.SF")):
            def run(decisions, name=name):
                r = Run(self, decisions, None)
                it = r.it
                calls = []

                def signer_stub(it_, fv, loc, node):
                    n = len(calls)
                    args = {p: loc.get(p) for p in pos_params(fv.func)}
                    if it_.choose(("stub-raises", n), ""):
                        it_.trace.append(("choice", "verifying SignerInfo #%d raises" % (n + 1), it_.qual(), True))
                        calls.append((args, "raise"))
                        raise PyRaise("ValueError", node)
                    if it_.choose(("stub-none", n), ""):
                        it_.trace.append(("choice", "SignerInfo #%d does not verify" % (n + 1), it_.qual(), True))
                        calls.append((args, None))
                        return None
                    v = Sym(("vcert", n))
                    calls.append((args, v))
                    return v

                def get_file(it_, fv, loc, node):
                    fn = [v for k, v in loc.items() if k != "self"]
                    return Sym(("file", term_of(fn[0]) if fn else None))
                r.stubs = {"APK.verify_signer_info_against_sig_file": signer_stub, "APK.get_file": get_file,
                           "APK.get_min_sdk_version": lambda it_, fv, loc, node: Sym(("in", "min_sdk_version")),
                           "APK.get_max_sdk_version": lambda it_, fv, loc, node: Sym(("in", "max_sdk_version")),
                           "APK.get_target_sdk_version": lambda it_, fv, loc, node: Sym(("in", "target_sdk_version"))}
                try:
                    val = it.call(it.get_attr(Obj(self.apk), f.node.name), [name], {})
                    out = ("return", val)
                except PyRaise as e:
                    out = ("raise", e.name, e.node)
                return it, (out, calls)
            try:
                paths = all_paths(run, max_runs=3000)
            except NotEvaluable as e:
                raise AnalysisError("get_certificate_der left the interpretable fragment: %s" % e)
            for it, (out, calls) in paths:
                n_paths += 1
                if out[0] != "return" or out[1] is None:
                    continue
                n_ret += 1
                R = out[1]
                bad = None
                mine = [c for c in calls if c[1] is not None and c[1] != "raise" and term_of(c[1]) == term_of(R)]
                if not mine:
                    if isinstance(R, Sym) and not any(t[0] == "free" for t in subterms(R.term) if isinstance(t, tuple) and t):
                        bad = ("der/sources", "returned value", "get_certificate_der returns %s, which is not a result of verify_signer_info_against_sig_file [%s]" % (show_term(R.term)[:70], self._path_desc(it)))
                    else:
                        raise AnalysisError("get_certificate_der returns %r: not a modelled value" % (R,))
                elif any(c[1] == "raise" for c in calls):
                    bad = ("der/exception-returns-none", "exception while verifying a SignerInfo",
                           "a certificate is returned although verifying a SignerInfo raised an exception [%s]" % self._path_desc(it))
                else:
                    a = mine[0][0]
                    sp = pos_params(self.si)
                    sd, certs, si, sf = (term_of(a.get(p)) for p in sp[:4])
                    file_t = ("file", name)
                    if any(x == "<text>" for t in (sd, certs, si, sf) for x in subterms(t)):
                        raise AnalysisError("get_certificate_der builds a file name the interpreter did not compute")
                    if sf != ("file", sfname):
                        bad = ("der/inputs", ".SF argument", "the bytes checked against the signature block %s are %s, not get_file(%r)" % (name, show_term(sf)[:60], sfname))
                    elif not has_subterm(sd, file_t):
                        bad = ("der/inputs", "PKCS#7 argument", "the PKCS#7 object %s is not loaded from get_file(%r)" % (show_term(sd)[:60], name))
                    elif not (has_subterm(si, sd) and has_subterm(si, "signer_infos")):
                        bad = ("der/inputs", "signer_info argument", "the SignerInfo %s is not an element of the same PKCS#7 object's signer_infos" % show_term(si)[:60])
                    elif not (has_subterm(certs, sd) and has_subterm(certs, "certificates")):
                        bad = ("der/inputs", "certificates argument", "the certificate bag %s is not the same PKCS#7 object's certificates" % show_term(certs)[:60])
                if bad and (bad[0], bad[1]) not in reported:
                    reported.add((bad[0], bad[1]))
                    ctx.check(bad[0], "get_certificate_der(%r)" % name, False, f, bad[1], bad[2], node=f.node, witness=dict(path=self._path_desc(it)))
        ctx.count("der_paths", n_paths)
        ctx.count("der_certificate_paths", n_ret)
        if not reported:
            ctx.ob("der/sources", "every value get_certificate_der returns", True,
                   "%d interpreted paths, %d return a certificate: always a verify_signer_info_against_sig_file result for get_file(<name>.SF) and the PKCS#7 of get_file(name); None after an exception" % (n_paths, n_ret))

    # ================================================================== callers
    def callers(self):
        ctx = self.ctx
        for qn, args in (("APK.get_certificates_v1", []), ("APK.get_certificate", ["META-INF/CERT.RSA"])):
            f = self.m.func(qn)
            ctx.analysed(f)

            def run(decisions, f=f, args=args):
                r = Run(self, decisions, None)
                it = r.it
                ders = []

                def der_stub(it_, fv, loc, node):
                    n = len(ders)
                    if it_.choose(("der-none", n), ""):
                        ders.append(None)
                        return None
                    v = Sym(("der", n))
                    ders.append(v)
                    return v
                r.stubs = {"APK.get_certificate_der": der_stub, "APK.get_signature_names": lambda it_, fv, loc, node: Sym(("in", "signature_names"))}
                try:
                    val = it.call(it.get_attr(Obj(self.apk), f.node.name), list(args), {})
                    out = ("return", val)
                except PyRaise as e:
                    out = ("raise", e.name, e.node)
                return it, (out, ders)
            try:
                paths = all_paths(run, max_runs=500)
            except NotEvaluable as e:
                raise AnalysisError("%s left the interpretable fragment: %s" % (qn, e))
            ctx.count("der_calls")
            bad = None
            for it, (out, ders) in paths:
                if out[0] != "return" or out[1] is None:
                    continue
                vals = out[1] if isinstance(out[1], (list, tuple)) else [out[1]]
                for v in vals:
                    t = term_of(v)
                    if not any(d is not None and has_subterm(t, d.term) for d in ders):
                        if isinstance(v, Sym):
                            bad = "%s reports %s, which is not built from a get_certificate_der result" % (qn, show_term(t)[:70])
                        else:
                            raise AnalysisError("%s returns %r: not a modelled value" % (qn, v))
            ctx.check("callers/sources", qn, bad is None, f, "reported certificates", bad or "", node=f.node,
                      detail="%d interpreted paths: every reported certificate is built from a get_certificate_der result" % len(paths))

    # ================================================================== (F) the certificate reference
    def find_cert(self):
        """find_certificate(certificates, signer_info): a certificate it returns must have been compared equal to the
        SignerInfo's sid in issuer AND serial number on that path (positively unequal field -> violation)"""
        ctx = self.ctx
        f = self.m.func("APK.find_certificate")
        ctx.analysed(f)
        CERTS = ("in", "certificates")
        FIELDS = ("issuer", "serial_number")

        def run(decisions):
            r = Run(self, decisions, None)
            it = r.it
            r.stubs = {"APK.canonical_name": lambda it_, fv, loc, node: Sym(("canonical_name", term_of([v for k, v in loc.items() if k != "self"][0])))}
            try:
                val = it.call(it.get_attr(Obj(self.apk), f.node.name), [Sym(CERTS), Sym(SI)], {})
                out = ("return", val)
            except PyRaise as e:
                out = ("raise", e.name, e.node)
            return it, out
        try:
            paths = all_paths(run, max_runs=4000)
        except NotEvaluable as e:
            raise AnalysisError("find_certificate left the interpretable fragment: %s" % e)
        n_ret = 0
        bad = None
        for it, out in paths:
            if out[0] != "return" or out[1] is None:
                continue
            R = out[1]
            if not (isinstance(R, Sym) and R.term[0] == "elem" and R.term[1] == CERTS):
                raise AnalysisError("find_certificate returns %r: not an element of the certificate bag" % (R,))
            n_ret += 1
            for fld in FIELDS:
                cmps = [(opn, a, b, res) for opn, a, b, res, node, q in it.sym_cmps if opn in ("Eq", "NotEq")
                        and ((has_subterm(a, R.term) and has_subterm(a, fld) and has_subterm(b, SI)) or (has_subterm(b, R.term) and has_subterm(b, fld) and has_subterm(a, SI)))]
                if not cmps:
                    raise AnalysisError("cannot tell how find_certificate compares the %s of a certificate with the SignerInfo's sid" % fld)
                equal = [c for c in cmps if (c[3] if c[0] == "Eq" else not c[3])]
                if not equal and bad is None:
                    bad = "find_certificate returns certificate #%d of the bag although its %s was compared with the sid and found different [%s]" % (R.term[2] + 1, fld, self._path_desc(it))
        ctx.count("find_certificate_paths", len(paths))
        ctx.count("find_certificate_returns", n_ret)
        ctx.check("signer/certificate-reference", "find_certificate returns only a certificate whose issuer and serial number equal the sid", bad is None, f,
                  "returned certificate vs sid", bad or "", node=f.node,
                  detail="%d interpreted paths, %d return a certificate; issuer and serial number compared equal on each" % (len(paths), n_ret))

    def run(self):
        self.signer()
        self.find_cert()
        self.der()
        self.callers()


def core(ctx):
    Core(ctx).run()


def run(ctx):
    ctx.explanation = __doc__
    core(ctx)
    ctx.floor("signer_paths", 20)
    ctx.floor("certificate_paths_with_attrs", 1)
    ctx.floor("certificate_paths_without_attrs", 1)
    ctx.floor("find_certificate_returns", 1)
    ctx.floor("der_paths", 6)
    ctx.floor("der_certificate_paths", 3)
    ctx.floor("der_calls", 2)
    ctx.assume("cryptography's PublicKey.verify(signature, data, ...) raises InvalidSignature unless `signature` is valid for `data` (trusted library)")
    ctx.assume("asn1crypto parsing (ContentInfo.load, SignerInfo fields, dump()) is trusted; find_certificate's issuer/serial matching and "
               "get_hash_algorithm's table are replaced by models (found / not found; a hash constructor of the SignerInfo)")
    if ctx.tier == "thorough":
        thorough(ctx)


# ---------------------------------------------------------------------------- thorough tier
def thorough(ctx):
    m = ctx.mod(APK)
    vs = m.func("APK.verify_signature")
    si = m.func("APK.verify_signer_info_against_sig_file")
    gcd = m.func("APK.get_certificate_der")

    def move_assign_before_try(fn):
        for i, s in enumerate(fn.body):
            if isinstance(s, ast.Try):
                for j, t in enumerate(s.body):
                    if isinstance(t, ast.Assign) and not _is_none(t.value):
                        fn.body.insert(i, s.body.pop(j))
                        return
        raise LookupError

    def assign_in_handler(fn):
        for s in ast.walk(fn):
            if isinstance(s, ast.Try):
                a = [t for t in s.body if isinstance(t, ast.Assign) and not _is_none(t.value)]
                if a and s.handlers:
                    s.handlers[0].body.append(ast.parse(ast.unparse(a[0])).body[0])
                    return
        raise LookupError

    def else_raise_to_pass(fn):
        for s in ast.walk(fn):
            if isinstance(s, ast.If) and len(s.orelse) == 1 and isinstance(s.orelse[0], ast.Raise):
                s.orelse = [ast.Pass()]
                return
        raise LookupError

    def drop_verify(fn):
        for s in ast.walk(fn):
            if isinstance(s, ast.If):
                for i, t in enumerate(s.body):
                    if isinstance(t, ast.Expr) and isinstance(t.value, ast.Call) and isinstance(t.value.func, ast.Attribute) and t.value.func.attr == "verify":
                        s.body[i] = ast.Pass()
                        return
        raise LookupError

    def swap_verify_args(fn):
        for c in ast.walk(fn):
            if isinstance(c, ast.Call) and isinstance(c.func, ast.Attribute) and c.func.attr == "verify" and len(c.args) >= 2:
                c.args[0], c.args[1] = c.args[1], c.args[0]
                return
        raise LookupError

    def digest_return_to_pass(fn):
        for s in ast.walk(fn):
            if isinstance(s, ast.If) and "digest" in ast.unparse(s.test) and any(isinstance(t, ast.Return) for t in s.body):
                s.body = [t for t in s.body if not isinstance(t, ast.Return)] or [ast.Pass()]
                return
        raise LookupError

    def digest_negate(fn):
        for s in ast.walk(fn):
            if isinstance(s, ast.If) and "digest" in ast.unparse(s.test) and any(isinstance(t, ast.Return) for t in s.body):
                s.test = ast.UnaryOp(op=ast.Not(), operand=s.test)
                return
        raise LookupError

    def hash_other(fn):
        for c in ast.walk(fn):
            if isinstance(c, ast.Call) and isinstance(c.func, ast.Attribute) and c.func.attr == "update" and c.args:
                c.args[0] = ast.Call(func=ast.Attribute(value=ast.Name(id="signed_attrs", ctx=ast.Load()), attr="dump", ctx=ast.Load()), args=[], keywords=[])
                return
        raise LookupError

    def no_retag(fn):
        for s in ast.walk(fn):
            if isinstance(s, ast.Assign) and isinstance(s.value, ast.BinOp) and isinstance(s.value.left, ast.Constant) and s.value.left.value == SET_TAG:
                s.value = s.value.right.value
                return
        raise LookupError

    def attrs_call_verifies_sf(fn):
        calls = [c for c in ast.walk(fn) if isinstance(c, ast.Call) and isinstance(c.func, ast.Attribute) and c.func.attr == "verify_signature"]
        for c in calls:
            if "dump" in ast.unparse(c.args[2]):
                c.args[2] = ast.Name(id=pos_params(si)[3], ctx=ast.Load())
                return
        raise LookupError

    def none_guard_to_pass(fn):
        for s in ast.walk(fn):
            if isinstance(s, ast.If) and "is None" in ast.unparse(s.test) and any(isinstance(t, ast.Raise) for t in s.body):
                s.body = [ast.Pass()]
                return
        raise LookupError

    def return_first_cert(fn):
        for s in ast.walk(fn):
            if isinstance(s, ast.Return) and isinstance(s.value, ast.Name) and s.value.id != "None":
                s.value = ast.parse("certificates[0].chosen.dump()").body[0].value
                return
        raise LookupError

    def handler_continue(fn):
        for s in ast.walk(fn):
            if isinstance(s, ast.ExceptHandler):
                s.body = [t for t in s.body if not isinstance(t, ast.Return)] + [ast.Continue()]
                return
        raise LookupError

    def wrong_sf(fn):
        for c in ast.walk(fn):
            if isinstance(c, ast.Constant) and c.value == ".SF":
                c.value = ".MF"
                return
        raise LookupError

    mutants = [
        ("verify_signature: certificate assigned before the try", vs, move_assign_before_try),
        ("verify_signature: certificate also assigned in the InvalidSignature handler", vs, assign_in_handler),
        ("verify_signature: unsupported key type falls through", vs, else_raise_to_pass),
        ("verify_signature: one verify call dropped", vs, drop_verify),
        ("verify_signature: signature and data swapped", vs, swap_verify_args),
        ("signer_info: digest mismatch no longer returns", si, digest_return_to_pass),
        ("signer_info: digest comparison negated", si, digest_negate),
        ("signer_info: digest computed over the signed attributes", si, hash_other),
        ("signer_info: signed attributes verified without re-tagging", si, no_retag),
        ("signer_info: signed-attrs arm verifies the .SF directly", si, attrs_call_verifies_sf),
        ("get_certificate_der: returns the first certificate of the bag", gcd, return_first_cert),
        ("get_certificate_der: exception -> continue", gcd, handler_continue),
        ("get_certificate_der: checks the manifest instead of the .SF", gcd, wrong_sf),
    ]
    benign = [
        ("verify_signature: locals renamed", vs, rename_locals()),
        ("signer_info: locals renamed", si, rename_locals()),
        ("signer_info: if/else arms flipped", si, flip_ifs()),
        ("signer_info: a != b -> not (a == b)", si, neq_to_not_eq()),
        ("get_certificate_der: locals renamed", gcd, rename_locals()),
        ("get_certificate_der: if/else arms flipped", gcd, flip_ifs()),
    ]
    run_mutants(ctx, core, mutants, benign)
