"""Instance-memo coherence for the xref record classes (ClassAnalysis / MethodAnalysis / FieldAnalysis / StringAnalysis).

The xref scenarios (xref_engine) query the getters once, after `create_xref`.  A getter that memoises a DERIVED COPY of a
record container on the instance is invisible there, but breaks the property on a sequence (getter; recorder; getter) as soon
as one recorder of that container does not drop the memo entry.  This pass decides exactly that, syntactically, per class:

  memo store   `self.M[k] = v` / `self.M = v` outside __init__ in a method reachable from a getter (get_* / property) through
               `self.helper(...)` calls; k a literal (or a helper parameter bound to a literal at every call site); v built
               from a record container `self.C` (directly, or through the helper parameter bound to `self.C`) by a copying
               constructor (set/list/tuple/frozenset/sorted/dict/comprehension);
  obligation   every method of the class that mutates `self.C` (`.add/.append/.update/.extend/.insert/.remove/.discard/.pop/
               .clear`, `self.C[..] = ..`, `del self.C[..]`, rebinding) also drops that entry: `self.M.pop(k..)`, `del self.M[k]`,
               `self.M.clear()`, `self.M = ...`, `self.M[k] = ...`;
  VIOLATION    a mutator with no such drop for k (witness sequence: getter, that mutator with a new record, getter);
  undecided    (AnalysisError, exit 2) any memo store whose key / source / copy-ness is not of the recognised forms.

A class without memo stores has zero instances (today's tree); the self-test keeps positive and negative twins.
"""
from __future__ import annotations

import ast

from .model import AnalysisError

MUTATORS = {"add", "append", "update", "extend", "insert", "remove", "discard", "pop", "clear", "setdefault", "appendleft", "popitem"}
COPIERS = {"set", "list", "tuple", "frozenset", "sorted", "dict"}


def _self_attr(e):
    """`self.X` -> 'X'"""
    if isinstance(e, ast.Attribute) and isinstance(e.value, ast.Name) and e.value.id == "self":
        return e.attr
    return None


def _root_self_attr(e):
    """self.X, self.X[..], self.X[..][..] -> 'X'"""
    while isinstance(e, ast.Subscript):
        e = e.value
    return _self_attr(e)


def _is_getter(fn):
    if fn.name.startswith("get_") or fn.name.startswith("is_") or fn.name in ("__repr__", "__str__", "show"):
        return True
    return any(isinstance(d, ast.Name) and d.id == "property" for d in fn.decorator_list)


def _mutated_attrs(fn):
    """{attr: node} for record containers this method mutates"""
    out = {}
    for n in ast.walk(fn):
        if isinstance(n, ast.Call) and isinstance(n.func, ast.Attribute) and n.func.attr in MUTATORS:
            a = _root_self_attr(n.func.value)
            if a:
                out.setdefault(a, n)
        elif isinstance(n, (ast.Assign, ast.AugAssign, ast.AnnAssign)):
            tg = n.targets if isinstance(n, ast.Assign) else [n.target]
            for t in tg:
                a = _root_self_attr(t)
                if a:
                    out.setdefault(a, n)
        elif isinstance(n, ast.Delete):
            for t in n.targets:
                a = _root_self_attr(t)
                if a:
                    out.setdefault(a, n)
    return out


def _self_calls(fn):
    for n in ast.walk(fn):
        if isinstance(n, ast.Call) and isinstance(n.func, ast.Attribute) and isinstance(n.func.value, ast.Name) and n.func.value.id == "self":
            yield n


def _drops(fn, memo):
    """keys of `memo` dropped/overwritten in fn: set of literal keys, or {'*'} for a whole-container reset"""
    keys = set()
    for n in ast.walk(fn):
        if isinstance(n, ast.Call) and isinstance(n.func, ast.Attribute) and _self_attr(n.func.value) == memo:
            if n.func.attr == "clear":
                keys.add("*")
            elif n.func.attr == "pop" and n.args:
                keys.add(ast.literal_eval(n.args[0]) if isinstance(n.args[0], ast.Constant) else ast.unparse(n.args[0]))
        elif isinstance(n, ast.Delete):
            for t in n.targets:
                if isinstance(t, ast.Subscript) and _self_attr(t.value) == memo:
                    keys.add(t.slice.value if isinstance(t.slice, ast.Constant) else ast.unparse(t.slice))
                elif _self_attr(t) == memo:
                    keys.add("*")
        elif isinstance(n, ast.Assign):
            for t in n.targets:
                if _self_attr(t) == memo:
                    keys.add("*")
                elif isinstance(t, ast.Subscript) and _self_attr(t.value) == memo:
                    keys.add(t.slice.value if isinstance(t.slice, ast.Constant) else ast.unparse(t.slice))
    return keys


def _value_sources(fn, name_or_expr, params):
    """(self attrs, params) a stored value derives from, and whether it is certainly a copy; follows local single assignments"""
    local = {}
    for n in ast.walk(fn):
        if isinstance(n, ast.Assign) and len(n.targets) == 1 and isinstance(n.targets[0], ast.Name):
            local.setdefault(n.targets[0].id, []).append(n.value)
    attrs, ps, copy, seen = set(), set(), True, set()

    def rec(e, top):
        nonlocal copy
        if isinstance(e, ast.Name):
            if e.id in params:
                ps.add(e.id)
                if top:
                    copy = False
            elif e.id in local and e.id not in seen:
                seen.add(e.id)
                for v in local[e.id]:
                    if not (isinstance(v, ast.Constant) and v.value is None) and not (isinstance(v, ast.Call) and isinstance(v.func, ast.Attribute) and v.func.attr == "get"):
                        rec(v, top)
            return
        a = _self_attr(e)
        if a:
            attrs.add(a)
            if top:
                copy = False
            return
        if top:
            ok = isinstance(e, (ast.ListComp, ast.SetComp, ast.DictComp, ast.Set, ast.List, ast.Tuple, ast.Dict)) or (
                isinstance(e, ast.Call) and isinstance(e.func, ast.Name) and e.func.id in COPIERS)
            if not ok:
                copy = False
        for c in ast.iter_child_nodes(e):
            rec(c, False)

    rec(name_or_expr, True)
    return attrs, ps, copy


def check_class(sink, m, clsname):
    """returns the number of memo instances examined"""
    cls = m.cls(clsname)
    methods = {n.name: n for n in cls.node.body if isinstance(n, (ast.FunctionDef, ast.AsyncFunctionDef))}
    # getter closure over self.helper() calls
    reach, work = {}, [(n, None) for n, f in methods.items() if _is_getter(f)]
    for n, _ in work:
        reach[n] = n
    while work:
        n, _ = work.pop()
        for c in _self_calls(methods[n]):
            h = c.func.attr
            if h in methods and h not in reach:
                reach[h] = n
                work.append((h, n))
    mutators = {n: _mutated_attrs(f) for n, f in methods.items() if n != "__init__"}
    instances = 0
    for name in sorted(reach):
        fn = methods[name]
        params = [a.arg for a in fn.args.args[1:]]
        for n in ast.walk(fn):
            stores = []
            if isinstance(n, ast.Assign):
                for t in n.targets:
                    if isinstance(t, ast.Subscript) and _self_attr(t.value):
                        stores.append((_self_attr(t.value), t.slice, n.value))
                    elif _self_attr(t):
                        stores.append((_self_attr(t), None, n.value))
            elif isinstance(n, ast.Call) and isinstance(n.func, ast.Attribute) and n.func.attr == "setdefault" and _self_attr(n.func.value) and len(n.args) == 2:
                stores.append((_self_attr(n.func.value), n.args[0], n.args[1]))
            for memo, key, val in stores:
                instances += 1
                where = "%s.%s: `%s`" % (clsname, name, ast.unparse(n)[:120])
                attrs, ps, copy = _value_sources(fn, val, params)
                # bind helper parameters at the call sites in the getter closure
                bindings = [dict()]
                kparam = key.id if isinstance(key, ast.Name) and key.id in params else None
                if ps or kparam:
                    bindings = []
                    for caller in reach:
                        for c in _self_calls(methods[caller]):
                            if c.func.attr == name:
                                if c.keywords or len(c.args) != len(params):
                                    raise AnalysisError("instance memo %s: call `%s` is not positional" % (where, ast.unparse(c)))
                                bindings.append(dict(zip(params, c.args)))
                    if not bindings:
                        raise AnalysisError("instance memo %s: helper has no call site in a getter" % where)
                for b in bindings:
                    if key is None:
                        k = "*"
                    elif isinstance(key, ast.Constant):
                        k = key.value
                    elif kparam and isinstance(b.get(kparam), ast.Constant):
                        k = b[kparam].value
                    else:
                        raise AnalysisError("instance memo %s: key `%s` is not a literal" % (where, ast.unparse(key)))
                    srcs = set(attrs)
                    for p in ps:
                        a = _self_attr(b[p])
                        if a is None:
                            if isinstance(b[p], ast.Constant):
                                continue
                            raise AnalysisError("instance memo %s: value source `%s` is not a record container" % (where, ast.unparse(b[p])))
                        srcs.add(a)
                    srcs.discard(memo)
                    if not srcs:
                        continue  # a value that depends on no mutable record (constant per instance)
                    if not copy:
                        raise AnalysisError("instance memo %s: cannot tell whether the stored value is a copy or a live view of %s" % (where, sorted(srcs)))
                    for src in sorted(srcs):
                        for mn, muts in sorted(mutators.items()):
                            if src not in muts or mn == name:
                                continue
                            dropped = _drops(methods[mn], memo)
                            ok = "*" in dropped or k in dropped or k == "*" and bool(dropped)
                            sink.check("memo-coherence", "%s.%s memo %s[%r] <- %s" % (clsname, mn, memo, k, src), ok, "%s.%s" % (clsname, mn),
                                       ast.unparse(muts[src]),
                                       "%s.%s changes the record container self.%s but does not drop the memo entry self.%s[%r] that %s.%s builds from it "
                                       "(drops here: %s) -- sequence %s(); %s(new record); %s() returns the stale copy, so the reported cross-references "
                                       "are not those recorded" % (clsname, mn, src, memo, k, clsname, name, sorted(map(str, dropped)) or "none",
                                                                   reach[name] if reach[name] != name else name, mn, reach[name] if reach[name] != name else name),
                                       node=muts[src], file=m.relpath)
    sink.count("instance_memo_stores", instances)
    return instances
