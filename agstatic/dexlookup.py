"""C05 clause: the name- and descriptor-based lookup helpers of ``DEX`` return exactly the matching items.

Three families, decided on the ast with a small *key-term* language (no pattern on
spelling: locals are resolved, `+` is an ordered concatenation, a getter call on the
loop item is its role, any other call stays in the term as a transformation):

* cache helpers (``get_encoded_method_descriptor`` ...): producer/consumer key
  agreement -- the lookup key, with every parameter replaced by the getter of the
  item that plays its role, must be the same term as the key the dict is filled
  with; the stored value is the item itself; items are enumerated from every class.
* linear scans (``get_class`` ...): the guard is a conjunction of ``==`` comparisons,
  one per parameter, each against the getter of the matching role; a one-item API
  returns the first match, a list API collects every match (no break / early return).
* regex helpers (``get_method`` ...): ``re.compile(<name parameter>).match(x)`` where x
  is the item's *name getter* (an attribute only if the constructor always sets it to
  the same value as the getter).

Shapes outside these families raise AnalysisError (exit 2).
"""
from __future__ import annotations

import ast

from .absint import Sym, Obj, Raised, explore
from .dexmodel import DexInterp, StreamV, CallGraph, bind_ctor_args, prov
from .model import DEX, AnalysisError, walk_no_nested, parent

# helper -> (family, element class, [role getter of each parameter, in order])
LOOKUPS = {
    "get_class": ("scan-one", "ClassDefItem", ["get_name"]),
    "get_encoded_methods_class_method": ("scan-one", "EncodedMethod", ["get_class_name", "get_name"]),
    "get_encoded_methods_class": ("scan-list", "EncodedMethod", ["get_class_name"]),
    "get_encoded_fields_class": ("scan-list", "EncodedField", ["get_class_name"]),
    "get_encoded_method_descriptor": ("cache", "EncodedMethod", ["get_class_name", "get_name", "get_descriptor"]),
    "get_encoded_field_descriptor": ("cache", "EncodedField", ["get_class_name", "get_name", "get_descriptor"]),
    "get_encoded_method_by_idx": ("cache", "EncodedMethod", ["get_method_idx"]),
    "get_field": ("regex", "FieldIdItem", ["get_name"]),
    "get_method": ("regex", "MethodIdItem", ["get_name"]),
    "get_encoded_field": ("regex", "EncodedField", ["get_name"]),
    "get_encoded_method": ("regex", "EncodedMethod", ["get_name"]),
}


class Ctx:
    pass


def check_lookups(ctx, repo, folder):
    m = repo.mod(DEX)
    dex = m.cls("DEX")
    L = Ctx()
    L.ctx, L.repo, L.folder, L.m, L.dex = ctx, repo, folder, m, dex
    L.cg = CallGraph(repo)
    L._attr_role = {}
    n = 0
    for name, (family, ename, roles) in LOOKUPS.items():
        f = dex.methods.get(name)
        if f is None:
            continue
        n += 1
        ctx.analysed(f)
        params = f.params()[1:]
        if len(params) != len(roles):
            raise AnalysisError("DEX.%s takes %d parameters, the role table has %d" % (name, len(params), len(roles)))
        role_of = dict(zip(params, roles))
        L.cand_roles = set(roles)
        elem = m.cls(ename)
        for r in roles:
            ctx.require(elem.lookup(r) is not None, "anchor vanished: %s.%s" % (ename, r))
        if family == "cache":
            check_cache(L, f, elem, role_of)
        elif family in ("scan-one", "scan-list"):
            check_scan(L, f, elem, role_of, family == "scan-list")
        else:
            check_regex(L, f, elem, role_of)
        ctx.count("lookup_helpers")
    return n


# ---------------------------------------------------------------------------
# key terms
def single_defs(f, name):
    out = []
    for n in walk_no_nested(f.node):
        if isinstance(n, ast.Assign):
            for t in n.targets:
                if isinstance(t, ast.Name) and t.id == name:
                    out.append(n.value)
                elif any(isinstance(x, ast.Name) and x.id == name and isinstance(x.ctx, ast.Store) for x in ast.walk(t)):
                    out.append(None)
        elif isinstance(n, (ast.AugAssign, ast.AnnAssign)) and isinstance(n.target, ast.Name) and n.target.id == name:
            out.append(None)
    return out


def attr_is_role(L, elem, attr):
    """role getter g such that <item>.attr always equals <item>.g() right after construction, else None"""
    key = (elem.name, attr, tuple(sorted(L.cand_roles)))
    if key in L._attr_role:
        return L._attr_role[key]
    res = None
    for g, gf in elem.methods.items():
        if not g.startswith("get_") or len(gf.params()) != 1 or g not in L.cand_roles:
            continue
        same = True
        seen = 0

        def run(asg, gf=gf):
            it = DexInterp(L.repo, L.folder, asg=dict(asg), construct=lambda c: False, inline_module=L.m)
            st = StreamV("buff", index=0)
            o = it.construct_obj(elem, bind_ctor_args(elem, st, Sym("cm")))
            if attr not in o.attrs:
                return None
            a = o.attrs[attr]
            return a, it.call_function(gf, [], recv=o)

        try:
            for asg, r in explore(run, max_paths=64):
                if isinstance(r, Raised) or r is None:
                    same = False
                    break
                a, v = r
                pa, pv = prov(a, opaque=[]), prov(v, opaque=[])
                if not pv or pa != pv:
                    same = False
                    break
                seen += 1
        except AnalysisError:
            same = False
        if same and seen:
            res = g
            break
    L._attr_role[key] = res
    return res


def term(L, f, e, item_vars, elem, role_of, depth=0):
    """key term of expression e.  item_vars: names bound to the candidate item."""
    if depth > 6:
        raise AnalysisError("%s: key expression too deep" % f.qualname)
    if isinstance(e, ast.Constant):
        return ("const", e.value)
    if isinstance(e, ast.Name):
        if e.id in item_vars:
            return ("item",)
        if e.id in role_of:
            if single_defs(f, e.id):
                raise AnalysisError("%s: parameter %s is reassigned" % (f.qualname, e.id))
            return ("param", e.id)
        ds = single_defs(f, e.id)
        if len(ds) == 1 and ds[0] is not None:
            return term(L, f, ds[0], item_vars, elem, role_of, depth + 1)
        raise AnalysisError("%s: local %r in a lookup key has no unique definition" % (f.qualname, e.id))
    if isinstance(e, ast.BinOp) and isinstance(e.op, ast.Add):
        parts = []
        for side in (e.left, e.right):
            t = term(L, f, side, item_vars, elem, role_of, depth + 1)
            parts.extend(t[1:] if t[0] == "cat" else [t])
        return ("cat",) + tuple(parts)
    if isinstance(e, (ast.Tuple, ast.List)):
        return ("tuple",) + tuple(term(L, f, x, item_vars, elem, role_of, depth + 1) for x in e.elts)
    if isinstance(e, ast.Attribute) and isinstance(e.value, ast.Name) and e.value.id in item_vars:
        g = attr_is_role(L, elem, e.attr)
        return ("role", g) if g else ("attr", e.attr)
    if isinstance(e, ast.Call):
        fn = e.func
        if isinstance(fn, ast.Attribute) and isinstance(fn.value, ast.Name) and fn.value.id in item_vars and not e.args and not e.keywords:
            return ("role", fn.attr)
        args = tuple(term(L, f, a, item_vars, elem, role_of, depth + 1) for a in e.args)
        if isinstance(fn, ast.Attribute):
            recv = fn.value
            if isinstance(recv, ast.Name) and recv.id in ("self", "cls") or isinstance(recv, ast.Name) and recv.id not in item_vars and recv.id not in role_of \
                    and not single_defs(f, recv.id):
                return ("call", ast.unparse(fn)) + args
            return ("method", fn.attr, term(L, f, recv, item_vars, elem, role_of, depth + 1)) + args
        return ("call", ast.unparse(fn)) + args
    if isinstance(e, ast.JoinedStr):
        parts = []
        for v in e.values:
            if isinstance(v, ast.Constant):
                if v.value:
                    parts.append(("const", v.value))
            elif isinstance(v, ast.FormattedValue) and v.format_spec is None and v.conversion == -1:
                parts.append(term(L, f, v.value, item_vars, elem, role_of, depth + 1))
            else:
                raise AnalysisError("%s: formatted key outside the fragment" % f.qualname)
        return ("cat",) + tuple(parts)
    if isinstance(e, ast.BinOp) and isinstance(e.op, ast.Mod) and isinstance(e.left, ast.Constant) and isinstance(e.left.value, str):
        right = e.right.elts if isinstance(e.right, ast.Tuple) else [e.right]
        return ("fmt", e.left.value) + tuple(term(L, f, x, item_vars, elem, role_of, depth + 1) for x in right)
    raise AnalysisError("%s: key expression %s outside the fragment" % (f.qualname, ast.unparse(e)[:60]))


def subst_params(t, role_of):
    if t[0] == "param":
        return ("role", role_of[t[1]])
    return tuple(subst_params(x, role_of) if isinstance(x, tuple) else x for x in t)


def show_term(t):
    k = t[0]
    if k == "role":
        return "item.%s()" % t[1]
    if k == "attr":
        return "item.%s" % t[1]
    if k == "param":
        return t[1]
    if k == "const":
        return repr(t[1])
    if k == "item":
        return "item"
    if k == "cat":
        return " + ".join(show_term(x) for x in t[1:])
    if k == "tuple":
        return "(" + ", ".join(show_term(x) for x in t[1:]) + ")"
    if k == "call":
        return "%s(%s)" % (t[1], ", ".join(show_term(x) for x in t[2:]))
    if k == "method":
        return "%s.%s(%s)" % (show_term(t[2]), t[1], ", ".join(show_term(x) for x in t[3:]))
    if k == "fmt":
        return "%r %% (%s)" % (t[1], ", ".join(show_term(x) for x in t[2:]))
    return str(t)


def elem_types(L, f, var):
    return [c.name for kind, c in L.cg.local_types(f).get(var, []) if kind == "inst"]


# ---------------------------------------------------------------------------
def self_attr_of(e):
    if isinstance(e, ast.Attribute) and isinstance(e.value, ast.Name) and e.value.id == "self":
        return e.attr
    return None


def check_cache(L, f, elem, role_of):
    ctx = L.ctx
    q = f.qualname
    # producer: self.<cache>[K] = v
    stores = []
    for n in walk_no_nested(f.node):
        if isinstance(n, ast.Assign) and len(n.targets) == 1 and isinstance(n.targets[0], ast.Subscript) and self_attr_of(n.targets[0].value):
            stores.append(n)
    if len(stores) != 1:
        raise AnalysisError("%s: expected exactly one store into the lookup cache, found %d" % (q, len(stores)))
    st = stores[0]
    cache = self_attr_of(st.targets[0].value)
    ctx.require(isinstance(st.value, ast.Name), "%s: cached value is not the loop item" % q)
    item = st.value.id
    loops = []
    p = parent(st)
    while p is not None and p is not f.node:
        if isinstance(p, ast.For):
            loops.append(p)
        p = parent(p)
    inner = loops[0] if loops else None
    ok_item = inner is not None and isinstance(inner.target, ast.Name) and inner.target.id == item
    ctx.check("lookup/producer", "%s stores the item" % q, ok_item, f, "%s cache value" % f.name,
              "%s: the cache stores %s, which is not the item the loop enumerates" % (q, item), node=st)
    if not ok_item:
        return
    tys = elem_types(L, f, item)
    if not tys:
        raise AnalysisError("%s: the class of the enumerated items could not be inferred" % q)
    ctx.check("lookup/producer", "%s enumerates %s" % (q, elem.name), tys == [elem.name], f, "%s cache items" % f.name,
              "%s fills its cache with %s objects; the API looks up %s" % (q, tys or "untyped", elem.name), node=inner,
              detail="for %s in %s  (%s)" % (item, ast.unparse(inner.iter)[:50], elem.name))
    outer_ok = len(loops) == 2 and isinstance(loops[1].iter, ast.Call) and ast.unparse(loops[1].iter.func) == "self.get_classes" \
        or len(loops) == 1 and isinstance(inner.iter, ast.Call) and ast.unparse(inner.iter.func) in ("self.get_encoded_methods", "self.get_encoded_fields")
    if not outer_ok:
        raise AnalysisError("%s: the cache is not filled from every class of self.get_classes() (shape outside the fragment)" % q)
    pt = term(L, f, st.targets[0].slice, {item}, elem, role_of)
    # consumer: self.<cache>.get(K) / self.<cache>[K] in Load context
    cons = []
    for n in walk_no_nested(f.node):
        if isinstance(n, ast.Call) and isinstance(n.func, ast.Attribute) and n.func.attr == "get" and self_attr_of(n.func.value) == cache and n.args:
            cons.append((n, n.args[0]))
        elif isinstance(n, ast.Subscript) and isinstance(n.ctx, ast.Load) and self_attr_of(n.value) == cache:
            cons.append((n, n.slice))
    if len(cons) != 1:
        raise AnalysisError("%s: expected exactly one lookup in the cache, found %d" % (q, len(cons)))
    node, kexpr = cons[0]
    ct = term(L, f, kexpr, set(), elem, role_of)
    used = set()

    def collect(t):
        if t[0] == "param":
            used.add(t[1])
        for x in t:
            if isinstance(x, tuple):
                collect(x)
    collect(ct)
    ctx.check("lookup/key", "%s uses every parameter" % q, used == set(role_of), f, "%s lookup key parameters" % f.name,
              "%s: the lookup key ignores %s" % (q, sorted(set(role_of) - used)), node=node)
    cs = subst_params(ct, role_of)
    ctx.check("lookup/key", "%s producer/consumer agreement" % q, cs == pt, f, "%s key: %s" % (f.name, show_term(ct)),
              "%s looks up  %s  but the cache is filled under  %s : the same item is not found under the key its own getters produce "
              "(components, order and transformations must agree on both sides)" % (q, show_term(cs), show_term(pt)),
              node=node, detail="consumer %s == producer %s" % (show_term(cs), show_term(pt)))
    # the lookup result is what is returned
    rets = [n for n in walk_no_nested(f.node) if isinstance(n, ast.Return) and n.value is not None]
    ok = any(node is r.value or any(x is node for x in ast.walk(r.value)) for r in rets)
    if not ok:
        raise AnalysisError("%s: the cache lookup is not what is returned (shape outside the fragment)" % q)


# ---------------------------------------------------------------------------
def comparisons(test):
    """flatten an and-conjunction -> list of leaf expressions"""
    if isinstance(test, ast.BoolOp) and isinstance(test.op, ast.And):
        out = []
        for v in test.values:
            out.extend(comparisons(v))
        return out
    return [test]


def find_scan(f):
    """-> (loop, [guard tests], action stmt) for the single for-loop of a scan helper (also list-comprehension form)"""
    loops = [n for n in walk_no_nested(f.node) if isinstance(n, (ast.For, ast.While))]
    comps = [n for n in walk_no_nested(f.node) if isinstance(n, (ast.ListComp, ast.GeneratorExp))]
    return loops, comps


def check_scan(L, f, elem, role_of, want_list):
    ctx = L.ctx
    q = f.qualname
    loops, comps = find_scan(f)
    tests, var, action_ok, structure = None, None, True, ""
    if len(loops) == 1 and isinstance(loops[0], ast.For) and not comps and isinstance(loops[0].target, ast.Name):
        lp = loops[0]
        var = lp.target.id
        tys = elem_types(L, f, var)
        # statements of the loop body
        body = [s for s in lp.body if not (isinstance(s, ast.Expr) and isinstance(s.value, ast.Constant))]
        if len(body) != 1 or not isinstance(body[0], ast.If) or body[0].orelse:
            raise AnalysisError("%s: loop body is not a single guarded action (shape outside the fragment)" % q)
        tests = []
        node = body[0]
        while True:
            tests.extend(comparisons(node.test))
            inner = [s for s in node.body if not (isinstance(s, ast.Expr) and isinstance(s.value, ast.Constant))]
            if len(inner) == 1 and isinstance(inner[0], ast.If) and not inner[0].orelse:
                node = inner[0]
                continue
            break
        acts = inner
        if want_list:
            good = len(acts) == 1 and isinstance(acts[0], ast.Expr) and isinstance(acts[0].value, ast.Call) \
                and isinstance(acts[0].value.func, ast.Attribute) and acts[0].value.func.attr == "append" \
                and len(acts[0].value.args) == 1 and isinstance(acts[0].value.args[0], ast.Name) and acts[0].value.args[0].id == var
            lst = acts[0].value.func.value.id if good and isinstance(acts[0].value.func.value, ast.Name) else None
            early = [a for a in acts if isinstance(a, (ast.Break, ast.Return, ast.Continue))] or \
                [n for s in lp.body for n in ast.walk(s) if isinstance(n, (ast.Break, ast.Return))]
            if early:
                ctx.check("lookup/scan", "%s collects every match" % q, False, f, "%s: early exit from the scan" % f.name,
                          "%s returns a list but leaves the scan at the first match (%s): later matching items are dropped" % (
                              q, type(early[0]).__name__.lower()), node=early[0])
                action_ok = False
            elif not good or lst is None:
                raise AnalysisError("%s: matching items are not appended to a result list (shape outside the fragment)" % q)
            else:
                rets = [n for n in walk_no_nested(f.node) if isinstance(n, ast.Return)]
                init = single_defs(f, lst)
                ok = len(rets) == 1 and isinstance(rets[0].value, ast.Name) and rets[0].value.id == lst \
                    and len(init) == 1 and isinstance(init[0], ast.List) and not init[0].elts
                if not ok:
                    raise AnalysisError("%s: result list is not `l = []; ...; return l` (shape outside the fragment)" % q)
        else:
            good = len(acts) == 1 and isinstance(acts[0], ast.Return) and isinstance(acts[0].value, ast.Name) and acts[0].value.id == var
            if not good:
                raise AnalysisError("%s: a match is not answered by `return <item>` (shape outside the fragment)" % q)
            after = [n for n in walk_no_nested(f.node) if isinstance(n, ast.Return) and n is not acts[0]]
            ok = all(n.value is None or (isinstance(n.value, ast.Constant) and n.value.value is None) for n in after)
            if not ok:
                raise AnalysisError("%s: fall-through return is not None (shape outside the fragment)" % q)
        it_expr = lp.iter
    elif not loops and len(comps) == 1 and want_list and len(comps[0].generators) == 1 and isinstance(comps[0].generators[0].target, ast.Name):
        g = comps[0].generators[0]
        var = g.target.id
        if not (isinstance(comps[0].elt, ast.Name) and comps[0].elt.id == var):
            raise AnalysisError("%s: comprehension does not collect the item itself" % q)
        tests = []
        for c in g.ifs:
            tests.extend(comparisons(c))
        tys = elem_types(L, f, var)
        it_expr = g.iter
    else:
        raise AnalysisError("%s: not a single scan loop (shape outside the fragment)" % q)
    if not tys:
        raise AnalysisError("%s: the class of the scanned items could not be inferred" % q)
    ctx.check("lookup/scan", "%s scans %s" % (q, elem.name), tys == [elem.name], f, "%s scanned items" % f.name,
              "%s scans %s objects (%s); the API returns %s" % (q, tys or "untyped", ast.unparse(it_expr)[:50], elem.name),
              detail="for %s in %s (%s)" % (var, ast.unparse(it_expr)[:50], elem.name))
    # the guard
    matched = {}
    for t in tests:
        bad = None
        if isinstance(t, ast.Compare) and len(t.ops) == 1:
            try:
                a = term(L, f, t.left, {var}, elem, role_of)
                b = term(L, f, t.comparators[0], {var}, elem, role_of)
            except AnalysisError:
                a = b = None
            sides = [a, b]
            par = next((x for x in sides if x and x[0] == "param"), None)
            oth = next((x for x in sides if x is not par), None)
            if par is not None and isinstance(t.ops[0], ast.Eq) and oth == ("role", role_of[par[1]]):
                matched[par[1]] = True
                ctx.ob("lookup/scan", "%s: %s" % (q, ast.unparse(t)), True, "%s == item.%s()" % (par[1], role_of[par[1]]))
                continue
            mentions = {x.id for x in ast.walk(t) if isinstance(x, ast.Name)} & set(role_of)
            if mentions:
                p0 = sorted(mentions)[0]
                bad = "%s is tested by `%s`; the lookup must select items with  %s == item.%s()" % (p0, ast.unparse(t)[:70], p0, role_of[p0])
        else:
            mentions = {x.id for x in ast.walk(t) if isinstance(x, ast.Name)} & set(role_of)
            if mentions:
                p0 = sorted(mentions)[0]
                bad = "%s is tested by `%s` instead of  %s == item.%s()" % (p0, ast.unparse(t)[:70], p0, role_of[p0])
        if bad is None:
            raise AnalysisError("%s: guard `%s` outside the fragment" % (q, ast.unparse(t)[:60]))
        ctx.check("lookup/scan", "%s guard" % q, False, f, "%s guard on %s" % (f.name, p0), "%s: %s" % (q, bad), node=t)
        matched[p0] = False
    missing = sorted(set(role_of) - set(matched))
    ctx.check("lookup/scan", "%s constrains every parameter" % q, not missing, f, "%s unconstrained parameters" % f.name,
              "%s returns items without comparing %s" % (q, missing),
              detail="all of %s compared with ==" % sorted(role_of))


# ---------------------------------------------------------------------------
def check_regex(L, f, elem, role_of):
    ctx = L.ctx
    q = f.qualname
    (pname, role), = role_of.items()
    loops, comps = find_scan(f)
    if len(loops) != 1 or not isinstance(loops[0], ast.For) or not isinstance(loops[0].target, ast.Name) or comps:
        raise AnalysisError("%s: not a single scan loop (shape outside the fragment)" % q)
    lp = loops[0]
    var = lp.target.id
    tys = elem_types(L, f, var)
    if not tys:
        raise AnalysisError("%s: the class of the scanned items could not be inferred" % q)
    ctx.check("lookup/scan", "%s scans %s" % (q, elem.name), tys == [elem.name], f, "%s scanned items" % f.name,
              "%s scans %s objects; the API returns %s" % (q, tys or "untyped", elem.name))
    body = [s for s in lp.body if not (isinstance(s, ast.Expr) and isinstance(s.value, ast.Constant))]
    if len(body) != 1 or not isinstance(body[0], ast.If) or body[0].orelse:
        raise AnalysisError("%s: loop body is not a single guarded append (shape outside the fragment)" % q)
    t = body[0].test
    acts = body[0].body
    good = len(acts) == 1 and isinstance(acts[0], ast.Expr) and isinstance(acts[0].value, ast.Call) and isinstance(acts[0].value.func, ast.Attribute) \
        and acts[0].value.func.attr == "append" and len(acts[0].value.args) == 1 and isinstance(acts[0].value.args[0], ast.Name) \
        and acts[0].value.args[0].id == var
    if not good:
        raise AnalysisError("%s: matching items are not appended to the result (shape outside the fragment)" % q)
    # prog.match(X) with prog = re.compile(param)   or   re.match(param, X)
    subject = None
    if isinstance(t, ast.Call) and isinstance(t.func, ast.Attribute) and t.func.attr == "match":
        recv = t.func.value
        if isinstance(recv, ast.Name) and recv.id == "re" and len(t.args) == 2 and isinstance(t.args[0], ast.Name) and t.args[0].id == pname:
            subject = t.args[1]
        elif isinstance(recv, ast.Name) and len(t.args) == 1:
            ds = single_defs(f, recv.id)
            if len(ds) == 1 and isinstance(ds[0], ast.Call) and ast.unparse(ds[0].func) == "re.compile" and len(ds[0].args) == 1 \
                    and isinstance(ds[0].args[0], ast.Name) and ds[0].args[0].id == pname:
                subject = t.args[0]
    if subject is None:
        raise AnalysisError("%s: guard is not re.compile(%s).match(<item name>) (shape outside the fragment)" % (q, pname))
    st = term(L, f, subject, {var}, elem, role_of)
    ok = st == ("role", role)
    why = ""
    if not ok:
        if st[0] == "attr":
            init = elem.lookup("__init__")
            has = any(isinstance(n, ast.Attribute) and n.attr == st[1] and isinstance(n.ctx, ast.Store) for c in elem.mro() for mm in c.methods.values()
                      for n in ast.walk(mm.node))
            why = ("%s objects have no attribute %r (AttributeError on every call)" % (elem.name, st[1])) if not has else \
                ("the attribute %s.%s is a cache that is not the name until the item is loaded (None right after parsing)" % (elem.name, st[1]))
        else:
            why = "it is %s" % show_term(st)
    ctx.check("lookup/name-role", "%s matches the name" % q, ok, f, "%s: regex subject %s" % (f.name, show_term(st)),
              "%s matches the regular expression against %s, not against item.%s(): %s" % (q, show_term(st), role, why), node=t,
              detail="re.compile(%s).match(item.%s())" % (pname, role))
