"""Abstract interpreter over the bit-provenance / linear-form / symbolic domain.

Executes *abstractly* the small, loop-free (or constant-bounded) functions the
rules are about.  Nothing from the repository is executed concretely: values
are Bits (bit provenance), Lin (linear forms over opaque atoms), Sym (opaque
terms), Python constants folded from literals, tuples/lists of those, and Obj
(an abstract instance).  Conditions that depend on a few source bits split the
path (re-execution under an assignment of those bits).
"""
from __future__ import annotations

import ast
import time as _time
import itertools
import struct as _struct

from .bits import Bits, N, TOP, parse_format, src_byte, field_bits
from .consts import Folder, Ref, EnumVal, Unknown, is_unknown
from .model import AnalysisError, Cls, Func, Module

MAX_SPLIT_BITS = 10
MAX_PATHS = 20000
MAX_DEPTH = 6


class Split(Exception):
    def __init__(self, keys):
        self.keys = list(keys)


class _Return(Exception):
    def __init__(self, value):
        self.value = value


class Raised(Exception):
    """abstract exception raised by the analysed code"""

    def __init__(self, exc, node=None, detail=""):
        self.exc = exc  # exception class name
        self.node = node
        self.detail = detail

    def __str__(self):
        return "%s(%s)" % (self.exc, self.detail)


class _Break(Exception):
    pass


class _Continue(Exception):
    pass


class Sym:
    """opaque term"""

    __slots__ = ("op", "args", "_h")

    def __init__(self, op, *args):
        self.op = op
        self.args = tuple(args)
        self._h = None

    def __repr__(self):
        if not self.args:
            return str(self.op)
        return "%s(%s)" % (self.op, ", ".join(show(a) for a in self.args))

    def __eq__(self, o):
        return isinstance(o, Sym) and self.op == o.op and self.args == o.args

    def __hash__(self):
        if self._h is None:
            try:
                self._h = hash((self.op, self.args))
            except TypeError:
                self._h = hash((self.op, repr(self.args)))
        return self._h


class Lin:
    """linear form  sum(coeff*atom) + const ; atoms are Bits or Sym"""

    __slots__ = ("terms", "const")

    def __init__(self, terms, const=0):
        self.terms = {a: c for a, c in terms.items() if c != 0}
        self.const = const

    @staticmethod
    def of(v):
        if isinstance(v, Lin):
            return v
        if isinstance(v, bool):
            return Lin({}, int(v))
        if isinstance(v, int):
            return Lin({}, int(v))
        if isinstance(v, Bits) and v.is_const():
            return Lin({}, v.value())
        if isinstance(v, (Bits, Sym)):
            return Lin({v: 1}, 0)
        return None

    def simplify(self):
        if not self.terms:
            return self.const
        if self.const == 0 and len(self.terms) == 1:
            (a, c), = self.terms.items()
            if c == 1:
                return a
        return self

    def __add__(self, o):
        t = dict(self.terms)
        for a, c in o.terms.items():
            t[a] = t.get(a, 0) + c
        return Lin(t, self.const + o.const)

    def scale(self, k):
        return Lin({a: c * k for a, c in self.terms.items()}, self.const * k)

    def __eq__(self, o):
        return isinstance(o, Lin) and self.terms == o.terms and self.const == o.const

    def __hash__(self):
        return hash((frozenset(self.terms.items()), self.const))

    def __repr__(self):
        parts = []
        for a, c in sorted(self.terms.items(), key=lambda kv: show(kv[0])):
            parts.append(("%d*" % c if c != 1 else "") + show(a))
        if self.const or not parts:
            parts.append(str(self.const))
        return "(" + " + ".join(parts) + ")"


class Obj:
    def __init__(self, cls: Cls | None, name="obj"):
        self.cls = cls
        self.attrs = {}
        self.name = name

    def __repr__(self):
        return "<%s %s>" % (self.cls.name if self.cls else "?", self.name)


class BufV:
    """the input byte buffer (or a slice of it): bytes start.. ; length None = unbounded"""

    def __init__(self, name, start=0, length=None):
        self.name = name
        self.start = start
        self.length = length

    def __repr__(self):
        return "%s[%s:%s]" % (self.name, self.start, "" if self.length is None else self.start + self.length)


class BytesV:
    """abstract bytes value: list of per-byte bit tuples"""

    def __init__(self, bytes_):
        self.bytes = list(bytes_)

    def __repr__(self):
        return "bytes[%d]" % len(self.bytes)


class StreamV:
    """a binary stream positioned over an abstract byte source.
    `backing`: None -> fresh source bytes ('s', k, i); or a BytesV to read from."""

    def __init__(self, name="buff", backing=None):
        self.name = name
        self.pos = 0
        self.backing = backing
        self.reads = []

    def __repr__(self):
        return "<stream %s @%s>" % (self.name, self.pos)


class StrV:
    """abstract string: list of character codes (int | Bits | Lin)"""

    def __init__(self, chars):
        self.chars = list(chars)

    @staticmethod
    def of(v):
        if isinstance(v, StrV):
            return v
        if isinstance(v, str):
            return StrV([ord(c) for c in v])
        return None

    def __repr__(self):
        return "str[" + " ".join(chr(c) if isinstance(c, int) and 32 <= c < 127 else show(c) for c in self.chars) + "]"


class PackerV:
    def __init__(self, fmt):
        self.fmt = fmt


class Bound:
    def __init__(self, recv, func: Func):
        self.recv = recv
        self.func = func


class Comp:
    """a comprehension over a non-constant iterable, kept symbolically"""

    def __init__(self, kind, elt, var, iterv, conds=()):
        self.kind, self.elt, self.var, self.iter, self.conds = kind, elt, var, iterv, tuple(conds)

    def __repr__(self):
        return "[%s for %s in %s]" % (show(self.elt), self.var, show(self.iter))


def show(v):
    if isinstance(v, Bits):
        return "<" + v.describe() + ">"
    if isinstance(v, (tuple, list)):
        s = ", ".join(show(x) for x in v)
        return ("(%s)" if isinstance(v, tuple) else "[%s]") % s
    return repr(v)


def is_exact(v):
    """the abstract value carries no unknown part (no opaque term, no unknown bit)"""
    if isinstance(v, Bits):
        return not v.has_top()
    if isinstance(v, (Sym, Lin, CondV, Comp)):
        return False
    if isinstance(v, (list, tuple)):
        return all(is_exact(x) for x in v)
    if isinstance(v, BytesV):
        return all(b != TOP for by in v.bytes for b in by)
    if isinstance(v, StrV):
        return all(is_exact(c) for c in v.chars)
    return True


_OPAQUE_OPS = ("call", "index", "attr", "name", "global", "expr", "localdef", "slice", "item", "unpacked", "deep-call", "param",
               "elem", "star", "modattr", "module", "comp", "dict", "set", "getattr", "new", "fstring")


def has_opaque(v, allow=()):
    """the value contains a term the interpreter could not evaluate (a call it did not follow, an unknown name ...);
    `allow`: names of calls that are opaque on purpose"""
    if isinstance(v, Sym):
        if v.op in _OPAQUE_OPS:
            if v.op == "call" and v.args and (v.args[0] in allow or (isinstance(v.args[0], Sym) and v.args[0].op == "attr" and v.args[0].args[-1] in allow)):
                return any(has_opaque(a, allow) for a in v.args[1:])
            return True
        return any(has_opaque(a, allow) for a in v.args)
    if isinstance(v, Bits):
        return v.has_top()
    if isinstance(v, Lin):
        return any(has_opaque(a, allow) for a in v.terms)
    if isinstance(v, (list, tuple)):
        return any(has_opaque(x, allow) for x in v)
    if isinstance(v, (CondV, Comp)):
        return True
    if isinstance(v, StrV):
        return any(has_opaque(c, allow) for c in v.chars)
    return False


def plain_strformat(tmpl, args, style):
    """'{}-r{}'.format(a, b) / f'{a}-r{b}' / '%s-r%s' % (a, b) with abstract-string arguments and no format specs is a
    concatenation -> StrV; None when the template does anything else"""
    if not isinstance(tmpl, str):
        return None
    args = list(args) if isinstance(args, (tuple, list)) else [args]
    if not all(isinstance(a, (str, StrV)) for a in args) or not any(isinstance(a, StrV) for a in args):
        return None
    chars, used = [], 0
    if style == "format":
        import string as _string
        try:
            fields = list(_string.Formatter().parse(tmpl))
        except ValueError:
            return None
        auto = None
        for lit, name, spec, conv in fields:
            chars += [ord(c) for c in lit]
            if name is None:
                continue
            if spec or conv not in (None, "s"):
                return None
            if name == "":
                if auto is False:
                    return None
                auto, idx = True, used
                used += 1
            elif name.isdigit():
                if auto is True:
                    return None
                auto, idx = False, int(name)
            else:
                return None
            if idx >= len(args):
                return None
            chars += StrV.of(args[idx]).chars
        return StrV(chars)
    i = 0
    while i < len(tmpl):
        c = tmpl[i]
        if c != "%":
            chars.append(ord(c))
            i += 1
            continue
        nxt = tmpl[i + 1:i + 2]
        if nxt == "%":
            chars.append(ord("%"))
        elif nxt == "s" and used < len(args):
            chars += StrV.of(args[used]).chars
            used += 1
        else:
            return None
        i += 2
    return StrV(chars) if used == len(args) else None


def _key_relation(a, b):
    """'equal' | 'different' | 'unknown' for two abstract dictionary keys"""
    if isinstance(a, tuple) and isinstance(b, tuple):
        if len(a) != len(b):
            return "different"
        rs = [_key_relation(x, y) for x, y in zip(a, b)]
        return "different" if "different" in rs else "equal" if all(r == "equal" for r in rs) else "unknown"
    if isinstance(a, tuple) != isinstance(b, tuple):
        return "different" if _pyconst(a) or _pyconst(b) or isinstance(a, Bits) or isinstance(b, Bits) else "unknown"
    ba = a if isinstance(a, Bits) else Bits.const(a) if isinstance(a, int) and not isinstance(a, bool) else None
    bb = b if isinstance(b, Bits) else Bits.const(b) if isinstance(b, int) and not isinstance(b, bool) else None
    if ba is not None and bb is not None:
        if ba == bb:
            return "equal"
        for x, y in zip(ba.b, bb.b):
            if x in (0, 1) and y in (0, 1) and x != y:
                return "different"
        return "unknown"
    if _pyconst(a) and _pyconst(b):
        try:
            return "equal" if a == b else "different"
        except Exception:
            return "unknown"
    if (isinstance(a, str) and bb is not None) or (isinstance(b, str) and ba is not None):
        return "different"
    return "unknown"


def as_bits(v):
    if isinstance(v, Bits):
        return v
    if isinstance(v, bool):
        return Bits.const(int(v))
    if isinstance(v, int):
        return Bits.const(int(v))
    return None



def record_fields(cls):
    """(kind, [(field, default_expr | None)]) for a NamedTuple subclass or a @dataclass without an explicit __init__; None otherwise"""
    decos = {d.id if isinstance(d, ast.Name) else getattr(d, "attr", None) if not isinstance(d, ast.Call) else
             (d.func.id if isinstance(d.func, ast.Name) else getattr(d.func, "attr", None)) for d in cls.node.decorator_list}
    is_nt = any(b == "NamedTuple" for b in cls.base_names)
    is_dc = "dataclass" in decos
    if not (is_nt or is_dc) or "__init__" in cls.methods:
        return None
    fields = []
    for c in reversed(cls.mro()):
        for n in c.node.body:
            if isinstance(n, ast.AnnAssign) and isinstance(n.target, ast.Name):
                ann = ast.unparse(n.annotation)
                if ann.startswith("ClassVar") or ann.startswith("typing.ClassVar"):
                    continue
                fields = [f for f in fields if f[0] != n.target.id] + [(n.target.id, n.value)]
    return ("namedtuple" if is_nt else "dataclass"), fields


class Interp:
    def __init__(self, repo, folder: Folder | None = None, asg=None, hooks=None, unknown_cond="split"):
        self.repo = repo
        self.folder = folder or Folder(repo)
        self.asg = asg if asg is not None else {}
        self.hooks = hooks or {}
        self.unknown_cond = unknown_cond
        self.depth = 0
        self.events = []  # (kind, payload) recorded side effects: pack checks, calls ...
        self.cond_counter = {}
        self.fresh_counter = itertools.count()
        self.steps = 0
        self.path = []  # (condition text, outcome) for choice splits
        self._yields = []  # stack of yield collectors (generator functions are evaluated eagerly)
        self.max_split = MAX_SPLIT_BITS  # widest set of source bits enumerated for one condition

    # ------------------------------------------------------------------
    def fresh_bytes(self, start, n, tag=None):
        return [[self._src(start + k, i) for i in range(8)] for k in range(n)]

    def _src(self, k, i):
        key = ("s", k, i)
        if key in self.asg:
            return self.asg[key]
        return key

    def new_obj(self, cls, name="self"):
        return Obj(cls, name)

    # ------------------------------------------------------------------
    def call_function(self, func: Func, args, kwargs=None, recv=None):
        if self.depth >= MAX_DEPTH:
            return Sym("deep-call", func.qualname)
        env = {}
        a = func.node.args
        params = [x.arg for x in a.posonlyargs + a.args]
        vals = list(args)
        decos = {d.id if isinstance(d, ast.Name) else getattr(d, "attr", None) for d in func.node.decorator_list}
        if "staticmethod" in decos:
            recv = None
        elif "classmethod" in decos and func.cls is not None:
            recv = Ref("class", recv.cls if isinstance(recv, Obj) and recv.cls is not None else func.cls)
        if recv is not None:
            vals = [recv] + vals
        defaults = list(a.defaults)
        ndef = len(defaults)
        for i, p in enumerate(params):
            if i < len(vals):
                env[p] = vals[i]
            elif kwargs and p in kwargs:
                env[p] = kwargs[p]
            else:
                di = i - (len(params) - ndef)
                if 0 <= di < ndef:
                    env[p] = self.eval(defaults[di], self.class_scope(func.cls, defaults[di]), func)
                else:
                    env[p] = Sym("param", p)
        for kw, d in zip(a.kwonlyargs, a.kw_defaults):
            if kwargs and kw.arg in kwargs:
                env[kw.arg] = kwargs[kw.arg]
            elif d is not None:
                env[kw.arg] = self.eval(d, self.class_scope(func.cls, d), func)
        env["__func__"] = func
        self.depth += 1
        is_gen = _is_generator(func.node)
        if is_gen:
            self._yields.append([])
        try:
            self.exec_block(func.node.body, env, func)
            return self._yields[-1] if is_gen else None
        except _Return as r:
            return self._yields[-1] if is_gen else r.value
        finally:
            if is_gen:
                self._last_yields = self._yields.pop()
            self.depth -= 1

    # ------------------------------------------------------------------
    def exec_block(self, stmts, env, func):
        for s in stmts:
            self.exec_stmt(s, env, func)

    def exec_stmt(self, s, env, func):
        self.steps += 1
        if self.steps > 150_000:
            raise AnalysisError("abstract interpretation step budget exceeded in %s" % func.qualname)
        if DEADLINE is not None and (self.steps & 255) == 0 and _time.time() > DEADLINE:
            raise AnalysisError("abstract interpretation exceeded the wall-clock budget of the %s tier in %s (the code under analysis makes the "
                                "abstract execution explode; no verdict)" % (TIER_NAME, func.qualname))
        if isinstance(s, ast.Expr):
            if isinstance(s.value, ast.Constant):
                return
            self.eval(s.value, env, func)
        elif isinstance(s, ast.Assign):
            v = self.eval(s.value, env, func)
            for t in s.targets:
                self.assign(t, v, env, func)
        elif isinstance(s, ast.AnnAssign):
            if s.value is not None:
                self.assign(s.target, self.eval(s.value, env, func), env, func)
        elif isinstance(s, ast.AugAssign):
            cur = self.eval(_load(s.target), env, func)
            v = self.binop(s.op, cur, self.eval(s.value, env, func), s)
            self.assign(s.target, v, env, func)
        elif isinstance(s, ast.If):
            if self.truth(self.eval(s.test, env, func), s.test, func):
                self.exec_block(s.body, env, func)
            else:
                self.exec_block(s.orelse, env, func)
        elif isinstance(s, ast.Return):
            raise _Return(self.eval(s.value, env, func) if s.value is not None else None)
        elif isinstance(s, ast.Raise):
            name = "Exception"
            detail = ""
            if s.exc is not None:
                e = s.exc
                if isinstance(e, ast.Call):
                    name = ast.unparse(e.func)
                    if e.args and isinstance(e.args[0], ast.Constant):
                        detail = str(e.args[0].value)[:60]
                else:
                    name = ast.unparse(e)
                    v = env.get(name)
                    if isinstance(v, Sym) and v.op == "exc":
                        name = v.args[0]
            else:
                cur = env.get("__exc__")
                if cur:
                    name = cur
            raise Raised(name, s, detail)
        elif isinstance(s, ast.Pass):
            return
        elif isinstance(s, ast.For):
            self.exec_for(s, env, func)
        elif isinstance(s, ast.While):
            self.exec_while(s, env, func)
        elif isinstance(s, ast.Try):
            self.exec_try(s, env, func)
        elif isinstance(s, ast.Break):
            raise _Break()
        elif isinstance(s, ast.Continue):
            raise _Continue()
        elif isinstance(s, ast.Assert):
            if not self.truth(self.eval(s.test, env, func), s.test, func):
                raise Raised("AssertionError", s)
        elif isinstance(s, (ast.Import, ast.ImportFrom, ast.Global, ast.Nonlocal)):
            return
        elif isinstance(s, ast.With):
            for it in s.items:
                v = self.eval(it.context_expr, env, func)
                if it.optional_vars is not None:
                    self.assign(it.optional_vars, v, env, func)
            self.exec_block(s.body, env, func)
        elif isinstance(s, ast.FunctionDef):
            env[s.name] = LocalFuncV(s, env, func)
        elif isinstance(s, ast.ClassDef):
            env[s.name] = Sym("localdef", s.name)
        elif isinstance(s, ast.Delete):
            return
        else:
            raise AnalysisError("%s: statement outside the interpreter's fragment: %s" % (func.loc(s), type(s).__name__))

    def exec_for(self, s, env, func):
        it = self.eval(s.iter, env, func)
        seq = self.concrete_iter(it)
        if seq is None:
            # symbolic iteration: body once with an opaque element
            self.events.append(("symbolic-loop", (func.qualname, ast.unparse(s.iter))))
            SOFT_EVENTS.append("loop over a sequence the interpreter could not enumerate: `for ... in %s` in %s" % (ast.unparse(s.iter)[:60], func.qualname))
            self.assign(s.target, Sym("elem", it), env, func)
            try:
                self.exec_block(s.body, env, func)
            except (_Break, _Continue):
                pass
            return
        broke = False
        for item in seq:
            self.assign(s.target, item, env, func)
            try:
                self.exec_block(s.body, env, func)
            except _Break:
                broke = True
                break
            except _Continue:
                continue
        if not broke:
            self.exec_block(s.orelse, env, func)

    def exec_while(self, s, env, func):
        n = 0
        test_names = {x.id for x in ast.walk(s.test) if isinstance(x, ast.Name)}
        seen = set()
        while True:
            npath, nasg = len(self.path), len(self.asg)
            if not self.truth(self.eval(s.test, env, func), s.test, func):
                self.exec_block(s.orelse, env, func)
                return
            # definite non-termination: the test was decided without any choice and the whole
            # non-accumulator state repeats
            if npath == len(self.path) and nasg == len(self.asg):
                acc = {k for k, v in env.items() if isinstance(v, (BytesV, list, bytearray))}
                if not (acc & test_names):
                    snap = tuple(sorted((k, show(v.subst(self.asg) if isinstance(v, Bits) else v)) for k, v in env.items()
                                        if k not in acc and not k.startswith("__")))
                    if snap in seen:
                        raise Raised("NonTermination", s, "loop state repeats with the test true")
                    seen.add(snap)
            n += 1
            if n > 2048:
                raise AnalysisError("%s: while loop not bounded by abstract evaluation" % func.loc(s))
            try:
                self.exec_block(s.body, env, func)
            except _Break:
                return
            except _Continue:
                continue

    def exec_try(self, s, env, func):
        try:
            try:
                self.exec_block(s.body, env, func)
            except Raised as r:
                for h in s.handlers:
                    if self.handler_matches(h, r.exc):
                        if h.name:
                            env[h.name] = Sym("exc", r.exc)
                        old = env.get("__exc__")
                        env["__exc__"] = r.exc
                        try:
                            self.exec_block(h.body, env, func)
                        finally:
                            env["__exc__"] = old
                        break
                else:
                    raise
            else:
                self.exec_block(s.orelse, env, func)
        finally:
            if s.finalbody:
                self.exec_block(s.finalbody, env, func)

    def handler_matches(self, h, exc):
        if h.type is None:
            return True
        names = [ast.unparse(t) for t in (h.type.elts if isinstance(h.type, ast.Tuple) else [h.type])]
        short = exc.split(".")[-1]
        for n in names:
            ns = n.split(".")[-1]
            if ns in ("Exception", "BaseException") or ns == short:
                return True
        return False

    def concrete_iter(self, it):
        if isinstance(it, Obj) and "__record_fields__" in it.attrs:
            return [it.attrs[f] for f in it.attrs["__record_fields__"]]
        if isinstance(it, (list, tuple)):
            return list(it)
        if isinstance(it, range):
            if len(it) > 4096:
                return None
            return list(it)
        if isinstance(it, (str, bytes)):
            return list(it)
        if isinstance(it, dict):
            return list(it)
        if isinstance(it, (set, frozenset)):
            return sorted(it, key=repr)
        if isinstance(it, BufV) and it.length is not None and it.length <= 64:
            return [Bits.source([self._src(it.start + k, i) for i in range(8)], False) for k in range(it.length)]
        if isinstance(it, BytesV):
            return [Bits.source(list(b), False) for b in it.bytes]
        if isinstance(it, StrV):
            return [StrV([c]) for c in it.chars]
        if isinstance(it, Sym) and it.op == "range" and len(it.args) in (1, 2):
            lo, hi = (0, it.args[0]) if len(it.args) == 1 else it.args
            la, lb = Lin.of(_int(lo)), Lin.of(_int(hi))
            if la is not None and lb is not None:
                d = lb + la.scale(-1)
                if not d.terms and 0 <= d.const <= 4096:
                    return [(la + Lin({}, i)).simplify() for i in range(d.const)]
                if not d.terms and d.const < 0:
                    return []
        return None

    # ------------------------------------------------------------------
    def mangle(self, name, func):
        if name.startswith("__") and not name.endswith("__") and func is not None and func.cls is not None:
            return "_%s%s" % (func.cls.name.lstrip("_"), name)
        return name

    def assign(self, t, v, env, func):
        if isinstance(t, ast.Name):
            env[t.id] = v
        elif isinstance(t, ast.Attribute):
            o = self.eval(t.value, env, func)
            if isinstance(o, Obj):
                o.attrs[self.mangle(t.attr, func)] = v
            else:
                self.events.append(("attr-store", (show(o), t.attr, v)))
        elif isinstance(t, (ast.Tuple, ast.List)):
            vals = self.unpack_seq(v, len(t.elts), t, func)
            for tt, vv in zip(t.elts, vals):
                self.assign(tt, vv, env, func)
        elif isinstance(t, ast.Subscript):
            o = self.eval(t.value, env, func)
            k = self.eval(t.slice, env, func)
            if isinstance(o, (dict, list)):
                try:
                    kk = k.value() if isinstance(k, Bits) and k.is_const() else k
                    o[kk] = v
                    return
                except Exception:
                    pass
            self.events.append(("item-store", (show(o), show(k), v)))
        elif isinstance(t, ast.Starred):
            self.assign(t.value, v, env, func)
        else:
            raise AnalysisError("%s: assignment target outside fragment" % func.loc(t))

    def unpack_seq(self, v, n, node, func):
        if isinstance(v, (tuple, list)):
            if len(v) != n:
                raise Raised("ValueError", node, "unpack %d values into %d" % (len(v), n))
            return list(v)
        return [Sym("item", v, i) for i in range(n)]

    # ------------------------------------------------------------------
    def truth(self, v, node, func):
        if isinstance(v, Bits):
            v = v.subst(self.asg)
            if v.is_const():
                return v.value() != 0
            srcs = [s for s in v.sources()]
            if not v.has_top() and 0 < len(srcs) <= self.max_split:
                raise Split(srcs)
            if not v.has_top():
                r = self._cmp_bits_const(ast.NotEq(), v, 0)
                if isinstance(r, bool):
                    return r
                if isinstance(r, CondV):
                    return self.truth_cond(r, node, func)
            return self.unknown(v, node, func)
        if isinstance(v, (Sym, Lin, Comp, Obj, BufV)) or is_unknown(v):
            if isinstance(v, Obj):
                return True
            return self.unknown(v, node, func)
        if isinstance(v, BytesV):
            return len(v.bytes) > 0
        if isinstance(v, StrV):
            return len(v.chars) > 0
        if isinstance(v, CondV):
            return self.truth_cond(v, node, func)
        try:
            return bool(v)
        except Exception:
            return self.unknown(v, node, func)

    def unknown(self, v, node, func, kind="c"):
        """choice point on a condition that is not decided by the current assignment.  kind 'c': the condition is opaque to the
        interpreter (either outcome may be infeasible); kind 'r': an exact comparison decided by two-way refinement (each outcome pins
        the source bits that make it true, so both outcomes are realised by some input)"""
        if self.unknown_cond == "error":
            raise AnalysisError("%s: condition %s does not evaluate in the abstract domain (%s)" % (
                func.loc(node), ast.unparse(node)[:80], show(v)[:80]))
        txt = "%s|%s" % (func.qualname, ast.unparse(node))
        n = self.cond_counter.get(txt, 0)
        self.cond_counter[txt] = n + 1
        key = (kind, txt, n)
        if kind == "c" and isinstance(v, CondV) and v.op in _PYOPS and _exact_operand(v.a) and _exact_operand(v.b):
            # an exact comparison the interpreter cannot refine (too many source bits): remembered, so that the feasibility of a
            # path through it can be established later by a concrete witness (path_witness)
            COND_INFO[key] = v
        if key in self.asg:
            return bool(self.asg[key])
        raise Split([key])

    def truth_cond(self, c, node, func):
        r = self._truth_cond(c, node, func)
        c.outcome = r
        return r

    def _truth_cond(self, c, node, func):
        # comparison of bit values that needs a split
        if getattr(c, "outcome", None) is not None:
            return c.outcome
        ev = self.truth_cond_eval(c)
        if ev is not None:
            return ev
        if c.keys is not None:
            keys = [k for k in c.keys if k not in self.asg]
            if keys and len(keys) <= self.max_split:
                raise Split(keys)
        if c.refine is not None:
            outcome = self.unknown(c, node, func, kind="r")
            for want, pins in c.refine:
                if outcome == want:
                    for k, v in pins.items():
                        if k in self.asg and self.asg[k] != v:
                            raise AnalysisError("%s: inconsistent refinement" % func.loc(node))
                        self.asg[k] = v
            self.path.append((ast.unparse(node), outcome))
            return outcome
        srcs = []
        for x in (c.a, c.b):
            if isinstance(x, Bits):
                if x.has_top():
                    return self.unknown(c, node, func)
                srcs += [s for s in x.sources() if s not in srcs]
            elif not isinstance(x, int):
                return self.unknown(c, node, func)
        if not srcs:
            return self.unknown(c, node, func)
        if len(srcs) > self.max_split:
            return self.unknown(c, node, func)
        raise Split(srcs)

    # ------------------------------------------------------------------
    def eval(self, e, env, func):
        m = getattr(self, "e_" + type(e).__name__, None)
        if m is None:
            return Sym("expr", ast.unparse(e)[:80])
        return m(e, env, func)

    def e_Constant(self, e, env, func):
        return e.value

    def e_Yield(self, e, env, func):
        v = self.eval(e.value, env, func) if e.value is not None else None
        h = self.hooks.get("yield")
        if h:
            h(self, v, e, func)
        if self._yields:
            self._yields[-1].append(v)
        return None

    def e_YieldFrom(self, e, env, func):
        v = self.eval(e.value, env, func)
        seq = self.concrete_iter(v)
        if seq is None:
            seq = [Sym("yield-from", v)]
        for x in seq:
            if self._yields:
                self._yields[-1].append(x)
        return None

    def e_Name(self, e, env, func):
        if e.id in env:
            return env[e.id]
        if e.id in ("True", "False", "None"):
            return {"True": True, "False": False, "None": None}[e.id]
        h = self.hooks.get("global")
        if h:
            r = h(self, e.id, func)
            if r is not NotImplemented:
                return r
        if func is not None:
            r = func.module.resolve_name(e.id)
            if r is not None:
                if r[0] == "class":
                    return Ref("class", r[1])
                if r[0] == "func":
                    return Ref("func", r[1])
                if r[0] == "const":
                    v = self.folder.global_(func.module, e.id)
                    if not is_unknown(v):
                        if isinstance(v, (dict, list, set)):
                            # module-level containers are state: every interpreter (= every scenario) starts from the module's initial
                            # value, and mutations made by the analysed code stay visible for the rest of that scenario only
                            cache = self.__dict__.setdefault("_gcache", {})
                            key = (r[1].relpath, e.id)
                            if key not in cache:
                                cache[key] = v.copy()
                            return cache[key]
                        return v
                    key = (r[1].relpath, e.id)
                    cache = self.__dict__.setdefault("_gcache", {})
                    if key not in cache:
                        cache[key] = Sym("global", e.id)
                        try:
                            cache[key] = self.eval(r[2], {}, _ModuleCtx(r[1]))
                        except (Split, Raised):
                            cache[key] = Sym("global", e.id)
                    return cache[key]
                if r[0] == "module":
                    return Sym("module", e.id)
        return Sym("name", e.id)

    def e_Attribute(self, e, env, func):
        base = self.eval(e.value, env, func)
        attr = self.mangle(e.attr, func)
        h = self.hooks.get("attr")
        if h:
            r = h(self, base, attr, func)
            if r is not NotImplemented:
                return r
        if isinstance(base, PackerV) and attr == "size":
            try:
                return _struct.calcsize(base.fmt)
            except _struct.error as ex:
                raise Raised("struct.error", e, str(ex))
        if isinstance(base, PackerV) and attr == "format":
            return base.fmt
        if isinstance(base, Obj):
            if attr in base.attrs:
                return base.attrs[attr]
            if base.cls is not None:
                f = base.cls.lookup(attr)
                if f is not None:
                    return Bound(base, f)
                a = None
                for c in base.cls.mro():
                    if attr in c.attrs:
                        a = (c, c.attrs[attr])
                        break
                if a is not None:
                    v = self.class_attr_value(a[0], attr)
                    if v is not NotImplemented:
                        return v
            return Sym("attr", base.name, attr)
        if isinstance(base, Ref) and base.kind == "class":
            cls = base.obj
            if self.folder.is_enum(cls):
                mem = self.folder.enum_members(cls)
                if attr in mem:
                    return mem[attr]
            for c in cls.mro():
                if attr in c.attrs:
                    v = self.class_attr_value(c, attr)
                    if v is not NotImplemented:
                        return v
                    break
            f = cls.lookup(attr)
            if f is not None:
                decos = {d.id if isinstance(d, ast.Name) else getattr(d, "attr", None) for d in f.node.decorator_list}
                if "classmethod" in decos:
                    return Bound(Obj(cls, cls.name), f)
                return Ref("func", f)
        if isinstance(base, EnumVal) and attr == "value":
            return int(base)
        if isinstance(base, Sym) and base.op in ("module", "name") and base.args[0] == "sys" and attr == "maxsize":
            return 2 ** 63 - 1
        if isinstance(base, Sym) and base.op == "module":
            return Sym("modattr", base.args[0], attr)
        return Sym("attr", base, attr)

    def class_attr_value(self, cls, attr, _depth=0):
        """value of the class-body assignment `attr = expr` of `cls`: constant-folded, else evaluated in the class scope
        (names of earlier class-body assignments visible); NotImplemented when it cannot be evaluated"""
        expr = cls.attrs.get(attr)
        if expr is None:
            return NotImplemented
        key = (cls.module.relpath, cls.name, attr)
        cache = self.__dict__.setdefault("_ccache", {})
        if key in cache and cache[key] is not NotImplemented:
            return cache[key]
        v = self.folder.fold(expr, cls.module)
        if not is_unknown(v):
            if isinstance(v, (dict, list, set)):
                # class-level containers are state: one object per interpreter (= per scenario), mutations stay visible within it
                cache[key] = v
            return v
        if key not in cache:
            cache[key] = NotImplemented
            try:
                cache[key] = self.eval(expr, self.class_scope(cls, expr, _depth), _ModuleCtx(cls.module))
            except (Split, Raised):
                pass
        return cache[key]

    def class_scope(self, cls, expr, _depth=0):
        """environment holding the class-body names that `expr` (evaluated in the class body: a class attribute initialiser
        or a method's default argument) refers to"""
        env = {}
        if cls is None or _depth > 6:
            return env
        for n in ast.walk(expr):
            if isinstance(n, ast.Name) and n.id in cls.attrs and n.id not in env:
                v = self.class_attr_value(cls, n.id, _depth + 1)
                if v is not NotImplemented:
                    env[n.id] = v
            elif isinstance(n, ast.Name) and n.id in cls.methods and n.id not in env:
                env[n.id] = Ref("func", cls.methods[n.id])
        return env

    def _abstract_key(self, k):
        if isinstance(k, Bits):
            k = k.subst(self.asg) if self.asg else k
            return k.value() if k.is_const() else k
        if isinstance(k, tuple):
            return tuple(self._abstract_key(x) for x in k)
        return k

    def dict_lookup(self, d, k):
        """lookup with an abstract key: ('hit', value) when a structurally identical key is stored (the same abstract value is the same
        run-time value), ('miss', None) when the dict is empty or all keys are distinct constants, else ('unknown', None)"""
        k = self._abstract_key(k)
        try:
            hash(k)
        except TypeError:
            return "unknown", None
        if isinstance(k, (Sym, Lin, CondV, Comp)) and not d:
            return "miss", None
        keys = {}
        for x, v in d.items():
            keys[self._abstract_key(x)] = v
        if k in keys:
            return "hit", keys[k]
        if not d:
            return "miss", None
        if all(_key_relation(k, x) == "different" for x in keys):
            return "miss", None
        return "unknown", None

    def _display(self, e, env, func):
        out = []
        for x in e.elts:
            if isinstance(x, ast.Starred):
                v = self.eval(x.value, env, func)
                seq = self.concrete_iter(v)
                if seq is None:
                    out.append(Sym("star", v))
                else:
                    out.extend(seq)
            else:
                out.append(self.eval(x, env, func))
        return out

    def e_Tuple(self, e, env, func):
        return tuple(self._display(e, env, func))

    def e_List(self, e, env, func):
        return self._display(e, env, func)

    def e_Set(self, e, env, func):
        return Sym("set", *[self.eval(x, env, func) for x in e.elts])

    def e_Dict(self, e, env, func):
        d = {}
        for k, v in zip(e.keys, e.values):
            kk = self.eval(k, env, func) if k is not None else None
            try:
                d[kk] = self.eval(v, env, func)
            except TypeError:
                return Sym("dict")
        return d

    def e_JoinedStr(self, e, env, func):
        tmpl, args = "", []
        for v in e.values:
            if isinstance(v, ast.Constant):
                tmpl += str(v.value).replace("{", "{{").replace("}", "}}")
            elif isinstance(v, ast.FormattedValue):
                val = self.eval(v.value, env, func)
                if v.conversion == 114:
                    val = Sym("repr", val) if not _pyconst(val) else repr(val)
                elif v.conversion == 115 and _pyconst(val):
                    val = str(val)
                spec = ""
                if v.format_spec is not None:
                    sp = self.e_JoinedStr(v.format_spec, env, func)
                    if not isinstance(sp, str):
                        return Sym("fstring", ast.unparse(e)[:60])
                    spec = sp
                tmpl += "{:%s}" % spec if spec else "{}"
                args.append(val)
            else:
                return Sym("fstring", ast.unparse(e)[:60])
        vals = [_int(a) for a in args]
        if all(_pyconst(a) for a in vals):
            try:
                return tmpl.format(*vals)
            except Exception:
                pass
        r = plain_strformat(tmpl, args, "format")
        if r is not None:
            return r
        return Sym("strformat", tmpl, tuple(args))

    def e_IfExp(self, e, env, func):
        if self.truth(self.eval(e.test, env, func), e.test, func):
            return self.eval(e.body, env, func)
        return self.eval(e.orelse, env, func)

    def e_Lambda(self, e, env, func):
        return LambdaV(e, dict(env), func)

    def e_BoolOp(self, e, env, func):
        last = None
        for x in e.values:
            last = self.eval(x, env, func)
            t = self.truth(last, x, func)
            if isinstance(last, CondV):
                last = t
            if isinstance(e.op, ast.And) and not t:
                return last
            if isinstance(e.op, ast.Or) and t:
                return last
        return last

    def e_UnaryOp(self, e, env, func):
        v = self.eval(e.operand, env, func)
        if isinstance(e.op, ast.Not):
            return not self.truth(v, e.operand, func)
        b = as_bits(v)
        if isinstance(e.op, ast.Invert) and b is not None:
            return ~(b.subst(self.asg) if self.asg else b)
        if isinstance(e.op, ast.USub):
            if isinstance(v, (int, float)) and not isinstance(v, bool):
                return -v
            l = Lin.of(v)
            if l is not None:
                return l.scale(-1).simplify()
        if isinstance(e.op, ast.UAdd):
            return v
        return Sym("unary", type(e.op).__name__, v)

    def e_BinOp(self, e, env, func):
        return self.binop(e.op, self.eval(e.left, env, func), self.eval(e.right, env, func), e)

    def binop(self, op, a, b, node):
        h = self.hooks.get("binop")
        if h:
            r = h(self, op, a, b, node)
            if r is not NotImplemented:
                return r
        # plain python constants
        if _pyconst(a) and _pyconst(b):
            try:
                return _apply(op, a, b)
            except Exception as ex:
                raise Raised(type(ex).__name__, node, str(ex))
        if isinstance(op, ast.Add) and (isinstance(a, (BytesV, BufV)) or isinstance(b, (BytesV, BufV))):
            ca, cb = _as_bytesv(a), _as_bytesv(b)
            if ca is not None and cb is not None:
                return BytesV(ca.bytes + cb.bytes)
        if isinstance(op, ast.Add) and (isinstance(a, StrV) or isinstance(b, StrV)):
            sa, sb = StrV.of(a), StrV.of(b)
            if sa is not None and sb is not None:
                return StrV(sa.chars + sb.chars)
        if isinstance(a, (list, tuple)) and isinstance(b, (list, tuple)) and isinstance(op, ast.Add) and type(a) == type(b):
            return a + b
        if isinstance(a, list) and isinstance(b, Comp) or isinstance(a, Comp) and isinstance(b, (list, Comp)):
            if isinstance(op, ast.Add):
                return Sym("concat", a, b)
        if isinstance(a, (list, tuple)) and isinstance(op, ast.Mult) and isinstance(b, int):
            return a * b
        if isinstance(a, str) and isinstance(op, ast.Mod):
            bb_ = tuple(_int(x) for x in b) if isinstance(b, tuple) else _int(b)
            if (isinstance(bb_, tuple) and all(_pyconst(x) for x in bb_)) or (not isinstance(bb_, tuple) and _pyconst(bb_)):
                try:
                    return a % bb_
                except Exception:
                    pass
            r = plain_strformat(a, b, "%")
            if r is not None:
                return r
            return Sym("strformat", a, b)
        if isinstance(a, (str, bytes)) or isinstance(b, (str, bytes)) or _is_strterm(a) or _is_strterm(b):
            return Sym("strop", type(op).__name__, a, b)
        ba, bb = as_bits(a), as_bits(b)
        if ba is not None and bb is not None:
            if self.asg:
                # refinements made on this path (pinned source bits) apply to values created earlier as well
                ba, bb = ba.subst(self.asg), bb.subst(self.asg)
            if isinstance(op, ast.BitAnd):
                return ba & bb
            if isinstance(op, ast.BitOr):
                return ba | bb
            if isinstance(op, ast.BitXor):
                return ba ^ bb
            if isinstance(op, ast.LShift) and bb.is_const():
                return ba.shl(bb.value())
            if isinstance(op, ast.RShift) and bb.is_const():
                return ba.shr(bb.value())
            if isinstance(op, ast.Add):
                r = ba.add(bb)
                if r is not None:
                    return r
            if isinstance(op, ast.Sub):
                r = ba.sub(bb)
                if r is not None:
                    return r
            if isinstance(op, ast.Mult):
                for x, y in ((ba, bb), (bb, ba)):
                    if y.is_const():
                        k = y.value()
                        if k > 0 and k & (k - 1) == 0:
                            return x.shl(k.bit_length() - 1)
                        if k == 0:
                            return Bits.const(0)
            if isinstance(op, ast.FloorDiv) and bb.is_const():
                k = bb.value()
                if k > 0 and k & (k - 1) == 0:
                    return ba.shr(k.bit_length() - 1)
            if isinstance(op, ast.Mod) and bb.is_const():
                k = bb.value()
                if k > 0 and k & (k - 1) == 0:
                    return ba & Bits.const(k - 1)
        # linear arithmetic
        la, lb = Lin.of(a), Lin.of(b)
        if la is not None and lb is not None:
            if isinstance(op, ast.Add):
                return (la + lb).simplify()
            if isinstance(op, ast.Sub):
                return (la + lb.scale(-1)).simplify()
            if isinstance(op, ast.Mult):
                if not lb.terms:
                    return la.scale(lb.const).simplify()
                if not la.terms:
                    return lb.scale(la.const).simplify()
        if isinstance(a, float) or isinstance(b, float):
            return Sym("float" + type(op).__name__, a, b)
        return Sym(type(op).__name__, a, b)

    def e_Compare(self, e, env, func):
        left = self.eval(e.left, env, func)
        result = True
        for op, c in zip(e.ops, e.comparators):
            right = self.eval(c, env, func)
            r = self.compare(op, left, right, e, func)
            if not isinstance(r, bool):
                if len(e.ops) == 1:
                    return r
                r = self.truth(r, e, func)
            if not r:
                return False
            left = right
        return result

    def compare(self, op, a, b, node, func):
        h = self.hooks.get("compare")
        if h:
            r = h(self, op, a, b, node, func)
            if r is not NotImplemented:
                return r
        if isinstance(a, Bits):
            a = a.subst(self.asg)
            if a.is_const():
                a = a.value()
        if isinstance(b, Bits):
            b = b.subst(self.asg)
            if b.is_const():
                b = b.value()
        if isinstance(op, (ast.Is, ast.IsNot)):
            if a is None or b is None:
                known = (a is None and b is None)
                other = a if b is None else b
                # results of string formatting / arithmetic are objects, never None
                definite = not isinstance(other, (Sym, Lin)) or isinstance(other, Lin) or (isinstance(other, Sym) and other.op in _STR_OPS + ("floatMult", "float"))
                if (a is None) != (b is None) and definite:
                    return known if isinstance(op, ast.Is) else not known
                if a is None and b is None:
                    return isinstance(op, ast.Is)
            if _pyconst(a) and _pyconst(b):
                return (a is b or a == b) if isinstance(op, ast.Is) else not (a is b or a == b)
            return CondV(type(op).__name__, a, b)
        if isinstance(op, (ast.In, ast.NotIn)):
            if isinstance(b, dict) and not _hashable_const(a):
                st, _v = self.dict_lookup(b, a)
                if st != "unknown":
                    return (st == "hit") if isinstance(op, ast.In) else (st != "hit")
            seq = self.concrete_iter(b) if not isinstance(b, (str, bytes)) else None
            if seq is not None:
                res = False
                for item in seq:
                    r = self.compare(ast.Eq(), a, item, node, func)
                    if not isinstance(r, bool):
                        r = self.truth(r, node, func)
                    if r:
                        res = True
                        break
                return res if isinstance(op, ast.In) else not res
            if isinstance(b, (str, bytes)) and isinstance(a, type(b)):
                return (a in b) if isinstance(op, ast.In) else (a not in b)
            return CondV(type(op).__name__, a, b)
        if _pyconst(a) and _pyconst(b):
            try:
                return _cmp(op, a, b)
            except TypeError:
                return CondV(type(op).__name__, a, b)
        if isinstance(op, (ast.Eq, ast.NotEq, ast.Lt, ast.LtE, ast.Gt, ast.GtE)) and (isinstance(a, (Lin, Sym, Bits)) or isinstance(b, (Lin, Sym, Bits))):
            la_, lb_ = Lin.of(a), Lin.of(b)
            if la_ is not None and lb_ is not None:
                d = la_ + lb_.scale(-1)
                if not d.terms:
                    return _cmp(op, d.const, 0)
        if isinstance(a, int) and isinstance(b, Bits) and not isinstance(op, (ast.Eq, ast.NotEq)):
            flip = {ast.Lt: ast.Gt, ast.LtE: ast.GtE, ast.Gt: ast.Lt, ast.GtE: ast.LtE}
            return self.compare(flip[type(op)](), b, a, node, func)
        if isinstance(a, Bits) and isinstance(b, int) and not isinstance(b, bool):
            r = self._cmp_bits_const(op, a, b)
            if r is not None:
                return r
        if (isinstance(a, Bits) or isinstance(b, Bits)) and (isinstance(a, (Bits, int)) and isinstance(b, (Bits, int))):
            # decidable without a split?
            ba, bb = as_bits(a), as_bits(b)
            if isinstance(op, (ast.Eq, ast.NotEq)):
                if ba == bb and not ba.has_top():
                    return isinstance(op, ast.Eq)
                # some bit known different
                for x, y in zip(ba.b, bb.b):
                    if x in (0, 1) and y in (0, 1) and x != y:
                        return isinstance(op, ast.NotEq)
            return CondV(type(op).__name__, a, b)
        if a == b and isinstance(a, (Sym, Lin)) and isinstance(op, (ast.Eq, ast.LtE, ast.GtE)):
            return True
        if a == b and isinstance(a, (Sym, Lin)) and isinstance(op, (ast.NotEq, ast.Lt, ast.Gt)):
            return False
        return CondV(type(op).__name__, a, b)

    def _cmp_bits_const(self, op, x, c):
        """x: Bits (not constant), c: int.  -> bool | CondV | None"""
        if x.has_top():
            return None
        name = type(op).__name__
        if isinstance(op, (ast.Eq, ast.NotEq)):
            cb = Bits.const(c).b
            pins = {}
            for xb, k in zip(x.b, cb):
                if xb in (0, 1):
                    if xb != k:
                        return isinstance(op, ast.NotEq)
                else:
                    key = ("s",) + xb[1:]
                    v = k if xb[0] == "s" else 1 - k
                    if key in pins and pins[key] != v:
                        return isinstance(op, ast.NotEq)
                    pins[key] = v
            if len(pins) <= self.max_split:
                return CondV(name, x, c, keys=list(pins))
            return CondV(name, x, c, refine=[(isinstance(op, ast.Eq), pins)])
        # ordering comparisons: normalise to  x >= t  (strict=False)  or its negation
        if isinstance(op, ast.Gt):
            t, neg = c + 1, False
        elif isinstance(op, ast.GtE):
            t, neg = c, False
        elif isinstance(op, ast.Lt):
            t, neg = c, True
        else:
            t, neg = c + 1, True
        ext = x.ext
        if ext not in (0, 1):
            return CondV(name, x, c, keys=[("s",) + ext[1:]])
        if t == 0:
            ge = (ext == 0)
            return (not ge) if neg else ge
        if ext == 1:
            if t > 0:
                return neg  # x < 0 < t  => x >= t false
            return None
        # x >= 0 here
        if t < 0:
            return not neg
        if t & (t - 1) == 0:
            k = t.bit_length() - 1
            hi = x.b[k:]
            if any(b == 1 for b in hi):
                return not neg
            keys = []
            for b in hi:
                if isinstance(b, tuple):
                    kk = ("s",) + b[1:]
                    if kk not in keys:
                        keys.append(kk)
            if not keys:
                return neg
            if len(keys) <= self.max_split and all(b[0] == "s" for b in hi if isinstance(b, tuple)):
                return CondV(name, x, c, keys=keys)
            if all(b[0] == "s" for b in hi if isinstance(b, tuple)):
                # 'x >= t' false  =>  all deciding bits are zero
                return CondV(name, x, c, refine=[(neg, {kk: 0 for kk in keys})])
        return None

    def truth_cond_eval(self, c):
        """evaluate CondV under the current assignment if both sides become constants"""
        a, b = c.a, c.b
        if isinstance(a, Bits):
            a = a.subst(self.asg)
            a = a.value() if a.is_const() else a
        if isinstance(b, Bits):
            b = b.subst(self.asg)
            b = b.value() if b.is_const() else b
        if _pyconst(a) and _pyconst(b) and c.op in _OPS:
            try:
                return _cmp(_OPS[c.op](), a, b)
            except TypeError:
                return None
        return None

    def e_Subscript(self, e, env, func):
        base = self.eval(e.value, env, func)
        if isinstance(e.slice, ast.Slice):
            lo = self.eval(e.slice.lower, env, func) if e.slice.lower else None
            hi = self.eval(e.slice.upper, env, func) if e.slice.upper else None
            lo = _int(lo)
            hi = _int(hi)
            if e.slice.step is None:
                if isinstance(base, BufV) and (lo is None or isinstance(lo, int)) and (hi is None or isinstance(hi, int)):
                    lo_ = lo or 0
                    if lo_ >= 0 and (hi is None or hi >= 0):
                        if hi is None:
                            ln = None if base.length is None else max(0, base.length - lo_)
                        else:
                            ln = max(0, hi - lo_)
                            if base.length is not None:
                                ln = max(0, min(ln, base.length - lo_))
                        return BufV(base.name, base.start + lo_, ln)
                if isinstance(base, BytesV) and (lo is None or isinstance(lo, int)) and (hi is None or isinstance(hi, int)):
                    return BytesV(base.bytes[lo:hi])
                if isinstance(base, StrV) and (lo is None or isinstance(lo, int)) and (hi is None or isinstance(hi, int)):
                    return StrV(base.chars[lo:hi])
                if isinstance(base, (list, tuple, str, bytes)) and (lo is None or isinstance(lo, int)) and (hi is None or isinstance(hi, int)):
                    return base[lo:hi]
            return Sym("slice", base, lo, hi)
        k = self.eval(e.slice, env, func)
        h = self.hooks.get("subscript")
        if h:
            r = h(self, base, k, e, func)
            if r is not NotImplemented:
                return r
        kk = _int(k)
        if isinstance(base, Sym) and base.op == "attr" and base.args[-1] == "packer":
            if isinstance(kk, str):
                return PackerV("<" + kk)
            raise AnalysisError("%s: struct format %s is not a constant in the abstract domain" % (func.loc(e), show(k)[:80]))
        if isinstance(base, (list, tuple, str, bytes)) and isinstance(kk, int):
            try:
                return base[kk]
            except IndexError:
                raise Raised("IndexError", e)
        if isinstance(base, str) and base in ("0123456789abcdef", "0123456789ABCDEF") and isinstance(kk, Bits):
            k4 = kk.subst(self.asg)
            if k4.fits_unsigned(4):
                return Sym("strformat", "{:x}" if base.islower() else "{:X}", (k4,))
        if isinstance(base, (list, tuple)) and isinstance(kk, Bits):
            kk2 = kk.subst(self.asg)
            srcs = kk2.sources()
            if not kk2.has_top() and 0 < len(srcs) <= self.max_split:
                raise Split(srcs)
        if isinstance(base, dict):
            if _hashable_const(kk):
                if kk in base:
                    return base[kk]
                raise Raised("KeyError", e, repr(kk))
            st, v = self.dict_lookup(base, kk)
            if st == "hit":
                return v
            if st == "miss":
                raise Raised("KeyError", e, show(kk)[:40])
            if isinstance(kk, Bits):
                srcs = kk.sources()
                if not kk.has_top() and 0 < len(srcs) <= self.max_split:
                    raise Split(srcs)
        if isinstance(base, StrV) and isinstance(kk, int):
            try:
                return StrV([base.chars[kk]])
            except IndexError:
                raise Raised("IndexError", e)
        if isinstance(base, BytesV) and isinstance(kk, int):
            return Bits.source(base.bytes[kk], False)
        if isinstance(base, BufV) and isinstance(kk, int) and kk >= 0:
            return Bits.source([self._src(base.start + kk, i) for i in range(8)], False)
        return Sym("index", base, k)

    def e_ListComp(self, e, env, func):
        return self._comp(e, env, func, "list")

    def e_GeneratorExp(self, e, env, func):
        return self._comp(e, env, func, "gen")

    def e_SetComp(self, e, env, func):
        return self._comp(e, env, func, "set")

    def _comp(self, e, env, func, kind):
        if len(e.generators) != 1:
            return Sym("comp", ast.unparse(e)[:60])
        g = e.generators[0]
        it = self.eval(g.iter, env, func)
        seq = self.concrete_iter(it)
        if seq is None:
            env2 = dict(env)
            var = ast.unparse(g.target)
            self.assign(g.target, Sym("loopvar", var), env2, func)
            conds = []
            for c in g.ifs:
                conds.append(self.eval(c, env2, func))
            return Comp(kind, self.eval(e.elt, env2, func), var, it, conds)
        out = []
        for item in seq:
            env2 = dict(env)
            self.assign(g.target, item, env2, func)
            if all(self.truth(self.eval(c, env2, func), c, func) for c in g.ifs):
                out.append(self.eval(e.elt, env2, func))
        return out

    # ------------------------------------------------------------------
    def e_Call(self, e, env, func):
        fn = e.func
        # super().__init__() and friends
        if isinstance(fn, ast.Attribute) and isinstance(fn.value, ast.Call) and isinstance(fn.value.func, ast.Name) and fn.value.func.id == "super":
            slf = env.get("self")
            if isinstance(slf, Obj) and func.cls is not None:
                mro = slf.cls.mro() if slf.cls else []
                # find next after func.cls
                names = [c.name for c in mro]
                if func.cls.name in names:
                    for c in mro[names.index(func.cls.name) + 1:]:
                        if fn.attr in c.methods:
                            args = [self.eval(a, env, func) for a in e.args]
                            return self.call_function(c.methods[fn.attr], args, None, recv=slf)
            return None
        args = []
        for a in e.args:
            if isinstance(a, ast.Starred):
                v = self.eval(a.value, env, func)
                if isinstance(v, (list, tuple)):
                    args.extend(v)
                else:
                    args.append(Sym("star", v))
            else:
                args.append(self.eval(a, env, func))
        kwargs = {k.arg: self.eval(k.value, env, func) for k in e.keywords if k.arg}
        # method call on an evaluated receiver
        if isinstance(fn, ast.Attribute):
            recv = self.eval(fn.value, env, func)
            name = fn.attr
            h = self.hooks.get("method")
            if h:
                r = h(self, recv, name, args, kwargs, e, func)
                if r is not NotImplemented:
                    return r
            return self.call_method(recv, name, args, kwargs, e, env, func)
        callee = self.eval(fn, env, func)
        name = fn.id if isinstance(fn, ast.Name) else None
        h = self.hooks.get("call")
        if h:
            r = h(self, name, callee, args, kwargs, e, func)
            if r is not NotImplemented:
                return r
        return self.call_value(callee, name, args, kwargs, e, env, func)

    def call_value(self, callee, name, args, kwargs, e, env, func):
        if isinstance(callee, OperatorV) and len(args) == 1:
            obj = args[0]
            if callee.kind == "attrgetter" and len(callee.args) == 1 and isinstance(callee.args[0], str) and "." not in callee.args[0]:
                return _b_getattr(self, [obj, callee.args[0]], None, e, func)
            if callee.kind == "itemgetter" and len(callee.args) == 1:
                seq = obj if isinstance(obj, (list, tuple, dict)) else self.concrete_iter(obj)
                k = callee.args[0]
                if isinstance(seq, dict) and k in seq:
                    return seq[k]
                if isinstance(seq, (list, tuple)) and isinstance(k, int) and -len(seq) <= k < len(seq):
                    return seq[k]
            if callee.kind == "methodcaller" and isinstance(callee.args[0], str):
                return self.call_method(obj, callee.args[0], callee.args[1:], callee.kwargs, e, env, func)
            return Sym("call", Sym("operator", callee.kind, *callee.args), *args)
        if isinstance(callee, PartialV):
            kw = dict(callee.kwargs)
            kw.update(kwargs or {})
            return self.call_value(callee.func, None, callee.args + list(args), kw, e, env, func)
        if name == "partial" and args and (func is None or func.module.imports.get("partial", ("functools", "partial"))[0] == "functools"):
            return PartialV(args[0], args[1:], kwargs)
        if isinstance(callee, (Ref, Bound)):
            h = self.hooks.get("func")
            if h:
                target = callee.obj if isinstance(callee, Ref) else callee.func
                if not isinstance(callee, Ref) or callee.kind == "func":
                    r = h(self, target, args, kwargs, e, func)
                    if r is not NotImplemented:
                        return r
        if isinstance(callee, LocalFuncV):
            env2 = dict(callee.env)
            a = callee.node.args
            params = [x.arg for x in a.posonlyargs + a.args]
            defaults = list(a.defaults)
            for i, pname in enumerate(params):
                if i < len(args):
                    env2[pname] = args[i]
                elif kwargs and pname in kwargs:
                    env2[pname] = kwargs[pname]
                else:
                    di = i - (len(params) - len(defaults))
                    env2[pname] = self.eval(defaults[di], callee.env, callee.func) if 0 <= di < len(defaults) else Sym("param", pname)
            if self.depth >= MAX_DEPTH:
                return Sym("deep-call", callee.node.name)
            self.depth += 1
            gen = _is_generator(callee.node)
            if gen:
                self._yields.append([])
            try:
                self.exec_block(callee.node.body, env2, callee.func)
                return self._yields[-1] if gen else None
            except _Return as r:
                return self._yields[-1] if gen else r.value
            finally:
                if gen:
                    self._yields.pop()
                self.depth -= 1
        if isinstance(callee, LambdaV):
            env2 = dict(callee.env)
            a = callee.node.args
            for p, v in zip([x.arg for x in a.args], args):
                env2[p] = v
            return self.eval(callee.node.body, env2, callee.func)
        if isinstance(callee, Bound):
            return self.call_function(callee.func, args, kwargs, recv=callee.recv)
        if isinstance(callee, Ref) and callee.kind == "func":
            inl = self.hooks.get("inline_funcs")
            if inl and callee.obj.qualname not in self.hooks.get("no_inline", ()) and (callee.obj.qualname in inl or (inl == "module" or (isinstance(inl, set) and "*module*" in inl)) and func is not None and callee.obj.module is func.module):
                return self.call_function(callee.obj, args, kwargs)
            return Sym("call", callee.obj.qualname, *args)
        if isinstance(callee, Ref) and callee.kind == "class":
            cls = callee.obj
            hc = self.hooks.get("construct")
            if hc:
                r = hc(self, cls, args, kwargs, e, func)
                if r is not NotImplemented:
                    return r
            if self.folder.is_enum(cls) and len(args) == 1:
                v = _int(args[0])
                if isinstance(v, int):
                    for m in self.folder.enum_members(cls).values():
                        if m == v:
                            return m
                return Sym("enum", cls.name, args[0])
            if cls.is_subclass_of("Exception") or cls.name.endswith("Error") or cls.name.startswith("Invalid"):
                return Sym("exc", cls.name)
            if self.hooks.get("construct_module_classes") and func is not None and cls.module is func.module and "__init__" in cls.methods \
                    and not cls.base_names and cls.name not in self.hooks.get("construct_opaque", ()):
                # opt-in: a plain helper class of the analysed module is instantiated by running its __init__
                o = Obj(cls, cls.name)
                self.call_function(cls.methods["__init__"], list(args), kwargs, recv=o)
                return o
            rf = record_fields(cls)
            if rf is not None:
                kind, fields = rf
                if len(args) <= len(fields) and all(k in dict(fields) for k in (kwargs or {})):
                    o = Obj(cls, cls.name)
                    ok = True
                    for i, (fname, dflt) in enumerate(fields):
                        if i < len(args):
                            o.attrs[fname] = args[i]
                        elif kwargs and fname in kwargs:
                            o.attrs[fname] = kwargs[fname]
                        elif dflt is not None and not (isinstance(dflt, ast.Call) and getattr(dflt.func, "id", getattr(dflt.func, "attr", None)) == "field"):
                            o.attrs[fname] = self.eval(dflt, self.class_scope(cls, dflt), _ModuleCtx(cls.module))
                        else:
                            ok = False
                    if ok:
                        if kind == "namedtuple":
                            o.attrs["__record_fields__"] = tuple(f for f, _ in fields)
                        return o
            return Sym("new", cls.name, *args)
        if name == "Struct" and func is not None and func.module.imports.get("Struct") == ("struct", "Struct") and len(args) == 1:
            if isinstance(args[0], str):
                return PackerV(args[0])
            raise AnalysisError("%s: struct.Struct format %s is not a constant in the abstract domain" % (func.loc(e), show(args[0])[:80]))
        if name in ("pack", "unpack", "calcsize") and func is not None and func.module.imports.get(name) == ("struct", name) and args and isinstance(args[0], str):
            if name == "unpack" and len(args) == 2:
                return self.struct_unpack(args[0], args[1], e, func)
            if name == "pack":
                return self.struct_pack(args[0], args[1:], e, func)
            if name == "calcsize":
                return _struct.calcsize(args[0])
        if name in ("islice", "chain") and func is not None and func.module.imports.get(name) == ("itertools", name) and args and not kwargs:
            r = _itertools_call(self, name, args)
            if r is not None:
                return r
        if name in _BUILTINS:
            return _BUILTINS[name](self, args, kwargs, e, func)
        if isinstance(callee, Sym) and callee.op == "attr" and len(callee.args) == 2 and isinstance(callee.args[1], str):
            # a method fetched with getattr(obj, "name") / a bound-method alias: same term as obj.name(...)
            hm = self.hooks.get("method")
            if hm:
                r = hm(self, callee.args[0], callee.args[1], args, kwargs, e, func)
                if r is not NotImplemented:
                    return r
            if isinstance(callee.args[0], (PackerV, list, dict, str, bytes, bytearray, StrV, BytesV, StreamV, BufV)):
                # bound-method alias of a value the interpreter models (pack = cm.packer["B"].pack; add = out.append)
                return self.call_method(callee.args[0], callee.args[1], args, kwargs, e, env, func)
            return Sym("call", callee, *args)
        return Sym("call", name or ast.unparse(e.func)[:40], *args)

    def call_method(self, recv, name, args, kwargs, e, env, func):
        if isinstance(recv, Ref) and recv.kind == "class":
            f = recv.obj.lookup(name)
            if f is not None:
                decos = {d.id if isinstance(d, ast.Name) else getattr(d, "attr", None) for d in f.node.decorator_list}
                if "classmethod" in decos:
                    return self.call_value(Bound(Obj(recv.obj, recv.obj.name), f), None, args, kwargs, e, env, func)
                return self.call_value(Ref("func", f), None, args, kwargs, e, env, func)
        if isinstance(recv, Obj):
            f = recv.cls.lookup(name) if recv.cls else None
            if f is not None:
                return self.call_function(f, args, kwargs, recv=recv)
            if name in recv.attrs:
                return self.call_value(recv.attrs[name], name, args, kwargs, e, env, func)
            return Sym("call", "%s.%s" % (recv.name, name), *args)
        if isinstance(recv, Sym) and recv.op in ("module", "name") and recv.args[0] == "itertools" and name in ("islice", "chain") and args:
            r = _itertools_call(self, name, args)
            if r is not None:
                return r
        if isinstance(recv, Sym) and recv.op in ("module", "name") and recv.args[0] == "operator" and name in ("attrgetter", "itemgetter", "methodcaller") \
                and args and all(isinstance(a, (str, int)) for a in args[:1]):
            return OperatorV(name, args, kwargs)
        if isinstance(recv, Sym) and recv.op in ("module", "name") and recv.args[0] == "functools" and name == "reduce" and len(args) in (2, 3):
            # functools.reduce(operator.<binary op>, iterable[, initial]) over a concrete sequence
            fn_ = args[0]
            opn = None
            if isinstance(fn_, Sym) and fn_.op in ("attr", "modattr") and fn_.args and fn_.args[-1] in _OPERATOR_FUNCS and (
                    fn_.args[0] == "operator" or (isinstance(fn_.args[0], Sym) and fn_.args[0].args and fn_.args[0].args[0] == "operator")):
                opn = _OPERATOR_FUNCS[fn_.args[-1]]
            seq = self.concrete_iter(args[1])
            if opn is not None and seq is not None:
                items = list(seq)
                if len(args) == 3:
                    acc = args[2]
                elif items:
                    acc, items = items[0], items[1:]
                else:
                    raise Raised("TypeError", e, "reduce() of empty iterable with no initial value")
                for x in items:
                    acc = self.binop(opn(), acc, x, e)
                return acc
        if isinstance(recv, Sym) and recv.op in ("module", "name") and recv.args[0] == "functools" and name == "partial" and args:
            return PartialV(args[0], args[1:], kwargs)
        if isinstance(recv, StreamV):
            if name == "read" and args and isinstance(_int(args[0]), int) and isinstance(recv.pos, int):
                n = _int(args[0])
                start = recv.pos
                recv.pos += n
                recv.reads.append((start, n))
                if recv.backing is not None:
                    if start + n > len(recv.backing.bytes):
                        return BytesV(recv.backing.bytes[start:start + n])
                    return BytesV(recv.backing.bytes[start:start + n])
                return BufV(recv.name, start, n)
            if name == "tell":
                return recv.pos
            if name == "seek" and args and isinstance(_int(args[0]), int) and len(args) == 1:
                recv.pos = _int(args[0])
                return recv.pos
            recv.pos = Sym("pos")
            return Sym("call", Sym("attr", recv.name, name), *args)
        if isinstance(recv, PackerV):
            if name == "unpack":
                return self.struct_unpack(recv.fmt, args[0], e, func)
            if name == "pack":
                return self.struct_pack(recv.fmt, args, e, func)
            if name == "calcsize":
                return _struct.calcsize(recv.fmt)
            if name == "iter_unpack" and len(args) == 1:
                size = _struct.calcsize(recv.fmt)
                buf = args[0]
                n = buf.length if isinstance(buf, BufV) else (len(buf.bytes) if isinstance(buf, BytesV) else None)
                if n is None or size == 0:
                    raise AnalysisError("%s: iter_unpack over a buffer of unknown length" % func.loc(e))
                if n % size:
                    raise Raised("struct.error", e, "iterative unpacking requires a buffer of a multiple of %d bytes" % size)
                out = []
                for k in range(n // size):
                    chunk = BufV(buf.name, buf.start + k * size, size) if isinstance(buf, BufV) else BytesV(buf.bytes[k * size:(k + 1) * size])
                    out.append(self.struct_unpack(recv.fmt, chunk, e, func))
                return out
        if isinstance(recv, Sym) and recv.op == "module" and recv.args[0] == "struct" or (isinstance(recv, Sym) and recv.op == "name" and recv.args[0] == "struct"):
            if name == "unpack" and isinstance(args[0], str):
                return self.struct_unpack(args[0], args[1], e, func)
            if name == "pack" and isinstance(args[0], str):
                return self.struct_pack(args[0], args[1:], e, func)
            if name == "calcsize" and isinstance(args[0], str):
                return _struct.calcsize(args[0])
            if name == "Struct" and len(args) == 1:
                if isinstance(args[0], str):
                    return PackerV(args[0])
                raise AnalysisError("%s: struct.Struct format %s is not a constant in the abstract domain" % (func.loc(e), show(args[0])[:80]))
        if isinstance(recv, (BytesV, BufV)) and name in ("ljust", "rjust") and args and isinstance(_int(args[0]), int):
            bv = _as_bytesv(recv)
            if bv is not None:
                fill = args[1] if len(args) > 1 else b" "
                if isinstance(fill, (bytes, bytearray)) and len(fill) == 1:
                    pad = [[(fill[0] >> i) & 1 for i in range(8)]] * max(0, _int(args[0]) - len(bv.bytes))
                    return BytesV(bv.bytes + pad) if name == "ljust" else BytesV(pad + bv.bytes)
        if isinstance(recv, Sym) and recv.op == "name" and recv.args[0] == "int" and name == "from_bytes" and args:
            bv = _as_bytesv(args[0])
            order = args[1] if len(args) > 1 else (kwargs or {}).get("byteorder", "big")
            signed = (kwargs or {}).get("signed", False)
            if bv is not None and order in ("little", "big") and isinstance(signed, bool):
                by = bv.bytes if order == "little" else list(reversed(bv.bytes))
                return field_bits(by, signed) if by else 0
        if isinstance(recv, StrV):
            if name == "split" and len(args) == 1 and isinstance(args[0], str) and args[0]:
                sep = [ord(c) for c in args[0]]
                parts, cur, i = [], [], 0
                ch = recv.chars
                while i < len(ch):
                    if ch[i:i + len(sep)] == sep:
                        parts.append(StrV(cur))
                        cur = []
                        i += len(sep)
                    else:
                        cur.append(ch[i])
                        i += 1
                parts.append(StrV(cur))
                return parts
            return Sym("call", Sym("attr", recv, name), *args)
        if isinstance(recv, list):
            if name == "append":
                recv.append(args[0])
                return None
            if name == "extend":
                seq = self.concrete_iter(args[0])
                if seq is not None:
                    recv.extend(seq)
                else:
                    recv.append(Sym("extend", args[0]))
                return None
            if name == "insert" and isinstance(_int(args[0]), int):
                recv.insert(_int(args[0]), args[1])
                return None
        if isinstance(recv, dict) and name == "get":
            k = _int(args[0])
            if _hashable_const(k):
                return recv.get(k, args[1] if len(args) > 1 else None)
            st, v = self.dict_lookup(recv, k)
            if st == "hit":
                return v
            if st == "miss":
                return args[1] if len(args) > 1 else None
        if isinstance(recv, str) and name == "join" and len(args) == 1 and isinstance(args[0], (list, tuple)) \
                and all(isinstance(x, str) for x in args[0]):
            return recv.join(args[0])
        if isinstance(recv, str) and name == "join" and len(args) == 1 and isinstance(args[0], (list, tuple)) and args[0] \
                and all(isinstance(x, (str, StrV)) for x in args[0]) and any(isinstance(x, StrV) for x in args[0]):
            chars = []
            for i, x in enumerate(args[0]):
                if i:
                    chars += [ord(c) for c in recv]
                chars += StrV.of(x).chars
            return StrV(chars)
        if isinstance(recv, (bytes, bytearray)) and name == "join" and len(args) == 1 and isinstance(args[0], (list, tuple)):
            parts = [_as_bytesv(x) for x in args[0]]
            if all(p is not None for p in parts):
                sep = _as_bytesv(recv)
                out = []
                for i, p in enumerate(parts):
                    if i:
                        out.extend(sep.bytes)
                    out.extend(p.bytes)
                return BytesV(out)
        if isinstance(recv, (str, bytes)) and all(_pyconst(_int(a)) for a in args) and not kwargs:
            try:
                return getattr(recv, name)(*[_int(a) for a in args])
            except Exception:
                pass
        if isinstance(recv, str) and name == "format":
            r = plain_strformat(recv, args, "format") if not kwargs else None
            if r is not None:
                return r
            return Sym("strformat", recv, tuple(args))
        return Sym("call", Sym("attr", recv, name), *args)

    # ---- struct -----------------------------------------------------
    def struct_unpack(self, fmt, buf, node, func):
        try:
            endian, slots, total = parse_format(fmt)
        except ValueError as ex:
            raise AnalysisError("%s: %s" % (func.loc(node), ex))
        if endian not in "<=":
            # native/big endian: sizes may differ; only accept if same as standard
            if endian == "@" and _struct.calcsize(fmt) == _struct.calcsize("<" + fmt.lstrip("@")):
                pass
            else:
                raise AnalysisError("%s: struct format %r is not little-endian standard" % (func.loc(node), fmt))
        if isinstance(buf, BytesV):
            if len(buf.bytes) != total:
                raise Raised("struct.error", node, "unpack requires %d bytes, got %d" % (total, len(buf.bytes)))
            out = []
            off = 0
            for code, size, signed in slots:
                chunk = buf.bytes[off:off + size]
                off += size
                if code == "x":
                    continue
                if code in ("s", "c"):
                    out.append(BytesV(chunk))
                elif signed == "float":
                    out.append(Sym("ieee%d" % (8 * size), field_bits(chunk, False)))
                else:
                    out.append(field_bits(chunk, signed))
            return tuple(out)
        if not isinstance(buf, BufV):
            self.events.append(("unpack-opaque", (fmt, show(buf))))
            return tuple(Sym("unpacked", fmt, i, buf) for i in range(len(slots)))
        if buf.length is None:
            self.events.append(("unpack-unsliced", (func.qualname, fmt)))
        elif buf.length != total:
            raise Raised("struct.error", node, "unpack requires %d bytes, slice has %d" % (total, buf.length))
        self.events.append(("unpack", (func.qualname, fmt, buf.start, total)))
        out = []
        off = buf.start
        for code, size, signed in slots:
            if code in ("x",):
                off += size
                continue
            if code in ("s", "c"):
                out.append(BytesV([[self._src(off + k, i) for i in range(8)] for k in range(size)]))
                off += size
                continue
            by = [[self._src(off + k, i) for i in range(8)] for k in range(size)]
            if signed == "float":
                out.append(Sym("ieee%d" % (8 * size), field_bits(by, False)))
            else:
                out.append(field_bits(by, signed))
            off += size
        return tuple(out)

    def struct_pack(self, fmt, args, node, func):
        try:
            endian, slots, total = parse_format(fmt)
        except ValueError as ex:
            raise AnalysisError("%s: %s" % (func.loc(node), ex))
        if endian not in "<=" and not (endian == "@" and _struct.calcsize(fmt) == total):
            raise AnalysisError("%s: struct format %r is not little-endian standard" % (func.loc(node), fmt))
        vals = [s for s in slots if s[0] != "x"]
        if len(vals) != len(args):
            raise Raised("struct.error", node, "pack expected %d items, got %d" % (len(vals), len(args)))
        out = []
        ai = 0
        for code, size, signed in slots:
            if code == "x":
                out.extend([[0] * 8] * size)
                continue
            v = args[ai]
            ai += 1
            if code in ("s", "c"):
                if isinstance(v, BytesV) and len(v.bytes) == size:
                    out.extend(v.bytes)
                else:
                    out.extend([[TOP] * 8] * size)
                continue
            if signed == "float":
                if isinstance(v, Sym) and v.op == "ieee%d" % (8 * size) and isinstance(v.args[0], Bits):
                    low = v.args[0].low(8 * size)
                    for k in range(size):
                        out.append(list(low[8 * k: 8 * k + 8]))
                else:
                    out.extend([[TOP] * 8] * size)
                continue
            b = as_bits(v)
            if b is None:
                self.events.append(("pack-opaque", (func.qualname, fmt, ai - 1, show(v))))
                out.extend([[TOP] * 8] * size)
                continue
            b = b.subst(self.asg)
            nb = size * 8
            ok = b.fits_signed(nb) if signed else b.fits_unsigned(nb)
            if not ok:
                self.events.append(("pack-range", (func.qualname, fmt, ai - 1, code, b.describe())))
                raise Raised("struct.error", node, "argument %d (%s) may be out of range for '%s'" % (ai - 1, b.describe(), code))
            low = b.low(nb)
            for k in range(size):
                out.append(list(low[8 * k: 8 * k + 8]))
        return BytesV(out)


class _ModuleCtx:
    """stands in for a Func when a module-level initialiser is evaluated"""

    def __init__(self, module):
        self.module = module
        self.cls = None
        self.qualname = "<module %s>" % module.relpath
        self.file = module.relpath
        self.line = 0
        self.node = module.tree

    def loc(self, node=None):
        return "%s:%d" % (self.module.relpath, getattr(node, "lineno", 0))


class CondV:
    """an undecided comparison.  `keys`: the source bits that decide it (split on those only);
    `refine`: (truth_value, {src: bit}) -- taking that outcome pins those source bits."""

    def __init__(self, op, a, b, keys=None, refine=None):
        self.op, self.a, self.b = op, a, b
        self.keys = keys
        self.refine = refine

    def __repr__(self):
        return "(%s %s %s)" % (show(self.a), self.op, show(self.b))


class LocalFuncV:
    """a function defined inside the analysed function (closure over the defining environment)"""

    def __init__(self, node, env, func):
        self.node, self.env, self.func = node, env, func


class LambdaV:
    def __init__(self, node, env, func):
        self.node, self.env, self.func = node, env, func


_OPERATOR_FUNCS = {"or_": ast.BitOr, "and_": ast.BitAnd, "xor": ast.BitXor, "add": ast.Add, "sub": ast.Sub, "mul": ast.Mult,
                   "lshift": ast.LShift, "rshift": ast.RShift}
_OPS = {"Eq": ast.Eq, "NotEq": ast.NotEq, "Lt": ast.Lt, "LtE": ast.LtE, "Gt": ast.Gt, "GtE": ast.GtE}


_STR_OPS = ("strformat", "strop", "fstring", "repr", "hex", "str")


def _is_strterm(v):
    if isinstance(v, StrV):
        return True
    if isinstance(v, Sym):
        if v.op in _STR_OPS:
            return True
        if v.op == "call" and v.args and isinstance(v.args[0], Sym) and v.args[0].op == "attr" and v.args[0].args[-1] in ("join", "format", "decode", "encode"):
            return True
    return False


def _is_generator(fnode):
    r = getattr(fnode, "_ag_is_gen", None)
    if r is not None:
        return r
    r = False
    stack = list(fnode.body)
    while stack:
        n = stack.pop()
        if isinstance(n, (ast.Yield, ast.YieldFrom)):
            r = True
            break
        if isinstance(n, (ast.FunctionDef, ast.AsyncFunctionDef, ast.Lambda, ast.ClassDef)):
            continue
        stack.extend(ast.iter_child_nodes(n))
    try:
        fnode._ag_is_gen = r
    except Exception:
        pass
    return r


def _itertools_call(it, name, args):
    """itertools.islice / chain over sequences the interpreter can enumerate (None = not evaluated)"""
    if name == "chain":
        out = []
        for a in args:
            seq = it.concrete_iter(a)
            if seq is None:
                return None
            out.extend(seq)
        return out
    if name == "islice" and 2 <= len(args) <= 4:
        seq = it.concrete_iter(args[0])
        nums = [_int(a) for a in args[1:]]
        if seq is None or not all(a is None or (isinstance(a, int) and not isinstance(a, bool)) for a in nums):
            return None
        import itertools as _it
        try:
            return list(_it.islice(seq, *nums))
        except ValueError:
            return None
    return None


class OperatorV:
    """operator.attrgetter / itemgetter / methodcaller object"""

    def __init__(self, kind, args, kwargs=None):
        self.kind, self.args, self.kwargs = kind, list(args), dict(kwargs or {})


class PartialV:
    def __init__(self, func, args, kwargs):
        self.func, self.args, self.kwargs = func, list(args), dict(kwargs or {})


def _as_bytesv(v):
    if isinstance(v, BytesV):
        return v
    if isinstance(v, BufV) and v.length is not None and v.length <= 4096:
        return BytesV([[("s", v.start + k, i) for i in range(8)] for k in range(v.length)])
    if isinstance(v, (bytes, bytearray)):
        return BytesV([[(x >> i) & 1 for i in range(8)] for x in v])
    return None


def _pyconst(v):
    return v is None or isinstance(v, (bool, int, float, str, bytes)) and not isinstance(v, Bits)


def _hashable_const(v):
    return isinstance(v, (bool, int, str, bytes, EnumVal)) or v is None


def _int(v):
    if isinstance(v, Bits) and v.is_const():
        return v.value()
    return v


def _apply(op, a, b):
    import operator as o
    return {ast.Add: o.add, ast.Sub: o.sub, ast.Mult: o.mul, ast.FloorDiv: o.floordiv, ast.Mod: o.mod,
            ast.BitAnd: o.and_, ast.BitOr: o.or_, ast.BitXor: o.xor, ast.LShift: o.lshift, ast.RShift: o.rshift,
            ast.Div: o.truediv, ast.Pow: o.pow}[type(op)](a, b)


def _cmp(op, a, b):
    import operator as o
    return {ast.Eq: o.eq, ast.NotEq: o.ne, ast.Lt: o.lt, ast.LtE: o.le, ast.Gt: o.gt, ast.GtE: o.ge}[type(op)](a, b)


def _load(t):
    import copy
    t2 = copy.copy(t)
    t2.ctx = ast.Load()
    return t2


def _b_len(it, args, kwargs, e, func):
    v = args[0]
    if isinstance(v, (list, tuple, str, bytes, dict)):
        return len(v)
    if isinstance(v, BytesV):
        return len(v.bytes)
    if isinstance(v, StrV):
        return len(v.chars)
    if isinstance(v, BufV) and v.length is not None:
        return v.length
    return Sym("len", v)


def _b_range(it, args, kwargs, e, func):
    vals = [_int(a) for a in args]
    if all(isinstance(v, int) for v in vals):
        return range(*vals)
    return Sym("range", *args)


def _b_int(it, args, kwargs, e, func):
    v = args[0] if args else 0
    if isinstance(v, (Bits,)):
        return v
    if _pyconst(v) and len(args) == 1:
        try:
            return int(v)
        except Exception:
            pass
    return Sym("int", *args)


def _b_divmod(it, args, kwargs, e, func):
    if len(args) == 2:
        a, b = as_bits(args[0]), _int(args[1])
        if isinstance(_int(args[0]), int) and isinstance(b, int) and b:
            return divmod(_int(args[0]), b)
        if a is not None and isinstance(b, int) and b > 0 and b & (b - 1) == 0:
            k = b.bit_length() - 1
            a = a.subst(it.asg) if it.asg else a
            return (a.shr(k), a & Bits.const(b - 1))
    return Sym("divmod", *args)


def _b_getattr(it, args, kwargs, e, func):
    if len(args) >= 2 and isinstance(args[1], str):
        obj, name = args[0], args[1]
        if isinstance(obj, Obj):
            if name in obj.attrs:
                return obj.attrs[name]
            f = obj.cls.lookup(name) if obj.cls else None
            if f is not None:
                return Bound(obj, f)
            if obj.cls is not None:
                for c in obj.cls.mro():
                    if name in c.attrs:
                        v = it.class_attr_value(c, name)
                        if v is not NotImplemented:
                            return v
                        break
            if len(args) == 3 and obj.cls is not None:
                return args[2]
        return Sym("attr", obj, name)
    return Sym("getattr", *args)


def _b_setattr(it, args, kwargs, e, func):
    if len(args) == 3 and isinstance(args[1], str) and isinstance(args[0], Obj):
        args[0].attrs[args[1]] = args[2]
        return None
    return Sym("call", "setattr", *args)


def _b_hasattr(it, args, kwargs, e, func):
    if len(args) == 2 and isinstance(args[1], str) and isinstance(args[0], Obj) and args[0].cls is not None:
        obj, name = args
        if name in obj.attrs or obj.cls.lookup(name) is not None or any(name in c.attrs for c in obj.cls.mro()):
            return True
    return Sym("hasattr", *args)


def _b_reversed(it, args, kwargs, e, func):
    seq = it.concrete_iter(args[0]) if args else None
    if seq is None:
        return Sym("reversed", *args)
    return list(reversed(seq))


def _b_enumerate(it, args, kwargs, e, func):
    seq = it.concrete_iter(args[0]) if args else None
    if seq is None:
        return Sym("enumerate", *args)
    start = _int(args[1]) if len(args) > 1 else _int((kwargs or {}).get("start", 0))
    if not isinstance(start, int):
        return Sym("enumerate", *args)
    return [(start + i, x) for i, x in enumerate(seq)]


def _b_zip(it, args, kwargs, e, func):
    seqs = [it.concrete_iter(a) for a in args]
    if any(s_ is None for s_ in seqs):
        return Sym("zip", *args)
    return [tuple(t) for t in zip(*seqs)]


def _b_isinstance(it, args, kwargs, e, func):
    v, t = args[0], args[1] if len(args) > 1 else None
    if isinstance(t, Sym) and t.op == "name" and t.args[0] in ("str", "int", "bytes", "list", "tuple", "dict"):
        tn = t.args[0]
        if isinstance(v, (StrV, str)):
            return tn == "str"
        if isinstance(v, (Bits,)) or (isinstance(v, int) and not isinstance(v, bool)):
            return tn == "int"
    return Sym("isinstance", *args)


def _b_simple(name):
    def f(it, args, kwargs, e, func):
        if name in ("min", "max") and len(args) >= 2 and not kwargs:
            ls = [Lin.of(_int(a)) for a in args]
            if all(l is not None for l in ls):
                best = 0
                decided = True
                for i in range(1, len(ls)):
                    d = ls[i] + ls[best].scale(-1)
                    if d.terms:
                        decided = False
                        break
                    if (d.const > 0) == (name == "max") and d.const != 0:
                        best = i
                if decided:
                    return args[best]
        if name in ("list", "tuple") and len(args) == 1 and not kwargs:
            seq = it.concrete_iter(args[0])
            if seq is not None:
                return list(seq) if name == "list" else tuple(seq)
        if name in ("bytes", "bytearray") and len(args) == 1 and not kwargs and isinstance(args[0], (list, tuple)) and args[0] \
                and any(isinstance(x, Bits) for x in args[0]):
            out = []
            for x in args[0]:
                b = as_bits(x)
                if b is not None and it.asg:
                    b = b.subst(it.asg)
                if b is None or not b.fits_unsigned(8):
                    out = None
                    break
                out.append(list(b.b[:8]))
            if out is not None:
                return BytesV(out)
        vals = [_int(a) for a in args]
        if all(_pyconst(v) or isinstance(v, (list, tuple)) and all(_pyconst(x) for x in v) for v in vals) and not kwargs:
            try:
                return getattr(__import__("builtins"), name)(*vals)
            except Exception:
                pass
        return Sym(name, *args)
    return f


def _b_ord(it, args, kwargs, e, func):
    v = args[0]
    if isinstance(v, str) and len(v) == 1:
        return ord(v)
    if isinstance(v, StrV) and len(v.chars) == 1:
        return v.chars[0]
    if isinstance(v, StrV):
        raise Raised("TypeError", e, "ord() expected a character")
    return Sym("ord", v)


def _b_chr(it, args, kwargs, e, func):
    v = _int(args[0])
    if isinstance(v, int):
        return chr(v)
    if isinstance(v, (Bits, Lin)):
        return StrV([v])
    return Sym("chr", v)


_BUILTINS = {"len": _b_len, "range": _b_range, "int": _b_int, "isinstance": _b_isinstance, "ord": _b_ord, "chr": _b_chr, "enumerate": _b_enumerate, "zip": _b_zip, "getattr": _b_getattr, "setattr": _b_setattr, "hasattr": _b_hasattr, "reversed": _b_reversed, "divmod": _b_divmod}
for _n in ("abs", "min", "max", "str", "float", "bool", "hex", "sorted", "list", "tuple", "bytes", "bytearray", "repr", "sum", "round", "pow"):
    _BUILTINS[_n] = _b_simple(_n)


# ---------------------------------------------------------------------------
SOFT_EVENTS = []  # approximations made by any interpreter (a loop body executed once for an unknown sequence ...): explore() marks the path
DEADLINE = None  # set by the driver: wall-clock limit for all abstract executions of one check run
TIER_NAME = "quick"
COND_INFO = {}   # choice key ('c', text, n) -> CondV of an exact but unrefinable comparison
_PYOPS = {"Eq": lambda x, y: x == y, "NotEq": lambda x, y: x != y, "Lt": lambda x, y: x < y, "LtE": lambda x, y: x <= y,
          "Gt": lambda x, y: x > y, "GtE": lambda x, y: x >= y}


def _exact_operand(x):
    return (isinstance(x, int) and not isinstance(x, bool)) or (isinstance(x, Bits) and not x.has_top())


def path_witness(asg):
    """asg: an explored path's assignment.  None if the path has no opaque choice.  Otherwise: a concrete assignment of all source bits
    that is consistent with the pinned bits and makes every exact-but-unrefinable comparison on the path come out as it was taken
    (the path is feasible), or False when some choice is truly opaque or no witness was found among the candidates tried."""
    cks = [k for k in asg if isinstance(k, tuple) and k and k[0] == "c"]
    if not cks:
        return None
    conds = []
    for k in cks:
        c = COND_INFO.get(k)
        if c is None:
            return False
        conds.append((c, bool(asg[k])))
    pinned = {k: v for k, v in asg.items() if isinstance(k, tuple) and k and k[0] == "s"}
    srcs = []
    for c, _ in conds:
        for x in (c.a, c.b):
            if isinstance(x, Bits):
                for sk in x.subst(pinned).sources():
                    if sk not in srcs and sk not in pinned:
                        srcs.append(sk)

    def val(x, env):
        return x if isinstance(x, int) else x.subst(env).value()

    cands = [dict.fromkeys(srcs, 0), dict.fromkeys(srcs, 1)]
    seed = 0x9E3779B97F4A7C15
    for _ in range(96):
        seed = (seed * 6364136223846793005 + 1442695040888963407) & (2 ** 64 - 1)
        r = seed
        env = {}
        for sk in srcs:
            r = (r * 6364136223846793005 + 1442695040888963407) & (2 ** 64 - 1)
            env[sk] = (r >> 33) & 1
        cands.append(env)
    # single-bit variations of the extremes reach thresholds such as x > 2**k
    for base in (0, 1):
        for sk in srcs[:64]:
            env = dict.fromkeys(srcs, base)
            env[sk] = 1 - base
            cands.append(env)
    for env in cands:
        full = dict(pinned)
        full.update(env)
        try:
            if all(_PYOPS[c.op](val(c.a, full), val(c.b, full)) == want for c, want in conds):
                return full
        except Exception:
            return False
    return False


ON_PATH = None   # callback(asg | None): told which explored path a consumer is looking at (report.Ctx.path)


class _Results(list):
    """list of (asg, result); iterating it announces each path to ON_PATH, so that obligations judged inside the loop body know
    whether their path went through an unevaluated condition"""

    def __iter__(self):
        for item in list.__iter__(self):
            if ON_PATH is not None:
                ON_PATH(item[0])
            yield item
        if ON_PATH is not None:
            ON_PATH(None)


def explore(run, max_paths=MAX_PATHS):
    """run(asg) -> result, may raise Split; returns list of (asg, result).
    result for an abstract exception is the Raised instance."""
    results = _Results()
    work = [{}]
    while work:
        asg = work.pop()
        n_soft = len(SOFT_EVENTS)
        try:
            res = run(asg)
        except Split as s:
            keys = [k for k in s.keys if k not in asg]
            if not keys:
                raise AnalysisError("split made no progress: %r" % (s.keys,))
            for vals in itertools.product((0, 1), repeat=len(keys)):
                a2 = dict(asg)
                a2.update(zip(keys, vals))
                work.append(a2)
            if len(work) + len(results) > max_paths:
                raise AnalysisError("path budget exceeded (%d)" % max_paths)
            continue
        except Raised as r:
            res = r
        if len(SOFT_EVENTS) > n_soft:
            # the run approximated something: nothing observed on this path is established (report.Ctx.path treats the key as opaque)
            asg = dict(asg)
            asg[("c", "approximation: " + SOFT_EVENTS[n_soft], 0)] = 1
        results.append((asg, res))
    return results
