"""C01 -- Dalvik instruction decoding is faithful for every operand encoding.

Rule: (1) DALVIK_OPCODES_FORMAT agrees with the independent Dalvik table
(format class, mnemonic, index kind); unused opcodes map to a class whose
constructor raises on every path.  (2)-(4) every Instruction class reachable
from the table is interpreted in the bit-provenance domain, per opcode, with
the opcode byte fixed and every other input bit symbolic: the getters must
return exactly the spec fields (position, width, sign, shift, role, order) and
get_raw() must reproduce every input bit.  The abstract value covers every
operand bit pattern at once.
"""
from __future__ import annotations

import ast

from ..absint import (Interp, Sym, BufV, BytesV, Comp, Lin, Obj, Raised, explore, show, Bound)
from ..bits import Bits, TOP, bits_relation
from ..consts import Folder, Ref, EnumVal, Unknown
from ..model import DEX, DEX_TYPES, AnalysisError
from ..spec import dalvik

_INLINE = {"*module*"}
_NO_INLINE = {"get_kind"}   # the pool resolver stays an opaque term on purpose

KIND_MAP = {"string": "STRING", "type": "TYPE", "field": "FIELD", "method": "METH", "proto": "PROTO",
            "call_site": "CALL_SITE", "method+proto": "METH_PROTO", "method_handle": "METHOD_HANDLE"}
ROLE_OPERAND = {"reg": "REGISTER", "lit": "LITERAL", "lit_high": "LITERAL", "off": "OFFSET"}


def spec_bits(parts, signed, asg):
    bl = []
    for unit, lo, width in parts:
        for j in range(lo, lo + width):
            k = ("s", 2 * unit + j // 8, j % 8)
            bl.append(asg.get(k, k))
    return Bits.source(bl, signed)


def subst(v, asg):
    return v.subst(asg) if isinstance(v, Bits) else v


class _Undecided(Exception):
    pass


def same_bits(v, exp, asg):
    """True/False; raises AnalysisError when the value left the exact bit domain and no known bit contradicts the spec"""
    if isinstance(v, int) and not isinstance(v, bool):
        v = Bits.const(v)
    if isinstance(v, Bits):
        rel = bits_relation(v.subst(asg), exp)
        if rel == "unknown":
            raise AnalysisError("an operand value left the exact bit domain (%s): the code uses arithmetic the interpreter cannot follow" % v.subst(asg).describe())
        return rel == "equal"
    if isinstance(v, (Sym, Lin)):
        raise AnalysisError("an operand value is an opaque term (%s): outside the interpreter's fragment" % show(v)[:120])
    return False


def run(ctx):
    ctx.explanation = __doc__
    repo = ctx.repo
    m = ctx.mod(DEX)
    ctx.mod(DEX_TYPES)
    folder = Folder(repo)
    table = folder.global_(m, "DALVIK_OPCODES_FORMAT")
    ctx.require(isinstance(table, dict) and not isinstance(table, Unknown), "DALVIK_OPCODES_FORMAT does not fold to a constant dict (the table is built by code the constant folder does not evaluate)")
    table_node = m.assigns.get("DALVIK_OPCODES_FORMAT")
    tfunc = "DALVIK_OPCODES_FORMAT"

    # ---- get_instruction: interpreted ------------------------------------------
    gi = m.func("get_instruction")
    ctx.analysed(gi)
    for probe_op, fail in ((0x12, False), (0x6E, False), (0x12, True)):
        def construct(it, cls, args, kwargs, e, func, fail=fail):
            if cls.is_subclass_of("Instruction") or cls.name.startswith("Instruction"):
                if fail:
                    raise Raised("struct.error", e, "short buffer")
                return Sym("constructed", cls.name, *args)
            return NotImplemented

        def run_gi(asg, probe_op=probe_op, construct=construct):
            it = Interp(repo, folder, asg=dict(asg), hooks={"construct": construct, "inline_funcs": {"*module*"}})
            return it.call_function(gi, [Sym("cm"), probe_op, BufV("buff")])

        res = explore(run_gi)
        ctx.require(len(res) == 1, "get_instruction: abstract run split into %d paths" % len(res))
        r = res[0][1]
        want_cls = table[probe_op][0].name
        if not fail:
            if isinstance(r, Sym) and r.op != "constructed":
                raise AnalysisError("get_instruction: result %s is outside the interpreter's fragment" % show(r)[:120])
            okd = isinstance(r, Sym) and r.op == "constructed" and r.args[0] == want_cls and list(r.args[1:3]) == [Sym("cm"), r.args[2]] and isinstance(r.args[2], BufV)
            ctx.check("dispatch", "get_instruction(cm, 0x%02x, buff) constructs %s(cm, buff)" % (probe_op, want_cls), okd, gi, "get_instruction(0x%02x)" % probe_op,
                      "get_instruction(cm, 0x%02x, buff) yields %s; the table assigns %s(cm, buff)" % (probe_op, show(r)[:120], want_cls))
        else:
            okc = isinstance(r, Raised) and r.exc.endswith("InvalidInstruction")
            ctx.check("dispatch", "struct.error -> InvalidInstruction", okc, gi, "short buffer in get_instruction",
                      "a short buffer (struct.error in the constructor) surfaces from get_instruction as %s, not as InvalidInstruction" % (r if isinstance(r, Raised) else show(r)[:80]))

    kind_cls = ctx.mod(DEX_TYPES).cls("Kind")
    kinds = folder.enum_members(kind_cls)
    operand = folder.enum_members(ctx.mod(DEX_TYPES).cls("Operand"))
    for k in ("REGISTER", "LITERAL", "OFFSET", "KIND"):
        ctx.require(k in operand, "Operand.%s missing" % k)

    classes_seen = set()
    n_rows = 0
    for op in range(256):
        row = table.get(op)
        inst = "op 0x%02x" % op
        if row is None:
            ctx.check("table", inst, False, tfunc, "0x%02X" % op, "opcode 0x%02x has no row in DALVIK_OPCODES_FORMAT" % op, node=table_node, file=None)
            continue
        n_rows += 1
        cls_ref = row[0] if isinstance(row, (list, tuple)) and row else None
        if not (isinstance(cls_ref, Ref) and cls_ref.kind == "class"):
            raise AnalysisError("row 0x%02x of DALVIK_OPCODES_FORMAT does not start with a class" % op)
        cls = cls_ref.obj
        names = row[1] if len(row) > 1 else []
        if op in dalvik.UNUSED:
            ctx.count("unused_rows")
            _check_unused(ctx, repo, folder, m, op, cls, table_node)
            continue
        name, fmt, kind, flow = dalvik.OPCODES[op]
        ctx.count("defined_rows")
        ctx.check("table/format", inst, cls.name == "Instruction" + fmt, _T(m), "0x%02X: %s" % (op, cls.name),
                  "opcode 0x%02x (%s) must use format %s, table says %s" % (op, name, fmt, cls.name), node=table_node,
                  detail="%s -> %s" % (name, cls.name))
        got_name = names[0] if names else None
        ctx.check("table/mnemonic", inst, got_name == name, _T(m), "0x%02X: %r" % (op, got_name),
                  "opcode 0x%02x is %r in the Dalvik specification, table says %r" % (op, name, got_name), node=table_node)
        got_kind = names[1] if len(names) > 1 else None
        exp_kind = KIND_MAP.get(kind) if kind else None
        gk = got_kind.member if isinstance(got_kind, EnumVal) else got_kind
        ctx.check("table/kind", inst, gk == exp_kind, _T(m), "0x%02X: kind %s" % (op, gk),
                  "opcode 0x%02x (%s) indexes the %s pool; table says Kind.%s" % (op, name, kind, gk), node=table_node)
        classes_seen.add(cls.name)
        _check_layout(ctx, repo, folder, m, op, cls, name, fmt, kind, got_kind, operand)
    ctx.count("rows", n_rows)
    ctx.count("format_classes", len(classes_seen))
    ctx.floor("rows", 256)
    ctx.floor("defined_rows", 224)
    ctx.floor("unused_rows", 32)
    ctx.floor("format_classes", 26)
    ctx.assume("cm.packer[fmt] is struct.Struct('<'+fmt) (DalvikPacker.__getitem__; endian tag checked under C09)")
    _check_packer(ctx, m)
    ctx.note("ODEX-only tables (DALVIK_OPCODES_OPTIMIZED) are outside the Dalvik specification the property names; not decided")


class _T:
    """pseudo-func for table findings"""

    def __init__(self, m):
        self.qualname = "DALVIK_OPCODES_FORMAT"
        self.file = m.relpath
        self.line = m.assigns["DALVIK_OPCODES_FORMAT"].lineno


def _check_packer(ctx, m):
    """DalvikPacker(0x12345678)[fmt] must be struct.Struct('<' + fmt): interpreted, not pattern-matched"""
    from ..absint import PackerV
    c = m.cls("DalvikPacker")
    gi = c.lookup("__getitem__")
    init = c.lookup("__init__")
    ctx.require(gi is not None and init is not None, "DalvikPacker.__init__/__getitem__ vanished")
    ctx.analysed(gi)
    folder = Folder(ctx.repo)

    def run(asg):
        it = Interp(ctx.repo, folder, asg=dict(asg), hooks={"inline_funcs": {"*module*"}})
        o = it.new_obj(c, "packer")
        it.call_function(init, [0x12345678], recv=o)
        return [it.call_function(gi, [fmt], recv=o) for fmt in ("BBh", "3H", "BBh")]

    res = explore(run)
    ok = len(res) >= 1
    why = ""
    for asg, r in res:
        if isinstance(r, Raised):
            ok, why = False, "raises %s" % r
            break
        for fmt, v in zip(("BBh", "3H", "BBh"), r):
            if isinstance(v, PackerV):
                if v.fmt != "<" + fmt:
                    ok, why = False, "packer[%r] is struct format %r" % (fmt, v.fmt)
            else:
                raise AnalysisError("DalvikPacker.__getitem__: result %s is outside the interpreter's fragment" % show(v)[:120])
    ctx.check("packer", "DalvikPacker(0x12345678)[fmt] == struct.Struct('<'+fmt)", ok, gi, "DalvikPacker.__getitem__",
              "DalvikPacker no longer maps packer[fmt] to the little-endian struct.Struct('<'+fmt): %s" % why,
              detail="packer['BBh'] -> Struct('<BBh')")


def _check_unused(ctx, repo, folder, m, op, cls, table_node):
    init = cls.lookup("__init__")

    def run(asg):
        asg = dict(asg)
        for i in range(8):
            asg[("s", 0, i)] = (op >> i) & 1
        it = Interp(repo, folder, asg=asg, hooks={"inline_funcs": _INLINE, "no_inline": _NO_INLINE})
        o = it.new_obj(cls)
        it.call_function(init, [Sym("cm"), BufV("buff")], recv=o)
        return o

    res = explore(run)
    bad = [r for a, r in res if not (isinstance(r, Raised) and r.exc.endswith("InvalidInstruction"))]
    ctx.check("unused-rejected", "op 0x%02x" % op, not bad, _T(m), "0x%02X: %s" % (op, cls.name),
              "opcode 0x%02x is unused in the Dalvik specification but %s can be constructed for it" % (op, cls.name),
              node=table_node, detail="%s raises InvalidInstruction on %d/%d paths" % (cls.name, len(res) - len(bad), len(res)))


def _getter(it, o, name, *args):
    f = o.cls.lookup(name)
    if f is None:
        return ("missing", None)
    try:
        return ("ok", it.call_function(f, list(args), recv=o))
    except Raised as r:
        return ("raised", r)


def _check_layout(ctx, repo, folder, m, op, cls, name, fmt, kind, kind_val, operand):
    spec = dalvik.FORMATS[fmt]
    nbytes = 2 * spec["units"]
    init = cls.lookup("__init__")
    for gname in ("__init__", "get_raw", "get_operands", "get_literals", "get_ref_off", "get_ref_kind", "get_length", "get_name", "get_op_value"):
        f = cls.lookup(gname)
        if f is not None:
            ctx.analysed(f)

    presets = [{}]
    if fmt in ("3rc", "4rcc"):
        # the register list has AA entries: decided for a set of concrete counts with every other bit symbolic
        presets = [{("s", 1, i): (v >> i) & 1 for i in range(8)} for v in (0, 1, 2, 3, 7, 255)]

    def run(asg):
        asg = dict(asg)
        for i in range(8):
            asg[("s", 0, i)] = (op >> i) & 1
        it = Interp(repo, folder, asg=asg, hooks={"inline_funcs": _INLINE, "no_inline": _NO_INLINE})
        o = it.new_obj(cls)
        it.call_function(init, [Sym("cm"), BufV("buff")], recv=o)
        out = {}
        for g in ("get_raw", "get_operands", "get_literals", "get_ref_off", "get_ref_kind", "get_length", "get_name", "get_op_value", "get_kind"):
            out[g] = _getter(it, o, g)
        return asg, out, list(it.events)

    inst = "op 0x%02x %s (%s)" % (op, name, fmt)
    res = []
    for pre in presets:
        res += [({**pre, **a}, r) for a, r in explore(lambda asg, pre=pre: run({**pre, **asg}))]
    ctx.count("paths", len(res))
    fields = {f[0]: f for f in spec["fields"]}
    zero_fields = [f for f in spec["fields"] if f[1] == "zero"]
    count_field = next((f for f in spec["fields"] if f[1] == "count"), None)
    n_ok_paths = 0
    for asg0, r in res:
        asg = dict(asg0)
        for i in range(8):
            asg[("s", 0, i)] = (op >> i) & 1
        if isinstance(r, Raised):
            # constructor raised: permitted only for spec-invalid encodings
            legit = False
            if r.exc.endswith("InvalidInstruction"):
                for zf in zero_fields:
                    zb = spec_bits(zf[2], False, asg)
                    if zb.is_const() and zb.value() != 0:
                        legit = True
                if count_field is not None and fmt in ("35c", "45cc"):
                    cb = spec_bits(count_field[2], False, asg)
                    if cb.is_const() and cb.value() > 5:
                        legit = True
            ctx.check("ctor-accepts", inst, legit, init, init.qualname,
                      "constructor raises %s for an encoding the specification allows (opcode 0x%02x %s)" % (r, op, name),
                      node=r.node, witness=_wit(asg0))
            continue
        n_ok_paths += 1
        asg_, out, events = r
        for ev in events:
            if ev[0] == "unpack-unsliced":
                ctx.check("length", inst, False, init, "unpack(%s)" % ev[1][1],
                          "constructor unpacks the unsliced buffer: length/truncation not enforced", node=init.node)
        # ---- length -----------------------------------------------------------
        st, ln = out["get_length"]
        ctx.check("length", inst, st == "ok" and ln == nbytes, cls.lookup("get_length") or init, "%s.length" % cls.name,
                  "get_length() is %s, the Dalvik format %s is %d bytes" % (show(ln), fmt, nbytes),
                  detail="length %s == 2*%d units" % (show(ln), spec["units"]))
        # ---- name / op -------------------------------------------------------------
        st, nm = out["get_name"]
        ctx.check("name", inst, st == "ok" and nm == name, cls.lookup("get_name"), "get_name",
                  "get_name() yields %r for opcode 0x%02x (%s)" % (nm, op, name))
        st, ov = out["get_op_value"]
        ctx.check("op-value", inst, st == "ok" and same_bits(ov, Bits.const(op), asg), cls.lookup("get_op_value"), "%s.OP" % cls.name,
                  "get_op_value() is %s, expected the opcode byte 0x%02x" % (show(ov), op))
        # ---- round trip ----------------------------------------------------------
        st, raw = out["get_raw"]
        graw = cls.lookup("get_raw")
        if st == "raised":
            ctx.check("round-trip", inst, False, graw, graw.qualname,
                      "get_raw() raises %s for some operand bit patterns of opcode 0x%02x %s" % (raw, op, name),
                      node=raw.node, witness=_wit(asg0))
        else:
            ok = isinstance(raw, BytesV) and len(raw.bytes) == nbytes
            bad = None
            if isinstance(raw, (Sym, Lin)):
                raise AnalysisError("%s.get_raw(): result %s is outside the interpreter's fragment" % (cls.name, show(raw)[:120]))
            if ok:
                unknown = None
                for k in range(nbytes):
                    for i in range(8):
                        e = asg.get(("s", k, i), ("s", k, i))
                        g = raw.bytes[k][i]
                        if isinstance(g, tuple):
                            g = asg.get(("s",) + g[1:], g) if g[0] == "s" else g
                        if g == TOP:
                            unknown = "output byte %d bit %d" % (k, i)
                            continue
                        if g != e:
                            ok = False
                            bad = "output byte %d bit %d is %s, input bit is %s" % (k, i, g, e)
                            break
                    if not ok:
                        break
                if ok and unknown:
                    raise AnalysisError("%s.get_raw(): %s left the exact bit domain for opcode 0x%02x" % (cls.name, unknown, op))
            else:
                bad = "get_raw() returns %s, expected %d bytes" % (show(raw), nbytes)
            ctx.check("round-trip", inst, ok, graw, graw.qualname,
                      "get_raw() does not reproduce the input bytes of opcode 0x%02x %s: %s" % (op, name, bad),
                      witness=_wit(asg0), detail="all %d output bits equal the input bits" % (8 * nbytes))
        # ---- getters -------------------------------------------------------------
        _check_getters(ctx, cls, inst, op, name, fmt, kind, kind_val, spec, fields, asg, out, operand, asg0)
    ctx.require(n_ok_paths > 0, "no accepting path for opcode 0x%02x" % op)


def _wit(asg):
    by = {}
    for k, v in asg.items():
        if k[0] == "s":
            by.setdefault(k[1], {})[k[2]] = v
    return {"byte%d" % b: "".join(str(bits.get(i, "x")) for i in range(7, -1, -1)) for b, bits in sorted(by.items())}


def _exp_field(f, op, asg):
    nm, role, parts, signed = f
    b = spec_bits(parts, signed, asg)
    if role == "lit_high":
        b = b.shl(dalvik.HIGH_SHIFT[op])
    return b


def _is_kind_entry(ent, kind_val, idx_exp, asg, operand):
    """(kind + Operand.KIND, idx, resolved)"""
    if not (isinstance(ent, tuple) and len(ent) >= 2):
        return False
    tag = ent[0]
    if isinstance(tag, Bits) and tag.is_const():
        tag = tag.value()
    if not isinstance(tag, int) or kind_val is None or tag != int(kind_val) + int(operand["KIND"]):
        return False
    if not same_bits(ent[1], idx_exp, asg):
        return False
    if len(ent) >= 3:
        r = ent[2]
        # resolved through get_kind(cm, <same kind>, <same index>)
        if isinstance(r, Sym) and r.op == "call" and r.args and r.args[0] == "get_kind":
            a = r.args[1:]
            if len(a) >= 3:
                kk = a[1]
                if isinstance(kk, Bits) and kk.is_const():
                    kk = kk.value()
                if not (isinstance(kk, int) and kk == int(kind_val)):
                    return False
                if not same_bits(a[2], idx_exp, asg):
                    return False
    return True


def _check_getters(ctx, cls, inst, op, name, fmt, kind, kind_val, spec, fields, asg, out, operand, asg0):
    gops = cls.lookup("get_operands")
    st, ops = out["get_operands"]
    REG, LIT, OFF = int(operand["REGISTER"]), int(operand["LITERAL"]), int(operand["OFFSET"])
    tagv = {"REGISTER": REG, "LITERAL": LIT, "OFFSET": OFF}

    def tag_of(ent):
        t = ent[0] if isinstance(ent, tuple) and ent else None
        if isinstance(t, Bits) and t.is_const():
            t = t.value()
        return t

    ok = False
    why = ""
    if st == "raised":
        why = "raises %s" % ops
    elif fmt in dalvik.OPERAND_ORDER:
        order = dalvik.OPERAND_ORDER[fmt]
        if isinstance(ops, list) and len(ops) == len(order):
            ok = True
            for ent, fn in zip(ops, order):
                f = fields[fn]
                exp = _exp_field(f, op, asg)
                if f[1] == "idx":
                    if not _is_kind_entry(ent, kind_val, exp, asg, operand):
                        ok = False
                        why = "operand %s: expected (Kind.%s+KIND, %s, resolved), got %s" % (fn, KIND_MAP.get(kind), exp.describe(), show(ent))
                        break
                else:
                    if not (isinstance(ent, tuple) and len(ent) == 2 and tag_of(ent) == tagv[ROLE_OPERAND[f[1]]] and same_bits(ent[1], exp, asg)):
                        ok = False
                        why = "operand %s: expected (%s, %s), got %s" % (fn, ROLE_OPERAND[f[1]], exp.describe(), show(ent))
                        break
        else:
            why = "expected %d operands %s, got %s" % (len(order), order, show(ops)[:200])
    elif fmt in ("35c", "45cc"):
        cb = spec_bits(fields["A"][2], False, asg)
        if not cb.is_const():
            # operands were not examined under a fixed count: force a split on A by asking for its truth
            why = "register count A not resolved on this path"
            if ops is None and fmt == "45cc":
                why = "get_operands() returns None: registers, method and proto index of %s are not exposed" % name
        else:
            a = cb.value()
            if a > 5:
                ok = True  # invalid by spec; nothing required
            elif isinstance(ops, list):
                regs = ["C", "D", "E", "F", "G"][:a]
                exp_len = a + 1 + (1 if fmt == "45cc" else 0)
                ok = len(ops) == exp_len
                if ok:
                    for ent, fn in zip(ops, regs):
                        exp = _exp_field(fields[fn], op, asg)
                        if not (isinstance(ent, tuple) and len(ent) == 2 and tag_of(ent) == REG and same_bits(ent[1], exp, asg)):
                            ok = False
                            why = "register %s: expected (REGISTER, %s) got %s" % (fn, exp.describe(), show(ent))
                    if ok and not _is_kind_entry(ops[a], kind_val, _exp_field(fields["BBBB"], op, asg), asg, operand):
                        ok = False
                        why = "index entry: got %s" % show(ops[a])
                else:
                    why = "expected %d entries for A=%d, got %s" % (exp_len, a, show(ops)[:200])
            else:
                why = "get_operands() returns %s" % show(ops)[:100]
                if ops is None:
                    why = "get_operands() returns None: registers, method and proto index of %s are not exposed" % name
    elif fmt in ("3rc", "4rcc"):
        # registers vCCCC .. vCCCC+AA-1 (AA is a constant on this path), then the pool index entry
        cccc = _exp_field(fields["CCCC"], op, asg)
        aa = _exp_field(fields["AA"], op, asg)
        if not aa.is_const():
            raise AnalysisError("%s: register count AA not fixed on this path" % inst)
        n = aa.value()
        if ops is None:
            why = "get_operands() returns None: registers, method and proto index of %s are not exposed" % name
        elif isinstance(ops, (Sym, Comp)):
            raise AnalysisError("%s.get_operands(): result %s is outside the interpreter's fragment" % (cls.name, show(ops)[:160]))
        elif isinstance(ops, list):
            exp_len = n + 1 + (1 if fmt == "4rcc" else 0)
            ok = len(ops) == exp_len
            if not ok:
                why = "expected %d register(s) vCCCC..vCCCC+%d then the index, got %d entries: %s" % (n, n - 1, len(ops), show(ops)[:200])
            else:
                for i_, ent in enumerate(ops[:n]):
                    want = Lin({cccc: 1}, i_)
                    val = ent[1] if isinstance(ent, tuple) and len(ent) == 2 else None
                    lv = Lin.of(subst(val, asg)) if val is not None and not isinstance(val, Lin) else val
                    if not (isinstance(ent, tuple) and len(ent) == 2 and tag_of(ent) == REG and lv is not None and _lin_eq(lv, want, asg)):
                        if isinstance(val, Sym):
                            raise AnalysisError("%s.get_operands(): register operand %s is an opaque term" % (cls.name, show(val)[:100]))
                        ok = False
                        why = "register %d: expected (REGISTER, CCCC+%d), got %s" % (i_, i_, show(ent)[:120])
                        break
                if ok and not _is_kind_entry(ops[n], kind_val, _exp_field(fields["BBBB"], op, asg), asg, operand):
                    ok = False
                    why = "index entry: got %s" % show(ops[n])[:160]
        else:
            why = "get_operands() returns %s" % show(ops)[:200]
    ctx.check("operands", inst, ok, gops, "%s.get_operands" % cls.name,
              "get_operands() of opcode 0x%02x %s (%s): %s" % (op, name, fmt, why), witness=_wit(asg0),
              detail="operands match spec order/roles/bit positions for format %s" % fmt)

    # literals
    lit = [f for f in spec["fields"] if f[1] in ("lit", "lit_high")]
    st, lv = out["get_literals"]
    if lit:
        exp = _exp_field(lit[0], op, asg)
        good = st == "ok" and isinstance(lv, list) and len(lv) == 1 and same_bits(lv[0], exp, asg)
        ctx.check("literal", inst, good, cls.lookup("get_literals"), "%s.get_literals" % cls.name,
                  "get_literals() of 0x%02x %s is %s, specification: %s" % (op, name, show(lv)[:160], exp.describe()),
                  detail="literal = %s" % exp.describe())
    else:
        good = st == "ok" and lv == []
        ctx.check("literal", inst, good, cls.lookup("get_literals"), "%s.get_literals" % cls.name,
                  "format %s has no literal but get_literals() returns %s" % (fmt, show(lv)[:100]))
    # branch offset
    off = [f for f in spec["fields"] if f[1] == "off"]
    if off:
        st, ov = out["get_ref_off"]
        exp = _exp_field(off[0], op, asg)
        ctx.check("offset", inst, st == "ok" and same_bits(ov, exp, asg), cls.lookup("get_ref_off") or cls.lookup("__init__"),
                  "%s.get_ref_off" % cls.name,
                  "get_ref_off() of 0x%02x %s is %s, specification: %s" % (op, name, show(ov)[:160], exp.describe()),
                  detail="offset = %s" % exp.describe())
    idx = [f for f in spec["fields"] if f[1] == "idx"]
    if idx:
        st, iv = out["get_ref_kind"]
        exp = _exp_field(idx[0], op, asg)
        ctx.check("index", inst, st == "ok" and same_bits(iv, exp, asg), cls.lookup("get_ref_kind"), "%s.get_ref_kind" % cls.name,
                  "get_ref_kind() of 0x%02x %s is %s, specification: %s" % (op, name, show(iv)[:160] if st == "ok" else iv, exp.describe()),
                  detail="index = %s" % exp.describe())
        st, kv = out["get_kind"]
        if isinstance(kv, Bits) and kv.is_const():
            kv = kv.value()
        ctx.check("index-kind", inst, st == "ok" and kind_val is not None and isinstance(kv, int) and kv == int(kind_val),
                  cls.lookup("get_kind"), "Instruction.get_kind",
                  "get_kind() of 0x%02x is %s, table says %s" % (op, show(kv), show(kind_val)))


def _lin_eq(a, b, asg):
    def nz(l):
        t = {}
        c = l.const
        for atom, k in l.terms.items():
            atom = subst(atom, asg)
            if isinstance(atom, Bits) and atom.is_const():
                c += k * atom.value()
            else:
                t[atom] = t.get(atom, 0) + k
        return {x: y for x, y in t.items() if y}, c
    return nz(a) == nz(b)


def _targets():
    # every constructor / get_raw / getter of the format classes + the dispatcher
    names = ["10x", "12x", "11n", "11x", "10t", "20t", "22x", "21t", "21s", "21h", "21c", "23x", "22b", "22t", "22s", "22c",
             "30t", "32x", "31i", "31t", "31c", "35c", "3rc", "51l"]
    out = [(DEX, "get_instruction"), (DEX, "Instruction.get_length"), (DEX, "Instruction.get_kind"), (DEX, "Instruction.get_name")]
    for n in names:
        for meth in ("__init__", "get_raw", "get_operands", "get_literals", "get_ref_off", "get_ref_kind"):
            out.append((DEX, "Instruction%s.%s" % (n, meth)))
    return out


class _LazyTargets(list):
    pass


MUTATION_TARGETS = _targets()
MUTATION_LIMIT = 240
