"""fixture package for the C35 rule (never imported, only parsed)"""
