"""APK Signature Scheme constants, written from the public documents
(source.android.com/docs/security/features/apksigning/v2, /v3, /v3-1), not from the repository.

APK Signing Block layout (v2 document, "APK Signing Block"):
    uint64  size of block (excluding this field)
    sequence of uint64-length-prefixed ID-value pairs:   uint64 length, uint32 ID, value (length-4 bytes)
    uint64  size of block (same as the first field)
    uint128 magic "APK Sig Block 42"
The block is located immediately before the ZIP Central Directory.
"""
MAGIC = b"APK Sig Block 42"
V2_ID = 0x7109871A        # APK Signature Scheme v2 Block
V3_ID = 0xF05368C0        # APK Signature Scheme v3 Block
V31_ID = 0x1B93AD61       # APK Signature Scheme v3.1 Block
STRIPPING_PROTECTION_ATTR = 0xBEEFF00D
VERITY_PADDING_ID = 0x42726577  # an id that is not a signature scheme (used as "other" block)
PAIR_FORMAT = ("Q", "I")  # length, id
