"""Stand-in for the DEX object model in the C22 fixture (parsed only): getters that hand out their own list / a copy."""


class Payload:
    def __init__(self, raw):
        self.keys = []
        for b in raw:
            self.keys.append(b)
        self.size = len(raw)

    def get_keys(self):
        return self.keys

    def get_stored_values(self):
        return self.get_keys()

    def get_fresh_values(self):
        return [k + 1 for k in self.keys]

    def get_size(self):
        return self.size
