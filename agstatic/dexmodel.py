"""Shared abstract model of the DEX item classes for the C05 / C07 / C17 rules.

* StreamV + interpreter hooks: the item constructors are abstractly interpreted
  (agstatic.absint.Interp) against a symbolic input stream.  ``buff.read(n)`` at a
  known position yields bit-provenance values whose sources name the byte
  offsets; LEB128 reads yield ordinal-numbered symbols; ``cm.<accessor>(x)``
  yields the opaque term ``cm.<accessor>(x)``.
* prov(): the provenance set of an abstract value -- which input leaves reach
  it through which chain of resolvers / constant subscripts.
* CMInfo: which map sections every ``ClassManager`` method reads (derived from
  ``add_type_item`` and the ``__manage_item[TypeMapItem.X]`` subscripts).
* CallGraph: may-call resolution inside the dex module with receiver typing.

Nothing here executes repository code: everything works on the ast.
"""
from __future__ import annotations

import ast
import itertools
import struct as _struct

from .absint import (Interp, Sym, Lin, BufV, BytesV, Obj, Comp, Bound, Raised, PackerV, LambdaV, CondV, Split, explore, show,
                     _Break, _Continue)
from .bits import Bits
from .consts import Folder, Ref, EnumVal, Unknown
from .model import DEX, DEX_TYPES, AnalysisError, walk_no_nested, dotted

STREAM_SPAN = 1 << 20
LEB_READERS = {"readuleb128": "uleb128", "readuleb128p1": "uleb128p1", "readsleb128": "sleb128"}


class StreamV:
    """abstract BinaryIO positioned at `pos` (int, or a symbolic Lin/Sym once a
    variable-length read happened).  Byte k of stream number n is input byte
    n*STREAM_SPAN + k in the bit-provenance domain."""

    _ids = itertools.count()

    def __init__(self, name="buff", index=None):
        self.name = name
        self.index = next(StreamV._ids) if index is None else index
        self.base = self.index * STREAM_SPAN
        self.pos = 0
        self.log = []  # ('struct'|'raw'|'leb'|'seek'|'tell'|'cstring'|'new', ...)
        self.n_leb = 0

    def __repr__(self):
        return "<stream %s>" % self.name

    def __bool__(self):
        return True


class PackerFactoryV:
    """the value of DalvikPacker(endian_tag): packer[fmt] is struct.Struct('<' + fmt) (endian tag checked under C09)"""

    def __repr__(self):
        return "<DalvikPacker>"


def is_cm(v):
    return isinstance(v, Sym) and v.op == "cm"


class DexInterp(Interp):
    """Interp with the stream / ClassManager / constructor model plugged in."""

    def __init__(self, repo, folder=None, asg=None, construct=None, serials=False, on_new=None,
                 inline_module=None, on_cm_call=None, opaque_default=None):
        self.opaque_default = opaque_default
        self.construct = construct or (lambda cls: False)
        self.serials = serials
        self.serial = 0
        self.on_new = on_new
        self.on_cm_call = on_cm_call
        self.new_log = []  # (cls, obj, args)
        hooks = {"method": self._h_method, "call": self._h_call, "subscript": self._h_subscript}
        if inline_module is not None:
            hooks["inline_funcs"] = {f.qualname for f in inline_module.functions.values()
                                     if f.cls is None and f.name not in LEB_READERS
                                     and f.name != "read_null_terminated_string"}
        super().__init__(repo, folder, asg=asg, hooks=hooks)

    def call_function(self, func, args, kwargs=None, recv=None):
        # the shared interpreter binds the receiver unconditionally: honour @staticmethod / @classmethod
        for d in getattr(func.node, "decorator_list", ()):
            if isinstance(d, ast.Name) and d.id == "staticmethod":
                recv = None
            elif isinstance(d, ast.Name) and d.id == "classmethod" and func.cls is not None:
                recv = Ref("class", func.cls)
        return super().call_function(func, args, kwargs, recv=recv)

    def _decide(self, v):
        if isinstance(v, bool):
            return v
        if isinstance(v, Bits):
            v = v.subst(self.asg)
            return (v.value() != 0) if v.is_const() else None
        if isinstance(v, CondV):
            try:
                return self.truth_cond_eval(v)
            except Exception:
                return None
        if isinstance(v, (Sym, Lin, Comp)):
            return None
        try:
            return bool(v)
        except Exception:
            return None

    def exec_while(self, s, env, func):
        """a while-loop whose test is undecidable in the abstract domain (`while len(xs) < self.size`) is treated like a
        for-loop over a symbolic sequence: the body is analysed once"""
        n = 0
        while True:
            d = self._decide(self.eval(s.test, env, func))
            if d is None:
                self.events.append(("symbolic-loop", (func.qualname, ast.unparse(s.test))))
                try:
                    self.exec_block(s.body, env, func)
                except (_Break, _Continue):
                    pass
                return
            if not d:
                self.exec_block(s.orelse, env, func)
                return
            n += 1
            if n > 64:
                raise AnalysisError("%s: while loop not bounded by abstract evaluation" % func.loc(s))
            try:
                self.exec_block(s.body, env, func)
            except _Break:
                return
            except _Continue:
                continue

    def unknown(self, v, node, func, **kw):
        """opaque_default=False: follow only the path on which every opaque validation test is false
        (the 'all checks pass' path of `if bad: raise` style code) instead of splitting"""
        if self.opaque_default is not None:
            return self.opaque_default
        return super().unknown(v, node, func, **kw)

    def truth_cond(self, c, node, func):
        if self.opaque_default is not None:
            r = self.truth_cond_eval(c)
            return self.opaque_default if r is None else r
        return super().truth_cond(c, node, func)

    def truth(self, v, node, func):
        if self.opaque_default is not None and isinstance(v, Bits):
            v = v.subst(self.asg)
            return (v.value() != 0) if v.is_const() else self.opaque_default
        return super().truth(v, node, func)

    # ---- streams ------------------------------------------------------------
    def _stream_read(self, st, n, node):
        n = n.value() if isinstance(n, Bits) and n.is_const() else n
        if isinstance(st.pos, int) and isinstance(n, int) and not isinstance(n, bool):
            v = BufV(st.name, st.base + st.pos, n)
            st.log.append(("raw", st.pos, n))
            st.pos += n
            return v
        v = Sym("read", st.name, st.pos, n)
        st.log.append(("raw", st.pos, n))
        st.pos = self.binop(ast.Add(), st.pos, n, node)
        return v

    def _h_method(self, it, recv, name, args, kwargs, e, func):
        if isinstance(recv, StreamV):
            if name == "read":
                if not args:
                    recv.log.append(("raw", recv.pos, None))
                    return Sym("read", recv.name, recv.pos, None)
                return self._stream_read(recv, args[0], e)
            if name == "tell":
                recv.log.append(("tell", recv.pos))
                return recv.pos
            if name == "seek":
                tgt = args[0]
                tgt = tgt.value() if isinstance(tgt, Bits) and tgt.is_const() else tgt
                recv.log.append(("seek", tgt))
                recv.pos = tgt
                return tgt
            return Sym("stream." + name, recv.name, *args)
        if is_cm(recv):
            extra = ()
            if self.serials:
                self.serial += 1
                extra = (Sym("#", self.serial),)
            if self.on_cm_call:
                self.on_cm_call(name, args, self.serial)
            return Sym("cm." + name, *(tuple(args) + extra))
        return NotImplemented

    # ---- calls -----------------------------------------------------------------
    def _h_call(self, it, name, callee, args, kwargs, e, func):
        if isinstance(callee, Ref) and callee.kind == "func" and callee.obj.cls is None:
            fn = callee.obj.name
            if fn in LEB_READERS and len(args) >= 2 and isinstance(args[1], StreamV):
                st = args[1]
                k = st.n_leb
                st.n_leb += 1
                if getattr(st, "leb_values", None):
                    return st.leb_values.pop(0)   # scenario streams with concrete LEB128 values
                st.log.append(("leb", LEB_READERS[fn], k))
                st.pos = self.binop(ast.Add(), st.pos, Sym("leblen", st.name, k), e)
                return Sym(LEB_READERS[fn], st.name, k)
            if fn == "read_null_terminated_string" and args and isinstance(args[0], StreamV):
                st = args[0]
                k = st.n_leb
                st.n_leb += 1
                st.log.append(("cstring", k))
                st.pos = self.binop(ast.Add(), st.pos, Sym("strlen", st.name, k), e)
                return Sym("cstring", st.name, k)
        if name == "setattr" and len(args) == 3 and isinstance(args[0], Obj) and isinstance(args[1], str) and not isinstance(callee, (Ref, Bound)):
            args[0].attrs[args[1]] = args[2]
            return None
        if name == "calcsize" and args and isinstance(args[0], str):
            try:
                return _struct.calcsize("<" + args[0].lstrip("<=@!>"))
            except _struct.error:
                raise AnalysisError("%s: calcsize(%r)" % (func.loc(e), args[0]))
        if name == "unpack" and len(args) == 2 and isinstance(args[0], str) and not isinstance(callee, (Ref, Bound)):
            return self.struct_unpack(args[0], args[1], e, func)
        if name == "pack" and args and isinstance(args[0], str) and not isinstance(callee, (Ref, Bound)):
            return self.struct_pack(args[0], args[1:], e, func)
        if name == "isinstance" and len(args) == 2 and isinstance(args[0], Obj) and args[0].cls is not None:
            classes = args[1] if isinstance(args[1], tuple) else (args[1],)
            if all(isinstance(c, Ref) and c.kind == "class" for c in classes):
                return any(args[0].cls.is_subclass_of(c.obj.name) for c in classes)
        if isinstance(callee, Ref) and callee.kind == "class" and callee.obj.name == "DalvikPacker" and callee.obj.lookup("__getitem__") is not None:
            return PackerFactoryV()
        if isinstance(callee, Ref) and callee.kind == "class" and self.construct(callee.obj):
            return self.construct_obj(callee.obj, args, kwargs)
        return NotImplemented

    def construct_obj(self, cls, args, kwargs=None, name=None):
        o = Obj(cls, name or cls.name.lower())
        init = cls.lookup("__init__")
        for a in args:
            if isinstance(a, StreamV):
                a.log.append(("new", cls.name, o))
        self.new_log.append((cls, o, list(args)))
        if init is not None:
            self.call_function(init, list(args), kwargs, recv=o)
        if self.on_new:
            self.on_new(cls, o, args)
        return o

    # Comp[idx] where the comprehension's element is an abstract object: the representative element
    def _h_subscript(self, it, base, k, e, func):
        if isinstance(base, PackerFactoryV) and isinstance(k, str):
            return PackerV("<" + k)
        if isinstance(base, Comp) and base.kind == "list" and isinstance(base.elt, Obj):
            base.elt.attrs["__selected_by__"] = k
            return base.elt
        return NotImplemented


def explore_first(run, max_runs=600):
    """depth-first search for ONE abstract path on which run(asg) does not raise: opaque tests are tried False first,
    and a path that ends in an abstract exception is abandoned by flipping its most recent undecided test.
    (`if bad: raise` and `if good: return; raise` validation chains are passed on the all-checks-pass path.)
    -> (asg, result)"""
    stack = [{}]
    runs = 0
    last = None
    while stack:
        asg = stack.pop()
        runs += 1
        if runs > max_runs:
            raise AnalysisError("no non-raising abstract path found within %d runs (last: %s)" % (max_runs, last))
        try:
            return asg, run(asg)
        except Split as sp:
            keys = [k for k in sp.keys if k not in asg]
            if not keys:
                raise AnalysisError("split made no progress: %r" % (sp.keys,))
            alts = list(itertools.product((0, 1), repeat=len(keys)))[:16]
            for vals in reversed(alts):
                a2 = dict(asg)
                a2.update(zip(keys, vals))
                stack.append(a2)
        except Raised as r:
            last = r
            continue
    raise AnalysisError("every abstract path raises (last: %s)" % last)


def bind_ctor_args(cls, stream, cm, size=None):
    """positional argument list for cls.__init__ from the roles (stream, class manager, element count)"""
    init = cls.lookup("__init__")
    if init is None:
        raise AnalysisError("class %s has no __init__" % cls.name)
    out = []
    a = init.node.args
    for p in (a.posonlyargs + a.args)[1:]:
        ann = ast.unparse(p.annotation) if p.annotation is not None else ""
        if p.arg in ("cm", "class_manager", "CM") or "ClassManager" in ann:
            out.append(cm)
        elif p.arg in ("buff", "buf", "raw") or "BinaryIO" in ann or ann == "IO":
            out.append(stream)
        elif p.arg in ("size", "nb", "count"):
            out.append(size if size is not None else Sym("param", p.arg))
        else:
            raise AnalysisError("%s: constructor parameter %r has no known role (stream / class manager / size)"
                                % (init.loc(), p.arg))
    return out


# ---------------------------------------------------------------------------
# provenance
TRANSPARENT = {"strop", "strformat", "fstring", "str", "int", "list", "tuple", "sorted", "Add", "concat", "extend", "slice"}
LEAF_OPS = {"uleb128", "uleb128p1", "sleb128", "cstring", "param", "leblen", "strlen", "cursor"}


class Opaque(Exception):
    pass


def prov(v, chain=(), loopenv=None, out=None, opaque=None):
    """-> set of (leaf, chain).  leaf: ('bits', Bits) | ('lin', key) | (op, ...);  chain: wrappers
    leaf-outwards such as ('cm', 'get_type', 0), ('index', 2), ('pos', 1), ('new', 'DCode', 3).
    Constants contribute nothing.  Terms the model does not understand are
    collected in `opaque` (list) and their arguments are still traversed."""
    if out is None:
        out = set()
    if opaque is None:
        opaque = []
    loopenv = loopenv or {}

    def rec(x, ch):
        prov(x, ch, loopenv, out, opaque)

    if v is None or isinstance(v, (bool, str, bytes, float)) or (isinstance(v, int) and not isinstance(v, Bits)):
        return out
    if isinstance(v, Bits):
        if v.is_const():
            return out
        if v.has_top():
            opaque.append("TOP bits")
        out.add((("bits", v), chain))
        return out
    if isinstance(v, Lin):
        for atom, coef in sorted(v.terms.items(), key=lambda kv: show(kv[0])):
            rec(atom, chain + (("lin", coef),))
        return out
    if isinstance(v, (list, tuple)):
        for i, x in enumerate(v):
            rec(x, chain + (("pos", i),))
        return out
    if isinstance(v, dict):
        for k, x in v.items():
            rec(x, chain + (("key", show(k)),))
        return out
    if isinstance(v, BytesV):
        srcs = []
        for by in v.bytes:
            for b in by:
                if isinstance(b, tuple):
                    srcs.append(b)
        if srcs:
            out.add((("bytes", tuple(srcs)), chain))
        return out
    if isinstance(v, BufV):
        out.add((("buf", v.start, v.length), chain))
        return out
    if isinstance(v, Comp):
        env2 = dict(loopenv)
        env2[v.var] = (v.iter, chain)
        prov(v.elt, chain, env2, out, opaque)
        for c in v.conds:
            prov(c, chain + (("cond",),), env2, out, opaque)
        return out
    if isinstance(v, Obj):
        out.add((("obj", v.cls.name if v.cls else "?", id(v)), chain))
        return out
    if isinstance(v, StreamV):
        out.add((("stream", v.name), chain))
        return out
    if isinstance(v, CondV):
        rec(v.a, chain + (("cond",),))
        rec(v.b, chain + (("cond",),))
        return out
    if isinstance(v, (Ref, EnumVal, LambdaV, PackerV, Bound)):
        return out
    if isinstance(v, Sym):
        op = v.op
        if op == "#":
            return out
        if op == "loopvar":
            if v.args and v.args[0] in loopenv:
                itv, ch0 = loopenv[v.args[0]]
                prov(itv, chain, {k: x for k, x in loopenv.items() if k != v.args[0]}, out, opaque)
            else:
                opaque.append("unbound loop variable %s" % (v.args[:1],))
            return out
        if op == "elem":  # element of a symbolic for-loop
            rec(v.args[0], chain)
            return out
        if isinstance(op, str) and op.startswith("cm."):
            args = [a for a in v.args if not (isinstance(a, Sym) and a.op == "#")]
            if not args:
                out.add((("cm0", op[3:]), chain))
            for i, a in enumerate(args):
                rec(a, chain + (("cm", op[3:], i),))
            return out
        if op in LEAF_OPS:
            out.add(((op,) + tuple(a if isinstance(a, (str, int)) else show(a) for a in v.args), chain))
            return out
        if op == "read":
            out.add((("read", v.args[0], show(v.args[1]), show(v.args[2])), chain))
            rec(v.args[1], chain + (("read-pos",),))
            rec(v.args[2], chain + (("read-len",),))
            return out
        if op == "unpacked":
            fmt, i, buf = v.args
            rec(buf, chain + (("unpacked", fmt, i),))
            return out
        if op in ("index", "item"):
            base, k = v.args
            k = k.value() if isinstance(k, Bits) and k.is_const() else k
            if isinstance(k, int):
                rec(base, chain + (("index", k),))
            else:
                rec(base, chain + (("index", "?"),))
                rec(k, chain + (("as-index",),))
            return out
        if op == "new":
            for i, a in enumerate(v.args[1:]):
                rec(a, chain + (("new", v.args[0], i),))
            return out
        if op == "enum":
            rec(v.args[1], chain + (("enum", v.args[0]),))
            return out
        if op in ("range",):
            for a in v.args:
                rec(a, chain + (("range",),))
            return out
        if op in ("BitAnd", "BitOr", "BitXor", "LShift", "RShift", "Mod", "FloorDiv", "Mult", "Sub") and len(v.args) == 2:
            # arithmetic with a constant applied to a value read from the file: a known modification of that value
            a0, a1 = v.args
            c0 = a0.value() if isinstance(a0, Bits) and a0.is_const() else a0
            c1 = a1.value() if isinstance(a1, Bits) and a1.is_const() else a1
            if isinstance(c1, int) and not isinstance(c1, (bool, Bits)):
                rec(a0, chain + (("arith", op, c1),))
                return out
            if isinstance(c0, int) and not isinstance(c0, (bool, Bits)):
                rec(a1, chain + (("arith", op + "-by", c0),))
                return out
        if op in TRANSPARENT:
            for a in v.args:
                if not isinstance(a, str) or op not in ("strop",):
                    rec(a, chain)
            return out
        if op == "call" and v.args and isinstance(v.args[0], Sym) and v.args[0].op == "attr" \
                and len(v.args[0].args) == 2 and isinstance(v.args[0].args[0], str) and v.args[0].args[1] == "join":
            for a in v.args[1:]:
                rec(a, chain)
            return out
        opaque.append(show(v)[:100])
        for a in v.args:
            if isinstance(a, (Sym, Bits, Lin, list, tuple, Comp, Obj)):
                rec(a, chain + (("opaque", str(op)),))
        return out
    opaque.append("value %s" % type(v).__name__)
    return out


def show_prov(p):
    def leaf(l):
        if l[0] == "bits":
            return "<" + l[1].describe() + ">"
        return "%s(%s)" % (l[0], ", ".join(str(x) for x in l[1:]))

    def ch(c):
        out = []
        for w in c:
            if w[0] == "cm":
                out.append("cm.%s#%d" % (w[1], w[2]))
            else:
                out.append("%s%s" % (w[0], list(w[1:]) if len(w) > 1 else ""))
        return "<-".join(reversed(out)) if out else "direct"

    return sorted("%s via %s" % (leaf(l), ch(c)) for l, c in p)


def slot_bits(stream_index, off, nbytes, signed=False, asg=None):
    """expected value of the unsigned little-endian field at byte `off` of stream `stream_index`"""
    base = stream_index * STREAM_SPAN
    bl = []
    for k in range(nbytes):
        for i in range(8):
            key = ("s", base + off + k, i)
            bl.append(asg.get(key, key) if asg else key)
    return Bits.source(bl, signed)


def describe_bits(b):
    """'bytes 4..7 of stream 0' style description"""
    srcs = b.sources()
    if not srcs:
        return b.describe()
    by = sorted({s[1] for s in srcs})
    st = {x // STREAM_SPAN for x in by}
    lo, hi = by[0] % STREAM_SPAN, by[-1] % STREAM_SPAN
    return "byte%s %d..%d%s" % ("s" if hi > lo else "", lo, hi, "" if len(st) == 1 else " (several streams)")


# ---------------------------------------------------------------------------
# ClassManager: which sections does each method read?
class CMInfo:
    """section attribution of ClassManager state.

    table_attr   -- the dict keyed by TypeMapItem (``__manage_item``)
    side_attrs   -- {attr: section member name} for per-section side tables filled in add_type_item
    order_attrs  -- attrs filled by .append in add_type_item (registration order)
    any_attrs    -- dicts filled for every section (offset -> object)
    direct       -- {method name: set(sections)}; 'ORDER' / 'ANY' pseudo sections
    """

    def __init__(self, repo, folder=None):
        self.repo = repo
        self.folder = folder or Folder(repo)
        self.m = repo.mod(DEX)
        self.types_mod = repo.mod(DEX_TYPES)
        self.cls = self.m.cls("ClassManager")
        self.enum_cls = self.types_mod.cls("TypeMapItem")
        self.members = {k: v for k, v in self.folder.enum_members(self.enum_cls).items() if isinstance(v, EnumVal)}
        self.add = self.cls.lookup("add_type_item")
        if self.add is None:
            raise AnalysisError("anchor vanished: ClassManager.add_type_item")
        self._analyse_add()
        self.direct = {}
        self.nodes = {}
        self.parametric = {}   # helper name -> parameter position (0-based, self excluded) used as  table[<param>]
        for name, f in self.cls.methods.items():
            self.direct[name], self.nodes[name] = self._direct(f)
        # helpers of the form  def h(self, section, ...): ... self.<table>[section] ...  are attributed at their call sites
        if self.parametric:
            for name, f in self.cls.methods.items():
                for n in walk_no_nested(f.node):
                    if isinstance(n, ast.Call) and isinstance(n.func, ast.Attribute) and isinstance(n.func.value, ast.Name) \
                            and n.func.value.id == "self" and n.func.attr in self.parametric:
                        pos = self.parametric[n.func.attr]
                        arg = n.args[pos] if pos < len(n.args) else None
                        mem = self.member_of(arg) if arg is not None else None
                        if mem is None and isinstance(arg, ast.Name) and name in self.parametric and \
                                f.params()[1:][self.parametric[name]:self.parametric[name] + 1] == [arg.id]:
                            continue  # parametric helper forwarding its own section parameter
                        sec = mem if mem is not None else "ANY"
                        self.direct[name].add(sec)
                        self.nodes[name].append((sec, n))

    def mangled(self, attr):
        if attr.startswith("__") and not attr.endswith("__"):
            return "_ClassManager" + attr
        return attr

    def member_of(self, e):
        """TypeMapItem.X expression -> 'X' or None"""
        d = dotted(e)
        if d and d.startswith(self.enum_cls.name + "."):
            return d.split(".", 1)[1]
        return None

    def _self_attr(self, e, selfname="self"):
        if isinstance(e, ast.Attribute) and isinstance(e.value, ast.Name) and e.value.id == selfname:
            return e.attr
        return None

    def _analyse_add(self):
        f = self.add
        params = f.params()
        if len(params) < 4:
            raise AnalysisError("%s: expected (self, type, map item, item)" % f.loc())
        tparam = params[1]
        self.add_type_param = tparam
        self.table_attr = None
        self.side_attrs = {}
        self.order_attrs = set()
        self.any_attrs = set()
        self.add_stores = []  # (attr, kind, key_src, guard_member)

        def guard_of(node):
            """innermost enclosing `if <tparam> == TypeMapItem.X` on the true branch"""
            n = node
            while True:
                p = getattr(n, "_parent", None)
                if p is None or p is f.node:
                    return None
                if isinstance(p, ast.If) and n in p.body and isinstance(p.test, ast.Compare) and len(p.test.ops) == 1 \
                        and isinstance(p.test.ops[0], ast.Eq):
                    a, b = p.test.left, p.test.comparators[0]
                    for x, y in ((a, b), (b, a)):
                        if isinstance(x, ast.Name) and x.id == tparam and self.member_of(y):
                            return self.member_of(y)
                n = p

        for n in walk_no_nested(f.node):
            if isinstance(n, ast.Assign):
                for t in n.targets:
                    if isinstance(t, ast.Subscript):
                        attr = self._self_attr(t.value)
                        if attr is None:
                            continue
                        g = guard_of(n)
                        key = t.slice
                        if isinstance(key, ast.Name) and key.id == tparam and g is None:
                            if self.table_attr not in (None, attr):
                                raise AnalysisError("%s: two tables keyed by the section type" % f.loc(n))
                            self.table_attr = attr
                            self.add_stores.append((attr, "by-type", ast.unparse(key), None))
                        elif g is not None:
                            if self.side_attrs.get(attr, g) != g:
                                raise AnalysisError("%s: side table %s filled for two sections" % (f.loc(n), attr))
                            self.side_attrs[attr] = g
                            self.add_stores.append((attr, "by-key", ast.unparse(key), g))
                        else:
                            self.any_attrs.add(attr)
                            self.add_stores.append((attr, "by-key", ast.unparse(key), None))
            elif isinstance(n, ast.Call) and isinstance(n.func, ast.Attribute) and n.func.attr in ("append", "extend", "insert", "add"):
                attr = self._self_attr(n.func.value)
                if attr is not None:
                    self.order_attrs.add(attr)
                    self.add_stores.append((attr, n.func.attr, "", guard_of(n)))
        if self.table_attr is None:
            raise AnalysisError("%s: no store  self.<table>[%s] = item  found" % (f.loc(), tparam))

    def _direct(self, f):
        """sections read directly by ClassManager method f (Load context), with the ast nodes"""
        secs, nodes = set(), []
        is_add = f is self.add
        for n in walk_no_nested(f.node):
            if isinstance(n, ast.Attribute) and isinstance(n.ctx, ast.Load):
                attr = self._self_attr(n)
                if attr is None:
                    continue
                p = getattr(n, "_parent", None)
                storing = isinstance(p, ast.Subscript) and p.value is n and isinstance(p.ctx, (ast.Store, ast.Del))
                mutating = isinstance(p, ast.Attribute) and p.value is n and p.attr in ("append", "extend", "insert", "add", "clear") \
                    and isinstance(getattr(p, "_parent", None), ast.Call)
                if storing or mutating:
                    continue
                if attr == self.table_attr:
                    if isinstance(p, ast.Subscript) and p.value is n:
                        mem = self.member_of(p.slice)
                        if mem is not None:
                            secs.add(mem)
                            nodes.append((mem, p))
                            continue
                        params = f.params()[1:]
                        if isinstance(p.slice, ast.Name) and p.slice.id in params and f is not self.add and not any(
                                isinstance(x, ast.Name) and x.id == p.slice.id and isinstance(x.ctx, ast.Store) for x in ast.walk(f.node)):
                            self.parametric[f.name] = params.index(p.slice.id)
                            continue
                    secs.add("ANY")
                    nodes.append(("ANY", n))
                elif attr in self.side_attrs:
                    secs.add(self.side_attrs[attr])
                    nodes.append((self.side_attrs[attr], n))
                elif attr in self.order_attrs:
                    secs.add("ORDER")
                    nodes.append(("ORDER", n))
                elif attr in self.any_attrs:
                    secs.add("ANY")
                    nodes.append(("ANY", n))
        return secs, nodes


# ---------------------------------------------------------------------------
# call graph with receiver typing (dex module only)
class CallGraph:
    """may-call edges between functions of the dex module.

    callees(func) -> list of (Func, precise: bool, call node).  Receiver typing:
    ``self`` -> enclosing class; names/attributes bound to the ClassManager (parameter annotated
    or named cm, ``self.X = cm``); locals assigned from a constructor call or from a call whose callee
    has a return annotation naming repository classes; otherwise every class of
    the module that defines the method (imprecise, a superset)."""

    CONTAINER_METHODS = {"append", "extend", "insert", "pop", "remove", "clear", "items", "keys", "values", "get",
                         "setdefault", "update", "add", "discard", "format", "join", "split", "replace", "decode",
                         "encode", "startswith", "endswith", "strip", "lstrip", "rstrip", "debug", "warning", "error",
                         "info", "read", "seek", "tell", "unpack", "pack", "getbuffer", "index", "count", "sort",
                         "copy", "lower", "upper", "rsplit", "time", "hex", "to_bytes", "from_bytes"}

    def __init__(self, repo):
        self.repo = repo
        self.m = repo.mod(DEX)
        self.cm_cls = self.m.cls("ClassManager")
        self.definers = {}
        for c in self.m.classes.values():
            for name, f in c.methods.items():
                self.definers.setdefault(name, []).append(f)
        self._cm_attrs = {}
        self._container_attrs = {}
        self._cache = {}
        self.cmi = None       # CMInfo, set by the caller for table typing
        self.sections = {}    # member name -> types of the table entry

    # -- typing helpers -----------------------------------------------------------
    def cm_attrs(self, cls):
        """instance attributes of cls that hold the ClassManager"""
        if cls is None:
            return set()
        if cls.name in self._cm_attrs:
            return self._cm_attrs[cls.name]
        out = set()
        for c in cls.mro():
            for f in c.methods.values():
                cmnames = self.cm_params(f)
                for n in walk_no_nested(f.node):
                    if isinstance(n, ast.Assign) and isinstance(n.value, ast.Name) and n.value.id in cmnames:
                        for t in n.targets:
                            if isinstance(t, ast.Attribute) and isinstance(t.value, ast.Name) and t.value.id == "self":
                                out.add(t.attr)
        self._cm_attrs[cls.name] = out
        return out

    def container_attrs(self, cls):
        """instance attributes initialised to a dict/list/set display (builtin containers)"""
        if cls is None:
            return set()
        if cls.name in self._container_attrs:
            return self._container_attrs[cls.name]
        out = set()
        for c in cls.mro():
            for f in c.methods.values():
                for n in walk_no_nested(f.node):
                    if isinstance(n, ast.Assign) and isinstance(n.value, (ast.Dict, ast.List, ast.Set, ast.ListComp, ast.DictComp)) \
                            or isinstance(n, ast.Assign) and isinstance(n.value, ast.Call) and dotted(n.value.func) in ("dict", "list", "set", "OrderedDict"):
                        for t in n.targets:
                            if isinstance(t, ast.Attribute) and isinstance(t.value, ast.Name) and t.value.id == "self":
                                out.add(t.attr)
        self._container_attrs[cls.name] = out
        return out

    def cm_params(self, f):
        out = set()
        a = f.node.args
        for p in a.posonlyargs + a.args + a.kwonlyargs:
            ann = ast.unparse(p.annotation) if p.annotation is not None else ""
            if "ClassManager" in ann or p.arg in ("cm", "class_manager"):
                out.add(p.arg)
        return out

    # types are lists of ("inst", Cls) / ("list", Cls)
    def classes_in_annotation(self, ann):
        """annotation -> types; `list[X]` / `List[X]` / `Iterator[X]` give ("list", X)"""
        out = []
        if ann is None:
            return out

        def add(t):
            if t not in out:
                out.append(t)

        def walk(n, in_list):
            if isinstance(n, ast.Subscript):
                head = dotted(n.value) or ""
                if head.split(".")[-1] in ("list", "List", "Iterator", "Iterable", "Sequence"):
                    walk(n.slice, True)
                else:
                    walk(n.slice, in_list)
                return
            if isinstance(n, ast.Tuple):
                for e in n.elts:
                    walk(e, in_list)
                return
            if isinstance(n, ast.BinOp):
                walk(n.left, in_list)
                walk(n.right, in_list)
                return
            name = None
            if isinstance(n, ast.Name):
                name = n.id
            elif isinstance(n, ast.Constant) and isinstance(n.value, str):
                name = n.value
            if name and name in self.m.classes:
                add(("list" if in_list else "inst", self.m.classes[name]))

        walk(ann, False)
        return out

    def attr_types(self, cls, attr):
        """types of instance attribute `attr` of cls from its assignments (constructor call, list display /
        comprehension of constructor calls, .append(Constructor(...)))"""
        key = ("attr", cls.name, attr)
        if key in self._cache:
            return self._cache[key]
        out = []
        self._cache[key] = out

        def add(t):
            if t not in out:
                out.append(t)

        def ctor(e, f):
            if isinstance(e, ast.Call) and isinstance(e.func, ast.Name):
                r = f.module.resolve_name(e.func.id)
                if r and r[0] == "class":
                    return r[1]
            return None

        for c in cls.mro():
            for f in c.methods.values():
                for n in walk_no_nested(f.node):
                    if isinstance(n, ast.Assign):
                        for t in n.targets:
                            if isinstance(t, ast.Attribute) and isinstance(t.value, ast.Name) and t.value.id == "self" and t.attr == attr:
                                v = n.value
                                k = ctor(v, f)
                                if k is not None:
                                    add(("inst", k))
                                elif isinstance(v, ast.ListComp) and ctor(v.elt, f) is not None:
                                    add(("list", ctor(v.elt, f)))
                                elif isinstance(v, ast.List):
                                    for e in v.elts:
                                        if ctor(e, f) is not None:
                                            add(("list", ctor(e, f)))
                    elif isinstance(n, ast.Call) and isinstance(n.func, ast.Attribute) and n.func.attr == "append" and n.args:
                        tg = n.func.value
                        if isinstance(tg, ast.Attribute) and isinstance(tg.value, ast.Name) and tg.value.id == "self" and tg.attr == attr:
                            a = n.args[0]
                            k = ctor(a, f)
                            if k is None and isinstance(a, ast.Name):
                                for tt in self.local_types(f).get(a.id, []):
                                    if tt[0] == "inst":
                                        add(("list", tt[1]))
                            elif k is not None:
                                add(("list", k))
        return out

    def return_types(self, f):
        key = ("ret", f.qualname)
        if key in self._cache:
            return self._cache[key]
        out = list(self.classes_in_annotation(f.node.returns))
        self._cache[key] = out
        if out:
            return out
        types = self.local_types(f)
        for n in walk_no_nested(f.node):
            if isinstance(n, ast.Return) and n.value is not None:
                for t in self.expr_types(n.value, f, types):
                    if t not in out:
                        out.append(t)
        return out

    def local_types(self, f):
        """{local name: types} from parameter annotations, assignments, for-loops and comprehensions"""
        key = ("lt", f.qualname)
        if key in self._cache:
            return self._cache[key]
        types = {}
        self._cache[key] = types
        a = f.node.args
        for p in a.posonlyargs + a.args + a.kwonlyargs:
            cs = self.classes_in_annotation(p.annotation)
            if cs:
                types[p.arg] = cs

        def bind(name, ts):
            if ts:
                cur = types.setdefault(name, [])
                for t in ts:
                    if t not in cur:
                        cur.append(t)

        for _ in range(3):
            for n in ast.walk(f.node):
                if isinstance(n, ast.Assign) and len(n.targets) == 1 and isinstance(n.targets[0], ast.Name):
                    bind(n.targets[0].id, self.expr_types(n.value, f, types))
                elif isinstance(n, (ast.For, ast.comprehension)) and isinstance(n.target, ast.Name):
                    bind(n.target.id, [("inst", t[1]) for t in self.expr_types(n.iter, f, types) if t[0] == "list"])
        return types

    def section_types(self, member):
        """types of ClassManager's table entry for a map section (set by the C07 rule from MapItem.parse)"""
        return self.sections.get(member, [])

    def expr_types(self, e, f, types):
        if isinstance(e, ast.Name):
            if e.id == "self" and f.cls is not None:
                return [("inst", f.cls)]
            return types.get(e.id, [])
        if isinstance(e, ast.Attribute) and isinstance(e.value, ast.Name) and e.value.id == "self" and f.cls is not None:
            return self.attr_types(f.cls, e.attr)
        if isinstance(e, ast.Subscript):
            # ClassManager tables
            if self.cmi is not None and f.cls is self.cm_cls and isinstance(e.value, ast.Attribute) \
                    and isinstance(e.value.value, ast.Name) and e.value.value.id == "self":
                attr = e.value.attr
                if attr == self.cmi.table_attr:
                    mem = self.cmi.member_of(e.slice)
                    return self.section_types(mem) if mem else []
                if attr in self.cmi.side_attrs:
                    return [("inst", t[1]) for t in self.section_types(self.cmi.side_attrs[attr]) if t[0] == "list"]
            if isinstance(e.slice, ast.Slice):
                return self.expr_types(e.value, f, types)
            return [("inst", t[1]) for t in self.expr_types(e.value, f, types) if t[0] == "list"]
        if isinstance(e, ast.Call):
            fn = e.func
            if isinstance(fn, ast.Name):
                r = f.module.resolve_name(fn.id)
                if r and r[0] == "class":
                    return [("inst", r[1])]
                if r and r[0] == "func":
                    return self.return_types(r[1])
                return []
            if isinstance(fn, ast.Attribute):
                # side table .get(k)
                if self.cmi is not None and f.cls is self.cm_cls and fn.attr == "get" and isinstance(fn.value, ast.Attribute) \
                        and isinstance(fn.value.value, ast.Name) and fn.value.value.id == "self" and fn.value.attr in self.cmi.side_attrs:
                    return [("inst", t[1]) for t in self.section_types(self.cmi.side_attrs[fn.value.attr]) if t[0] == "list"]
                out = []
                for callee, precise in self.resolve_method(fn, f, types):
                    for t in self.return_types(callee):
                        if t not in out:
                            out.append(t)
                return out
        if isinstance(e, ast.ListComp):
            ts = self.expr_types(e.elt, f, types)
            return [("list", t[1]) for t in ts if t[0] == "inst"]
        if isinstance(e, ast.IfExp):
            return self.expr_types(e.body, f, types) + self.expr_types(e.orelse, f, types)
        return []

    def resolve_method(self, fn, f, types):
        """fn: ast.Attribute in call position -> [(Func, precise)]"""
        recv, name = fn.value, fn.attr
        # self.m()
        if isinstance(recv, ast.Name) and recv.id == "self" and f.cls is not None:
            t = f.cls.lookup(name)
            return [(t, True)] if t is not None else []
        # super().m()
        if isinstance(recv, ast.Call) and isinstance(recv.func, ast.Name) and recv.func.id == "super" and f.cls is not None:
            for c in f.cls.mro()[1:]:
                if name in c.methods:
                    return [(c.methods[name], True)]
            return []
        # class manager receivers
        if isinstance(recv, ast.Name) and recv.id in self.cm_params(f):
            t = self.cm_cls.lookup(name)
            return [(t, True)] if t is not None else []
        if isinstance(recv, ast.Attribute) and isinstance(recv.value, ast.Name) and recv.value.id == "self" \
                and recv.attr in self.cm_attrs(f.cls):
            t = self.cm_cls.lookup(name)
            return [(t, True)] if t is not None else []
        # ClassName.m()
        if isinstance(recv, ast.Name):
            r = f.module.resolve_name(recv.id)
            if r and r[0] == "class" and recv.id not in types:
                t = r[1].lookup(name)
                return [(t, True)] if t is not None else []
            if r and r[0] == "module":
                return []
        # builtin containers held in self attributes
        if isinstance(recv, ast.Attribute) and isinstance(recv.value, ast.Name) and recv.value.id == "self" \
                and recv.attr in self.container_attrs(f.cls) and name in self.CONTAINER_METHODS \
                and not self.attr_types(f.cls, recv.attr):
            return []
        if isinstance(recv, ast.Constant):
            return []
        # typed receiver expression
        ts = self.expr_types(recv, f, types)
        if ts:
            out = []
            for kind, c in ts:
                if kind == "inst":
                    t = c.lookup(name)
                    if t is not None and (t, True) not in out:
                        out.append((t, True))
            if out or all(kind == "list" for kind, c in ts):
                return out
        # fallback: every definer in the module
        ds = self.definers.get(name, [])
        if len(ds) == 1 and name not in self.CONTAINER_METHODS:
            return [(ds[0], True)]
        return [(d, False) for d in ds]

    def callees(self, f):
        key = ("callees", f.qualname)
        if key in self._cache:
            return self._cache[key]
        out = []
        self._cache[key] = out
        types = self.local_types(f)
        for n in ast.walk(f.node):
            if not isinstance(n, ast.Call):
                continue
            fn = n.func
            if isinstance(fn, ast.Name):
                r = f.module.resolve_name(fn.id)
                if r and r[0] == "class":
                    init = r[1].lookup("__init__")
                    if init is not None:
                        out.append((init, True, n))
                elif r and r[0] == "func":
                    out.append((r[1], True, n))
            elif isinstance(fn, ast.Attribute):
                for callee, precise in self.resolve_method(fn, f, types):
                    out.append((callee, precise, n))
            elif isinstance(fn, ast.Call) and isinstance(fn.func, ast.Name) and fn.func.id == "getattr" and len(fn.args) >= 2:
                # getattr(obj, <name>)(...): the possible names are resolved (constant, or values of a constant dispatch table)
                names = self.dynamic_names(f, fn.args[1])
                for nm in (names if names is not None else [None]):
                    fake = ast.Attribute(value=fn.args[0], attr=nm or "__unknown__", ctx=ast.Load())
                    if nm is not None:
                        if self._is_cm_expr(fn.args[0], f):
                            t = self.cm_cls.lookup(nm)
                            if t is not None:
                                out.append((t, True, n))
                            continue
                        for callee, precise in self.resolve_method(fake, f, types):
                            out.append((callee, precise, n))
                    else:
                        # unknown name: any method of the receiver's class(es), else of every class (imprecise)
                        cs = [c for k, c in self.expr_types(fn.args[0], f, types) if k == "inst"]
                        if self._is_cm_expr(fn.args[0], f):
                            cs = [self.cm_cls]
                        for c in (cs or list(self.m.classes.values())):
                            for mm in c.methods.values():
                                out.append((mm, False, n))
            # classes / functions passed as arguments may be called by the callee
            for a in list(n.args) + [k.value for k in n.keywords]:
                if isinstance(a, ast.Name):
                    r = f.module.resolve_name(a.id)
                    if r and r[0] == "class" and r[1].module is self.m:
                        init = r[1].lookup("__init__")
                        if init is not None:
                            out.append((init, True, n))
        return out

    def _is_cm_expr(self, e, f):
        if isinstance(e, ast.Name):
            return e.id in self.cm_params(f)
        return isinstance(e, ast.Attribute) and isinstance(e.value, ast.Name) and e.value.id == "self" and e.attr in self.cm_attrs(f.cls)

    def dynamic_names(self, f, e, depth=0):
        """possible string values of expression e (method name used with getattr) or None when not enumerable"""
        if depth > 4:
            return None
        if isinstance(e, ast.Constant) and isinstance(e.value, str):
            return [e.value]
        if isinstance(e, ast.Name):
            defs = [n.value for n in walk_no_nested(f.node) if isinstance(n, ast.Assign) and any(isinstance(t, ast.Name) and t.id == e.id for t in n.targets)]
            # loop variable over a constant table:  for a, b, name in self._TABLE / TABLE
            for lp in walk_no_nested(f.node):
                if isinstance(lp, (ast.For, ast.comprehension)):
                    tg = lp.target
                    pos = None
                    if isinstance(tg, ast.Name) and tg.id == e.id:
                        pos = -1
                    elif isinstance(tg, ast.Tuple):
                        for i, x in enumerate(tg.elts):
                            if isinstance(x, ast.Name) and x.id == e.id:
                                pos = i
                    if pos is None:
                        continue
                    node = self._const_node(f, lp.iter)
                    if not isinstance(node, (ast.Tuple, ast.List)):
                        return None
                    out = []
                    for row in node.elts:
                        cell = row if pos == -1 else (row.elts[pos] if isinstance(row, (ast.Tuple, ast.List)) and pos < len(row.elts) else None)
                        if isinstance(cell, ast.Constant) and isinstance(cell.value, str):
                            out.append(cell.value)
                        else:
                            return None
                    return out
            if not defs:
                tbl = f.module.assigns.get(e.id)
                return self.dynamic_names(f, tbl, depth + 1) if tbl is not None else None
            out = []
            for d in defs:
                r = self.dynamic_names(f, d, depth + 1)
                if r is None:
                    return None
                out += r
            return out
        if isinstance(e, ast.IfExp):
            a, b = self.dynamic_names(f, e.body, depth + 1), self.dynamic_names(f, e.orelse, depth + 1)
            return None if a is None or b is None else a + b
        tbl = None
        if isinstance(e, ast.Call) and isinstance(e.func, ast.Attribute) and e.func.attr == "get":
            tbl = e.func.value
            extra = e.args[1:]
        elif isinstance(e, ast.Subscript):
            tbl = e.value
            extra = []
        if tbl is not None:
            node = None
            if isinstance(tbl, ast.Attribute) and isinstance(tbl.value, ast.Name) and tbl.value.id in ("self", "cls") and f.cls is not None:
                node = f.cls.lookup_attr(tbl.attr)
            elif isinstance(tbl, ast.Attribute) and isinstance(tbl.value, ast.Name) and tbl.value.id in self.m.classes:
                node = self.m.classes[tbl.value.id].lookup_attr(tbl.attr)
            elif isinstance(tbl, ast.Name):
                node = f.module.assigns.get(tbl.id)
            if isinstance(node, ast.Dict) and all(isinstance(v, ast.Constant) and isinstance(v.value, str) for v in node.values):
                out = [v.value for v in node.values]
                for x in extra:
                    if isinstance(x, ast.Constant) and isinstance(x.value, str):
                        out.append(x.value)
                    elif not (isinstance(x, ast.Constant) and x.value is None):
                        return None
                return out
        return None

    def _const_node(self, f, tbl):
        """ast of a class-level / module-level constant named by self.X / cls.X / Class.X / X"""
        if isinstance(tbl, ast.Attribute) and isinstance(tbl.value, ast.Name) and tbl.value.id in ("self", "cls") and f.cls is not None:
            return f.cls.lookup_attr(tbl.attr)
        if isinstance(tbl, ast.Attribute) and isinstance(tbl.value, ast.Name) and tbl.value.id in self.m.classes:
            return self.m.classes[tbl.value.id].lookup_attr(tbl.attr)
        if isinstance(tbl, ast.Name):
            return f.module.assigns.get(tbl.id)
        return None

    def closure(self, roots):
        """-> {qualname: (Func, precise_path: bool, parent qualname)}; precise_path is True when some path
        from a root uses only precisely resolved edges"""
        seen = {}
        work = [(r, True, None) for r in roots]
        while work:
            f, precise, par = work.pop()
            old = seen.get(f.qualname)
            if old is not None and (old[1] or not precise):
                continue
            seen[f.qualname] = (f, precise, par)
            if f.module is not self.m:
                continue
            for callee, p, node in self.callees(f):
                work.append((callee, precise and p, f.qualname))
        return seen

    def path_to(self, closure, qualname):
        out = []
        q = qualname
        while q is not None and len(out) < 30:
            out.append(q)
            q = closure[q][2]
        return list(reversed(out))


# ---------------------------------------------------------------------------
def parse_constructors(repo, folder, cmi):
    """{map type member: [(class name, in_list)]} -- the item constructors MapItem.parse() runs for each type,
    obtained by abstractly executing parse() with the type attribute fixed (no source pattern matching)."""
    m = repo.mod(DEX)
    mi_cls = m.cls("MapItem")
    parse = mi_cls.lookup("parse")
    if parse is None:
        raise AnalysisError("anchor vanished: MapItem.parse")
    tslot = Sym("enum", cmi.enum_cls.name, slot_bits(0, 0, 2))
    out = {}

    class _P(DexInterp):
        def _h_call(self, it, name, callee, args, kwargs, e, func):
            if isinstance(callee, Ref) and callee.kind == "class" and callee.obj.module.relpath == DEX and not self.construct(callee.obj):
                sts = [a for a in args if isinstance(a, StreamV)]
                for st in sts:
                    st.log.append(("new", callee.obj.name, e))
                if sts:
                    return Sym("new", callee.obj.name)
            return super()._h_call(it, name, callee, args, kwargs, e, func)

    for name, val in sorted(cmi.members.items(), key=lambda kv: int(kv[1])):
        def run(asg, val=val):
            it = _P(repo, folder, asg=dict(asg), construct=lambda c: c.name == "MapItem")
            st = StreamV("buff", index=0)
            o = it.construct_obj(mi_cls, bind_ctor_args(mi_cls, st, Sym("cm")))
            hit = 0
            for k, v in list(o.attrs.items()):
                if v == tslot:
                    o.attrs[k] = val
                    hit += 1
            if hit != 1:
                raise AnalysisError("MapItem: the attribute holding TypeMapItem(<type field>) was not identified")
            mark = len(st.log)
            it.call_function(parse, [], recv=o)
            return st.log[mark:]

        found = []
        for asg, log in explore(run):
            if isinstance(log, Raised):
                raise AnalysisError("MapItem.parse raises for type %s on an abstract path: %s" % (name, log))
            for ev in log:
                if ev[0] == "new":
                    pn, in_list = getattr(ev[2], "_parent", None), False
                    while pn is not None and not isinstance(pn, ast.stmt):
                        in_list = in_list or isinstance(pn, (ast.ListComp, ast.List))
                        pn = getattr(pn, "_parent", None)
                    if (ev[1], in_list) not in found:
                        found.append((ev[1], in_list))
        out[name] = found
    return out
