"""C35 -- the parsers terminate on every input.

Scope: the call-graph closure of DEX.__init__, AXMLPrinter.__init__, ARSCParser.__init__,
APK.__init__, the APK signature-block parsers (APK.parse_*), get_apkid and the lazily
invoked DebugInfoItem constructor.  Inside the closure

* every `while` loop must carry one of the certificates
    K0  no path of the body reaches the back edge;
    K1  every path head -> back edge performs an *anchored checked read* on one stream S
        (struct unpack of S.read(n) with n == calcsize(fmt) > 0, a read whose empty result
        leaves the loop, or a callee whose bottom-up summary says "consumes >= 1 checked byte
        on every normal path") and the position of S at the back edge is >= position at the
        head + 1;
    K2  the same with seeks in the body: the abstract position of S (interval relative to
        the loop head; `x = S.tell()`, `S.seek(x + e)`, `S.seek(h.end)` with the inferred
        constructor post-condition  h.end >= h.start + 8) is >= +1 at the back edge;
    K3  a monotone local counter bounded by the guard (`i += e`, e >= 1, guard `i < B`, B loop
        invariant; `v >>= k` / `v = v[k:]` under a guard that makes v positive / non-empty),
        or a strictly decreasing stream position under a guard `S.tell() > c`;
    K4  a collection that is drained (`pop`) on every path and never grown, guard = its truth;
    K2' an event consumer: `t = next(X)` on every path; the stepper behind X.__next__ makes
        stream progress, or sets the sticky terminal event, or clears the validity flag, on
        every normal path; the loop is guarded by the validity flag and leaves on the terminal
        event on every path (path-sensitive on the tested constants);
* every `for`/comprehension over `range(...)` whose trip count is not a constant, not bounded
  by a small constant (<= 65536 via masks / unpack formats / raise guards), not the length of
  an in-memory collection and not a count validated by a K1 loop in the constructor, must
  satisfy K1 (so a declared count of 2**32 cannot cost more than the file is long);
* every recursive SCC made of precisely resolved calls must carry K5: no cycle without an
  anchored checked read before the recursive call on the stream that is handed down (or a
  strictly shrinking slice argument).
Nothing is executed: summaries come from an abstract interpretation of stream positions
(agstatic/callgraph.py).

Verdict policy.  A missing certificate is NOT a violation.  A finding is reported only for a loop /
recursion in the closure that works on the input stream AND for which a *definite non-progress path*
was established: one syntactic path round the loop (every `if` outside inner loops followed one
branch at a time), every fact on it exact knowledge (no unknown seek target, unresolved call, callee
of unknown effect, read result that is indexed / handed to code that may reject short data), on which
no touched stream ends ahead of where it started (or it is put back at a loop-invariant position), no
state compared with an invariant bound by an exit condition moves towards it, and no exit condition
depends on other loop-carried state.  Everything else -- value-driven loops, loops over constant
tables, shapes the search does not understand -- ends the run undecided (exit 2).
"""
from __future__ import annotations

import ast
import struct

import networkx as nx

from ..callgraph import (CallGraph, StreamAnalysis, Bounds, SState, _Run, own_nodes, s_join, iv_str, INF, TOP, ZERO, EXTERNAL,
                         is_property, PathOracle as sa_oracle)
from ..cfg import CFG, leaves_only
from ..model import DEX, DEX_TYPES, AXML, APK, AnalysisError, Cls, Func, norm, parent, dotted

OWN_MUTATION_ADEQUACY = True

PARSER_MODULES = [DEX, DEX_TYPES, AXML, APK]
PRIMARY_ROOTS = [(DEX, "DEX.__init__"), (AXML, "AXMLPrinter.__init__"), (AXML, "ARSCParser.__init__"), (APK, "APK.__init__")]
LAZY_ROOTS = [(DEX, "DebugInfoItem.__init__"), (APK, "get_apkid")]
BOUND_MAX = 1 << 17

PRECISE = ("direct", "ctor", "typed", "super", "hof", "table")
STREAMISH = ("read", "seek", "tell", "unpack", "unpack_from", "debug", "info", "warning", "error", "format")


def run_keys(run):
    """stream keys the run saw (receivers of read/seek/tell in the function)"""
    try:
        return set(run._function_stream_keys())
    except Exception:
        return set()


class Cert:
    def __init__(self, kind=None, detail="", why="", unresolved=None):
        self.kind = kind
        self.detail = detail
        self.why = why
        self.unresolved = unresolved or []

    def __bool__(self):
        return self.kind is not None


def _u(n, limit=110):
    s = norm(n)
    return s if len(s) <= limit else s[: limit - 3] + "..."


def loops_of(fnode):
    """(while loops, for loops, comprehension expressions) lexically in this function (not nested defs)"""
    w, f, c = [], [], []
    for n in own_nodes(fnode):
        if isinstance(n, ast.While):
            w.append(n)
        elif isinstance(n, (ast.For, ast.AsyncFor)):
            f.append(n)
        elif isinstance(n, (ast.ListComp, ast.SetComp, ast.GeneratorExp, ast.DictComp)):
            c.append(n)
    return w, f, c


def _assigned_names(node):
    out = set()
    for n in [node] + list(own_nodes(node)):
        if isinstance(n, ast.Name) and isinstance(n.ctx, (ast.Store, ast.Del)):
            out.add(n.id)
    return out


class Core:
    """the certificate checker; independent of the report sink so that mutants can be re-checked"""

    def __init__(self, repo):
        self.repo = repo
        self.cg = CallGraph(repo)
        self.b = Bounds(self.cg)
        self.sa = StreamAnalysis(self.cg, self.b)

    # ------------------------------------------------------------------ roots / closure
    def roots(self):
        rs = []
        for rel, qn in PRIMARY_ROOTS:
            rs.append(self.cg.func(rel, qn))
        apk = self.repo.mod(APK).cls("APK")
        sig = [m for name, m in sorted(apk.methods.items()) if name.startswith("parse_")]
        if len(sig) < 3:
            raise AnalysisError("anchor vanished: APK.parse_* signature block parsers (found %d)" % len(sig))
        rs += sig
        for rel, qn in LAZY_ROOTS:
            rs.append(self.cg.func(rel, qn))
        return rs

    # ------------------------------------------------------------------ helpers
    def invariant(self, expr, loop):
        """expr cannot change while the loop runs (syntactic): no name in it is bound in the loop, and no
        object it mentions is mutated through a method call / subscript store / attribute store in the loop"""
        bound = _assigned_names(loop)
        texts = set()
        for n in ast.walk(expr):
            if isinstance(n, ast.Name) and n.id in bound:
                return False
            if isinstance(n, (ast.Attribute, ast.Subscript, ast.Name)):
                texts.add(ast.unparse(n))
            if isinstance(n, ast.Call):
                fn = n.func
                ok = isinstance(fn, ast.Name) and fn.id in ("len", "calcsize", "min", "max", "abs", "int")
                if not ok:
                    return False
        mut = _Run.GROW + _Run.SHRINK1 + ("clear", "discard", "sort", "reverse")
        for n in own_nodes(loop):
            if isinstance(n, ast.Call) and isinstance(n.func, ast.Attribute) and n.func.attr in mut:
                if ast.unparse(n.func.value) in texts:
                    return False
            if isinstance(n, ast.Attribute) and isinstance(n.ctx, (ast.Store, ast.Del)):
                # `self.a = v` changes self.a (and what hangs off it), not self.b
                t = ast.unparse(n)
                if any(x == t or x.startswith(t + ".") or x.startswith(t + "[") for x in texts):
                    return False
            if isinstance(n, ast.Subscript) and isinstance(n.ctx, (ast.Store, ast.Del)):
                t = ast.unparse(n)
                base = ast.unparse(n.value)
                if any(x == t or x == base or x.startswith(base + "[") or x.startswith(t + ".") for x in texts):
                    return False
        return True

    @staticmethod
    def _conjuncts(test):
        if isinstance(test, ast.BoolOp) and isinstance(test.op, ast.And):
            out = []
            for v in test.values:
                out += Core._conjuncts(v)
            return out
        return [test]

    # ------------------------------------------------------------------ while loops
    def certify_while(self, f: Func, loop: ast.While) -> Cert:
        sa = self.sa
        tried = []
        back, run, out = self.le(f, loop)
        unresolved = list(run.unresolved) + list(run.unknown_calls)
        if back is None:
            return Cert("K0", "no path of the body reaches the back edge (every path leaves by break/return/raise)")
        # --- K1 / K2: forward progress on a stream -----------------------------------------
        for key in sorted(back.keys()):
            if key.startswith("#"):
                continue
            p, a = back.p(key), back.a(key)
            if p[0] >= 1 and a >= 1:
                kind = "K2" if run.has_seek else "K1"
                return Cert(kind, "every path head->back edge: position of `%s` advances by %s with >= %d anchored checked byte(s)%s"
                            % (key, iv_str(p), a, " (seeks in the body resolved to positions relative to the loop head)" if run.has_seek else ""))
            tried.append("stream `%s`: net advance %s, anchored checked bytes >= %d" % (key, iv_str(p), a))
            # --- K3 (stream scanned backwards under a lower-bound guard) -----------------------
            if p[1] <= -1:
                for c in self._conjuncts(loop.test):
                    if isinstance(c, ast.Compare) and len(c.ops) == 1 and isinstance(c.ops[0], (ast.Gt, ast.GtE, ast.Lt, ast.LtE)):
                        l, r = c.left, c.comparators[0]
                        if isinstance(c.ops[0], (ast.Lt, ast.LtE)):
                            l, r = r, l   # c < S.tell()
                        if isinstance(l, ast.Call) and isinstance(l.func, ast.Attribute) and l.func.attr == "tell" \
                                and sa.key_of(l.func.value, f) == key and self.invariant(r, loop):
                            return Cert("K3", "position of `%s` changes by %s on every path head->back edge and the guard `%s` bounds it from below"
                                        % (key, iv_str(p), _u(c)))
        # --- K2 (guard-bounded): the position only moves forward and the guard bounds it from above ------------
        for key in sorted(back.keys()):
            if key.startswith("#") or back.p(key)[0] < 1:
                continue
            for c in self._conjuncts(loop.test):
                if isinstance(c, ast.Compare) and len(c.ops) == 1 and isinstance(c.ops[0], (ast.Lt, ast.LtE, ast.Gt, ast.GtE)):
                    l, r = c.left, c.comparators[0]
                    if isinstance(c.ops[0], (ast.Gt, ast.GtE)):
                        l, r = r, l   # B > S.tell()
                    if isinstance(l, ast.Call) and isinstance(l.func, ast.Attribute) and l.func.attr == "tell" \
                            and sa.key_of(l.func.value, f) == key and self.invariant(r, loop):
                        return Cert("K2", "position of `%s` advances by %s on every path head->back edge and the guard `%s` bounds it from above"
                                    % (key, iv_str(back.p(key)), _u(c)))
        # --- K3: monotone local counter / growing or shrinking collection against an invariant bound ----------------
        cands = self.exit_candidates(f, loop)
        for kind, name, sign, bound, ge1, cnode in cands:
            if kind == "counter":
                bk, rn, _ = self.le(f, loop, counters={name: ge1})
                if bk is None:
                    continue
                d = bk.p("#" + name)
                if sign > 0 and d[0] >= 1:
                    return Cert("K3", "`%s` changes by %s on every path head->back edge; exit condition `%s` with loop-invariant bound" % (name, iv_str(d), _u(cnode)))
                if sign < 0 and d[1] <= -1:
                    return Cert("K3", "`%s` shrinks (%s) on every path head->back edge; exit condition `%s` bounds it from below" % (name, iv_str(d), _u(cnode)))
                tried.append("counter `%s`: change per iteration %s" % (name, iv_str(d)))
            else:
                bk, rn, _ = self.le(f, loop, collections={name})
                if bk is None:
                    continue
                d = bk.p("#len:" + name)
                if sign < 0 and d[1] <= -1:
                    return Cert("K4", "len(%s) changes by %s on every path head->back edge and the body never grows it" % (name, iv_str(d)))
                if sign > 0 and d[0] >= 1:
                    return Cert("K3", "len(%s) grows by %s on every path head->back edge; exit condition `%s` with loop-invariant bound" % (name, iv_str(d), _u(cnode)))
                tried.append("collection `%s`: length change per iteration %s" % (name, iv_str(d)))
                if sign < 0:
                    fl = self._flagged_drain(loop, name)
                    if fl:
                        return Cert("K4", "every iteration that reaches the back edge has drained `%s`: %s" % (name, fl))
        # --- K2': event consumer -------------------------------------------------------------------
        ec = self.cert_event_consumer(f, loop)
        if ec:
            return ec
        if ec.why:
            tried.append("event consumer: " + ec.why)
        fail = Cert(None, why="; ".join(tried) if tried else "no stream, counter, collection or event source makes progress", unresolved=unresolved)
        # --- verdict policy: a VIOLATION needs an input-driven loop with a definite non-progress path ------------------
        fail.input_driven = bool(run.touches)
        fail.definite = None
        if getattr(ec, "definite", None):
            fail.definite = ec.definite
            fail.input_driven = True
        elif run.touches:
            fail.definite = self.definite_witness(f, loop, cands)
        return fail

    # ------------------------------------------------------------------ assignments that end the loop
    def le(self, f, loop, **kw):
        """loop_effect in which paths through an assignment that makes the loop guard false are treated as leaving"""
        if isinstance(loop, ast.While) and "cut" not in kw:
            kw["cut"] = self.exit_cuts(f, loop)
        return self.sa.loop_effect(f, loop, **kw)

    def exit_cuts(self, f: Func, loop: ast.While):
        """statements `v = <const>` in the body after which the loop guard is certainly false (three-valued evaluation
        with only v known), for variables v of the guard that the body only ever assigns such constants:
        `found = True` under `while not found`, `event = START_TAG` under `while self._valid and event is None`,
        `self._valid = False`.  A path through such a statement leaves the loop at the next test."""
        key = ("exit_cuts", id(loop))
        cache = self.__dict__.setdefault("_cuts", {})
        if key in cache:
            return cache[key]
        names = {dotted(n) for n in ast.walk(loop.test) if isinstance(n, (ast.Name, ast.Attribute))} - {None}
        sn = self.cg.self_name(f)
        cuts = set()
        for v in sorted(names):
            assigns, ok = [], True
            for n in own_nodes(loop):
                tgts = []
                if isinstance(n, ast.Assign):
                    tgts = [(t, n.value) for t in n.targets]
                elif isinstance(n, (ast.AugAssign, ast.AnnAssign)):
                    tgts = [(n.target, None)]
                elif isinstance(n, (ast.For, ast.AsyncFor, ast.comprehension)):
                    tgts = [(x, None) for x in ast.walk(n.target) if isinstance(x, (ast.Name, ast.Attribute))]
                elif isinstance(n, ast.NamedExpr):
                    tgts = [(n.target, None)]
                elif isinstance(n, ast.withitem) and n.optional_vars is not None:
                    tgts = [(x, None) for x in ast.walk(n.optional_vars) if isinstance(x, ast.Name)]
                for t, val in tgts:
                    for x in ([t] if not isinstance(t, (ast.Tuple, ast.List)) else ast.walk(t)):
                        if isinstance(x, (ast.Name, ast.Attribute)) and dotted(x) == v:
                            if val is None or x is not t:
                                ok = False
                            else:
                                c = self.b.fold(val, f)
                                if isinstance(c, (int, bool, str, bytes, type(None))) and not isinstance(c, Exception):
                                    assigns.append((n, c))
                                else:
                                    ok = False
            if not ok or not assigns:
                continue
            if "." in v:
                # an attribute: nobody else may give it a value that keeps the guard true
                root, _, attr = v.partition(".")
                if root != sn or "." in attr or f.cls is None:
                    continue
                bad = False
                for m, stmt, tgt, val, slot in self.b._stores(f.cls, attr):
                    if m.name == "__init__" or any(stmt is a for a, _ in assigns):
                        continue
                    c = self.b.fold(val, m) if val is not None and slot is None else None
                    if not isinstance(c, (int, bool, str, bytes, type(None))) or self._tv(loop.test, {v: (c,)}, f) is not False:
                        bad = True
                if bad:
                    continue
            if all(self._tv(loop.test, {v: (c,)}, f) is False for _, c in assigns):
                cuts |= {id(n) for n, _ in assigns}
        cache[key] = cuts
        cache[("keep", id(loop))] = loop
        return cuts

    # ------------------------------------------------------------------ exit conditions
    def exit_candidates(self, f: Func, loop):
        """state that an exit condition compares with a loop-invariant bound:
        -> [(kind 'counter'|'collection', name/text, sign of the change that leads to the exit, bound expr, ge1, condition node)].
        Exit conditions = conjuncts of the loop test, and the test of a top-level `if <cond>: break/return/raise`
        of the body that no `continue` can bypass (cond negated: the loop goes on while `not cond`)."""
        out = []
        conds = [(c, False) for c in self._conjuncts(loop.test)]
        for s in loop.body:
            if isinstance(s, ast.If) and leaves_only(s.body) and not any(isinstance(n, ast.Continue) for n in own_nodes(s)):
                t = s.test
                if isinstance(t, ast.BoolOp) and isinstance(t.op, ast.Or):
                    for v in t.values:      # leaves if any disjunct holds -> goes on while all are false
                        conds.append((v, True))
                else:
                    conds.append((t, True))
            if any(isinstance(n, ast.Continue) for n in [s] + list(own_nodes(s))):
                break
        for c, neg in conds:
            if isinstance(c, ast.UnaryOp) and isinstance(c.op, ast.Not):
                c, neg = c.operand, not neg
            if isinstance(c, ast.Compare) and len(c.ops) == 1:
                l, r, op = c.left, c.comparators[0], c.ops[0]
                if neg:
                    op = {ast.Lt: ast.GtE, ast.LtE: ast.Gt, ast.Gt: ast.LtE, ast.GtE: ast.Lt, ast.Eq: ast.NotEq, ast.NotEq: ast.Eq}.get(type(op), type(op))()
                # the loop continues while  l op r
                for a, b, o in ((l, r, op), (r, l, {ast.Lt: ast.Gt, ast.LtE: ast.GtE, ast.Gt: ast.Lt, ast.GtE: ast.LtE}.get(type(op), type(op))())):
                    # a is the varying side, b the bound
                    if isinstance(o, (ast.Lt, ast.LtE)):
                        sign = +1
                    elif isinstance(o, (ast.Gt, ast.GtE)):
                        sign = -1
                    else:
                        continue
                    if not self.invariant(b, loop):
                        continue
                    if isinstance(a, ast.Name):
                        ge1 = False
                        if sign < 0:
                            bb = self.b.eval(b, f)
                            ge1 = bb[0] >= (0 if isinstance(o, ast.Gt) else 1)
                        out.append(("counter", a.id, sign, b, ge1, c))
                    elif isinstance(a, ast.Call) and isinstance(a.func, ast.Name) and a.func.id == "len" and len(a.args) == 1 \
                            and dotted(a.args[0]) is not None:
                        out.append(("collection", ast.unparse(a.args[0]), sign, b, False, c))
            else:
                if not neg:
                    nm = self._nonempty_guard(c)
                    if nm is not None:
                        out.append(("counter", nm, -1, None, True, c))
                    coll = self._collection_guard(c)
                    if coll is not None and isinstance(c, (ast.Name, ast.Attribute)):
                        out.append(("collection", coll, -1, None, False, c))
                    elif coll is not None and isinstance(c, ast.Call):
                        out.append(("collection", coll, -1, None, False, c))
        # de-duplicate
        seen, res = set(), []
        for x in out:
            k = (x[0], x[1], x[2])
            if k not in seen:
                seen.add(k)
                res.append(x)
        return res

    @staticmethod
    def _flagged_drain(loop, coll):
        """progress-flag idiom: the body starts with `F = False`, ends an unproductive sweep with
        `if F is False / not F: raise|break|return`, and sets `F = True` only next to a drain of `coll`."""
        body = loop.body
        flag = None
        for s in body:
            if isinstance(s, ast.Assign) and len(s.targets) == 1 and isinstance(s.targets[0], ast.Name) \
                    and isinstance(s.value, ast.Constant) and s.value.value is False:
                flag = s.targets[0].id
                break
            if not isinstance(s, (ast.Expr, ast.Assign)):
                break
        if flag is None:
            return None
        guard = None
        for s in body:
            if isinstance(s, ast.If) and leaves_only(s.body):
                t = s.test
                ok = (isinstance(t, ast.UnaryOp) and isinstance(t.op, ast.Not) and isinstance(t.operand, ast.Name) and t.operand.id == flag) or \
                     (isinstance(t, ast.Compare) and len(t.ops) == 1 and isinstance(t.left, ast.Name) and t.left.id == flag
                      and isinstance(t.ops[0], (ast.Is, ast.Eq)) and isinstance(t.comparators[0], ast.Constant) and t.comparators[0].value is False)
                if ok:
                    guard = s
        if guard is None:
            return None
        drains = ("pop", "popitem", "remove", "popleft")
        n_true = 0
        for n in own_nodes(loop):
            if isinstance(n, (ast.Assign, ast.AugAssign, ast.For, ast.comprehension, ast.NamedExpr)):
                tgts = n.targets if isinstance(n, ast.Assign) else [n.target]
                for tg in tgts:
                    for x in ast.walk(tg):
                        if isinstance(x, ast.Name) and x.id == flag:
                            if isinstance(n, ast.Assign) and isinstance(n.value, ast.Constant) and n.value.value in (True, False):
                                if n.value.value is True:
                                    n_true += 1
                                    blk = None
                                    p = parent(n)
                                    for fld in ("body", "orelse", "finalbody"):
                                        lst = getattr(p, fld, None)
                                        if isinstance(lst, list) and any(y is n for y in lst):
                                            blk = lst
                                    if blk is None:
                                        return None
                                    drained = False
                                    # nothing between the flag and the drain may leave the block (continue / break / return / raise)
                                    i_flag = [k for k, y in enumerate(blk) if y is n][0]
                                    for st in blk:
                                        if isinstance(st, ast.Expr) and isinstance(st.value, ast.Call) and isinstance(st.value.func, ast.Attribute) \
                                                and st.value.func.attr in drains and ast.unparse(st.value.func.value) == coll \
                                                and not (st.value.func.attr == "pop" and len(st.value.args) >= 2):
                                            drained = True
                                        if isinstance(st, ast.Delete) and any(isinstance(t2, ast.Subscript) and ast.unparse(t2.value) == coll for t2 in st.targets):
                                            drained = True
                                    if drained:
                                        # nothing between the flag and the drain may leave the block (continue / break / return / raise)
                                        i_dr = [k for k, st in enumerate(blk) if (isinstance(st, ast.Expr) and isinstance(st.value, ast.Call)
                                                and isinstance(st.value.func, ast.Attribute) and st.value.func.attr in drains
                                                and ast.unparse(st.value.func.value) == coll) or isinstance(st, ast.Delete)]
                                        ok_pair = False
                                        for j in i_dr:
                                            lo_, hi_ = min(i_flag, j), max(i_flag, j)
                                            if not any(isinstance(x, (ast.Continue, ast.Break, ast.Return, ast.Raise))
                                                       for st0 in blk[lo_:hi_ + 1] for x in [st0] + list(own_nodes(st0))):
                                                ok_pair = True
                                        drained = ok_pair
                                    if not drained:
                                        return None
                                elif n is not body[0] and not (n in body):
                                    return None
                            else:
                                return None
            if isinstance(n, ast.Call) and isinstance(n.func, ast.Attribute) and n.func.attr in _Run.GROW and ast.unparse(n.func.value) == coll:
                return None
            if isinstance(n, ast.Subscript) and isinstance(n.ctx, ast.Store) and ast.unparse(n.value) == coll:
                return None
        if n_true == 0:
            return None
        return "`%s = True` is only set next to a drain of the collection and `%s` leaves when it stayed False" % (flag, _u(guard.test, 40))

    # ------------------------------------------------------------------ index-driven unpacking of a byte buffer
    def slice_checked(self, f: Func, node, it: ast.Call):
        """`for i in range(a, b, step>0): ... X.unpack(B[i:i + s]) ...` with s == calcsize(fmt) >= 1 executed on every
        iteration (top level of the body / the comprehension element): struct raises as soon as i passes len(B) - s, so the
        loop runs at most len(B)/step + 1 times whatever the declared count."""
        step = 1
        if len(it.args) == 3:
            v = self.b.fold(it.args[2], f)
            if not isinstance(v, int) or v < 1:
                return None
            step = v
        if isinstance(node, (ast.For, ast.AsyncFor)):
            if not isinstance(node.target, ast.Name):
                return None
            var = node.target.id
            tops = [s.value for s in node.body if isinstance(s, (ast.Expr, ast.Assign)) and getattr(s, "value", None) is not None]
            if any(isinstance(x, ast.Continue) for x in own_nodes(node)):
                return None
        else:
            gens = [g for g in node.generators if g.iter is it]
            if len(gens) != 1 or not isinstance(gens[0].target, ast.Name) or gens[0].ifs or node.generators[-1] is not gens[0]:
                return None
            var = gens[0].target.id
            tops = [node.key, node.value] if isinstance(node, ast.DictComp) else [node.elt]
        for top in tops:
            for n in ast.walk(top):
                if isinstance(n, ast.Call) and CallGraph._is_unpack_call(n) and n.args:
                    # not inside a conditional expression / lambda of the element
                    p_, ok = parent(n), True
                    while p_ is not None and p_ is not top:
                        if isinstance(p_, (ast.IfExp, ast.Lambda, ast.BoolOp)):
                            ok = False
                        p_ = parent(p_)
                    fmt = self.b.unpack_fmt(n, f)
                    if not ok or fmt is None:
                        continue
                    try:
                        size = struct.calcsize(fmt)
                    except struct.error:
                        continue
                    arg = n.args[-1]
                    if size >= 1 and isinstance(arg, ast.Subscript) and isinstance(arg.slice, ast.Slice) and arg.slice.step is None \
                            and isinstance(arg.slice.lower, ast.Name) and arg.slice.lower.id == var and arg.slice.upper is not None \
                            and isinstance(arg.value, (ast.Name, ast.Attribute)) and dotted(arg.value) not in _assigned_names(node):
                        up = arg.slice.upper
                        if isinstance(up, ast.BinOp) and isinstance(up.op, ast.Add) and isinstance(up.left, ast.Name) and up.left.id == var \
                                and self.b.fold(up.right, f) == size:
                            return "every iteration unpacks the %d bytes `%s`: struct raises once the index passes the end of the buffer (step %d)" % (
                                size, _u(arg, 40), step)
        return None

    # ------------------------------------------------------------------ provenance of a trip count
    def count_is_input(self, f: Func, it: ast.Call):
        """the trip count of range(...) is positively known to come from the parsed bytes -> short reason, else None"""
        args = it.args
        stop = args[0] if len(args) == 1 else args[1]
        return self._input_derived(stop, f, 0, set())

    def _input_derived(self, e, f: Func, depth, seen):
        if depth > 6 or e is None:
            return None
        cg = self.cg
        if isinstance(e, ast.Subscript) and isinstance(e.value, ast.Call) and CallGraph._is_unpack_call(e.value):
            return "unpacked from the stream (`%s`)" % _u(e.value, 40)
        if isinstance(e, ast.Call):
            if CallGraph._is_unpack_call(e):
                return "unpacked from the stream (`%s`)" % _u(e, 40)
            if isinstance(e.func, ast.Name) and e.func.id in ("abs", "int", "min", "max", "len"):
                if e.func.id == "len":
                    return None
                for a in e.args:
                    r = self._input_derived(a, f, depth + 1, seen)
                    if r:
                        return r
                return None
            ts, kind = cg.resolve_call(e, f)
            for t in ts:
                summ = self.sa.summary(t)
                if summ.touches and any(k.split(".")[0] in {p.arg for p in cg._params_of(t)} for k in summ.keys):
                    return "returned by the reader %s" % t.qualname
            if isinstance(e.func, ast.Attribute) and ts:
                # a getter: follow its return expressions
                for t in ts[:3]:
                    for n in own_nodes(t.node):
                        if isinstance(n, ast.Return) and n.value is not None:
                            r = self._input_derived(n.value, t, depth + 1, seen)
                            if r:
                                return r
            return None
        if isinstance(e, ast.BinOp):
            return self._input_derived(e.left, f, depth + 1, seen) or self._input_derived(e.right, f, depth + 1, seen)
        if isinstance(e, ast.UnaryOp):
            return self._input_derived(e.operand, f, depth + 1, seen)
        if isinstance(e, ast.Name):
            key = (id(f.node), e.id)
            if key in seen:
                return None
            seen.add(key)
            if any(p.arg == e.id for p in cg._params_of(f)):
                # what do the call sites pass?
                name = f.cls.name if (f.name == "__init__" and f.cls is not None) else f.name
                ps = [p.arg for p in cg._params_of(f)]
                idx = ps.index(e.id)
                for g, call in cg.callsites_of(name)[:12]:
                    off = 1 if (cg.is_method(f) and (f.name == "__init__" or isinstance(call.func, ast.Attribute))) else 0
                    arg = None
                    if 0 <= idx - off < len(call.args):
                        arg = call.args[idx - off]
                    for kw in call.keywords:
                        if kw.arg == e.id:
                            arg = kw.value
                    if arg is not None:
                        r = self._input_derived(arg, g, depth + 1, seen)
                        if r:
                            return r
                return None
            dd = cg.dominating_def(e, f) if parent(e) is not None else None
            if dd is not None:
                return self._input_derived(dd, f, depth + 1, seen)
            for rhs in cg._assignments_to_name(f, e.id):
                if isinstance(rhs, ast.AST):
                    r = self._input_derived(rhs, f, depth + 1, seen)
                    if r:
                        return r
            # tuple target of an unpack
            for n in own_nodes(f.node):
                if isinstance(n, ast.Assign) and isinstance(n.value, ast.Call) and CallGraph._is_unpack_call(n.value):
                    for t in n.targets:
                        if isinstance(t, (ast.Tuple, ast.List)) and any(isinstance(x, ast.Name) and x.id == e.id for x in t.elts):
                            return "unpacked from the stream (`%s`)" % _u(n.value, 40)
            return None
        if isinstance(e, ast.Attribute):
            t = cg.type_of(e.value, f)
            if isinstance(t, Cls):
                key = (id(t), e.attr)
                if key in seen:
                    return None
                seen.add(key)
                g = cg.getter(t, e.attr)
                if g is not None:
                    for n in own_nodes(g.node):
                        if isinstance(n, ast.Return) and n.value is not None:
                            r = self._input_derived(n.value, g, depth + 1, seen)
                            if r:
                                return r
                    return None
                for m, stmt, tgt, val, slot in self.b._stores(t, e.attr):
                    if slot is not None and isinstance(val, ast.Call) and CallGraph._is_unpack_call(val):
                        return "unpacked from the stream (`%s`)" % _u(val, 40)
                    if val is not None and slot is None:
                        r = self._input_derived(val, m, depth + 1, seen)
                        if r:
                            return r
            return None
        return None

    # ------------------------------------------------------------------ loop-carried state on a path
    @staticmethod
    def _preloop_const(loop, name):
        """constant bound to `name` by the simple assignment that precedes the loop in its own block, else None"""
        p = parent(loop)
        for fld in ("body", "orelse", "finalbody"):
            lst = getattr(p, fld, None)
            if isinstance(lst, list) and any(x is loop for x in lst):
                i = [k for k, x in enumerate(lst) if x is loop][0]
                for j in range(i - 1, -1, -1):
                    st = lst[j]
                    if isinstance(st, ast.Assign) and len(st.targets) == 1 and isinstance(st.targets[0], ast.Name) and st.targets[0].id == name:
                        if isinstance(st.value, ast.Constant) and isinstance(st.value.value, (int, bool, str, bytes, type(None))):
                            return (st.value.value,)
                        return None
                    if name in _assigned_names(st):
                        return None
        return None

    def _tv(self, e, env, f):
        """three-valued truth of e: True / False / None(unknown); env: name -> (const,) for names with a known value"""
        def val(x):
            if isinstance(x, ast.Constant):
                return (x.value,)
            if isinstance(x, ast.Name):
                return env.get(x.id)
            if isinstance(x, ast.Attribute) and dotted(x) in env:
                return env[dotted(x)]
            v = None
            try:
                if not any(isinstance(n, ast.Name) and (n.id in env or True) for n in ast.walk(x)):
                    v = self.b.fold(x, f)
            except Exception:
                v = None
            return (v,) if isinstance(v, (int, str, bytes, bool)) else None
        if isinstance(e, ast.BoolOp):
            vs = [self._tv(v, env, f) for v in e.values]
            if isinstance(e.op, ast.And):
                if any(v is False for v in vs):
                    return False
                return True if all(v is True for v in vs) else None
            if any(v is True for v in vs):
                return True
            return False if all(v is False for v in vs) else None
        if isinstance(e, ast.UnaryOp) and isinstance(e.op, ast.Not):
            v = self._tv(e.operand, env, f)
            return None if v is None else (not v)
        if isinstance(e, ast.Compare) and len(e.ops) == 1:
            a, b = val(e.left), val(e.comparators[0])
            if a is None or b is None:
                return None
            try:
                op = e.ops[0]
                table = {ast.Eq: lambda x, y: x == y, ast.NotEq: lambda x, y: x != y, ast.Lt: lambda x, y: x < y, ast.LtE: lambda x, y: x <= y,
                         ast.Gt: lambda x, y: x > y, ast.GtE: lambda x, y: x >= y, ast.Is: lambda x, y: x is y, ast.IsNot: lambda x, y: x is not y}
                if type(op) in table:
                    return bool(table[type(op)](a[0], b[0]))
            except Exception:
                return None
            return None
        v = val(e)
        return None if v is None else bool(v[0])

    def _carried_state_matters(self, f: Func, loop, run, settled):
        """On the path that `run` followed: is there loop-carried state (a variable/attribute updated from its own
        previous value, or a container mutated in place) that an exit condition depends on, other than the `settled`
        candidates whose change was analysed?  -> reason string, or None when the exits do not depend on such state.
        An exit condition whose outcome is already decided by variables the path leaves at their pre-loop constant
        (three-valued evaluation) does not count."""
        ex = []
        seen_ids = set()
        for st in run.executed:
            if id(st) not in seen_ids:
                seen_ids.add(id(st))
                ex.append(st)
        assigned = set()
        carried = set()
        touched_objs = set()
        for st in ex:
            if isinstance(st, ast.AugAssign):
                d = dotted(st.target)
                if d:
                    carried.add(d)
                    assigned.add(d)
            elif isinstance(st, (ast.Assign, ast.AnnAssign)):
                tgts = st.targets if isinstance(st, ast.Assign) else [st.target]
                used = {dotted(n) for n in ast.walk(st.value) if isinstance(n, (ast.Name, ast.Attribute))} if st.value is not None else set()
                for t in tgts:
                    for x in ([t] if not isinstance(t, (ast.Tuple, ast.List)) else t.elts):
                        d = dotted(x)
                        if d:
                            assigned.add(d)
                            if d in used:
                                carried.add(d)
            elif isinstance(st, (ast.For, ast.AsyncFor)):
                for x in ast.walk(st.target):
                    if isinstance(x, ast.Name):
                        assigned.add(x.id)
            if isinstance(st, ast.Expr) and isinstance(st.value, ast.Call) and isinstance(st.value.func, ast.Attribute) \
                    and st.value.func.attr in _Run.GROW + _Run.SHRINK1 + ("clear", "discard"):
                d = dotted(st.value.func.value)
                if d:
                    carried.add(d)
        # objects handed to / called on in the path may be changed by the callee: `tries.bump()`, `note(state)`
        for st in ex:
            for n in ([st] if isinstance(st, ast.expr) else []) + [x for x in ast.walk(st) if isinstance(x, ast.Call)]:
                if not isinstance(n, ast.Call):
                    continue
                fn = n.func
                if isinstance(fn, ast.Name) and fn.id in ("len", "isinstance", "int", "str", "repr", "abs", "min", "max", "range", "unpack", "ord", "bool"):
                    continue
                if isinstance(fn, ast.Attribute) and fn.attr in STREAMISH:
                    continue
                objs = []
                if isinstance(fn, ast.Attribute):
                    objs.append(fn.value)
                objs += list(n.args) + [k.value for k in n.keywords]
                for o in objs:
                    d = dotted(o)
                    if d and d not in ("self",) and not d.startswith(("logger", "logging")):
                        touched_objs.add(d)
            if isinstance(st, (ast.If, ast.While, ast.For)):
                continue
        carried -= set(settled)
        # exit conditions met on the path
        conds = [(loop.test, True)]
        for st in ex:
            if isinstance(st, ast.If):
                if leaves_only(st.body):
                    conds.append((st.test, False))
                elif st.orelse and leaves_only(st.orelse):
                    conds.append((st.test, True))
                elif any(isinstance(n, (ast.Break, ast.Return, ast.Raise)) for n in own_nodes(st)):
                    conds.append((st.test, None))
            elif isinstance(st, ast.While) and st is not loop:
                if any(isinstance(n, (ast.Return, ast.Raise)) for n in own_nodes(st)):
                    conds.append((st.test, None))
        env = {}
        for cond, _ in conds:
            for n in ast.walk(cond):
                if isinstance(n, ast.Name) and n.id not in env and n.id not in assigned:
                    c = self._preloop_const(loop, n.id)
                    if c is not None:
                        env[n.id] = c
        streams = {k for k in run_keys(run)}
        for cond, want in conds:
            names = {dotted(n) for n in ast.walk(cond) if isinstance(n, (ast.Name, ast.Attribute))} - {None}
            hit = names & carried
            # attributes / items of an object that some call on the path received (it may have been changed there)
            for nm in names:
                for o in touched_objs:
                    if o in streams or nm in streams:
                        continue
                    re_bound = any(nm == a or nm.startswith(a + ".") for a in assigned)   # a fresh object every iteration
                    if (nm.startswith(o + ".") or nm == o) and not re_bound and not isinstance(self._preloop_const(loop, nm), tuple):
                        # reading an attribute of the object, or the object itself when it is a mutable container
                        if nm != o or any(isinstance(x, ast.Call) and isinstance(x.func, ast.Attribute) and dotted(x.func.value) == o
                                          for s2 in ex for x in ast.walk(s2)):
                            hit = hit | {nm}
            # `len(x)` / `x` of a mutated container
            if not hit:
                continue
            tv = self._tv(cond, env, f)
            if want is not None and tv is want:
                continue   # decided without the carried state
            return "exit condition `%s` depends on loop-carried state %s" % (_u(cond, 50), sorted(hit))
        return None

    # ------------------------------------------------------------------ callees that can return without consuming
    def callee_zero_path(self, tgt: Func, ckey, depth):
        """Is there a syntactic path through `tgt`, followed with exact knowledge, that returns normally while the
        stream `ckey` has not advanced?  (The summary interval [0, n] only says that this is not excluded.)"""
        cache = self.__dict__.setdefault("_zero_cache", {})
        key = (id(tgt.node), ckey)
        if key in cache:
            return cache[key]
        cache[key] = False
        res = False
        if depth <= 3:
            oracle = sa_oracle()
            for _ in range(64):
                r = _Run(self.sa, tgt)
                r.oracle = oracle
                o = r.block(tgt.node.body, SState())
                ex = s_join(o.fall, o.ret)
                if ex is not None and not r.loose:
                    p = ex.p(ckey)
                    if p[0] > -INF and p[0] <= 0 and all(r.read_result_is_inert(rc) for rc in r.unchecked_reads) \
                            and all(self.callee_zero_path(t2, k2, depth + 1) for t2, k2 in r.zero_callees if (id(t2.node), k2) != key):
                        res = True
                        break
                if not oracle.advance():
                    break
        cache[key] = res
        cache[("keep", id(tgt.node))] = tgt
        return res

    # ------------------------------------------------------------------ definite non-progress
    MAX_PATHS = 256

    def definite_witness(self, f: Func, loop, cands, kind="while", comp=None, gi=0):
        """enumerate the syntactic paths of ONE iteration (ifs outside inner loops are followed one branch at a
        time) and return the description of a path on which (1) every fact used is exact knowledge (no unknown seek
        target, unresolved call, callee of unknown effect ...), (2) no touched stream ends ahead of where it started
        (or it is put at a loop-invariant position), and (3) no state that an exit condition compares with an
        invariant bound moves towards that bound.  None if no such path exists / the enumeration is too large."""
        sa = self.sa
        oracle = sa_oracle()
        counters = {c[1]: c[4] for c in cands if c[0] == "counter"}
        colls = {c[1] for c in cands if c[0] == "collection"}
        n = 0
        while True:
            n += 1
            if n > self.MAX_PATHS:
                return None
            if kind == "comp":
                back, run = sa.comp_effect(f, comp, gi, oracle=oracle)
            else:
                back, run, _ = self.le(f, loop, counters=counters, collections=colls, oracle=oracle,
                                              inv_test=(lambda e: self.invariant(e, loop)))
            if back is not None and not run.loose:
                ok = all(run.read_result_is_inert(rc) for rc in run.unchecked_reads) \
                    and all(self.callee_zero_path(t_, k_, 0) for t_, k_ in run.zero_callees)
                facts = []
                for key in sorted(back.keys()):
                    if key.startswith("#"):
                        continue
                    p = back.p(key)
                    if key in back.inv:
                        facts.append("`%s` is put back at the loop-invariant position `%s`" % (key, back.inv[key]))
                    elif p[0] > -INF and p[0] <= 0:
                        facts.append("`%s` advances by %s (0 is possible: nothing forces a byte to be consumed)" % (key, iv_str(p)))
                    else:
                        ok = False
                for knd, name, sign, bound, ge1, cnode in cands:
                    d = back.p(("#" if knd == "counter" else "#len:") + name)
                    if sign > 0:
                        if not (d[0] > -INF and d[0] <= 0):
                            ok = False
                    else:
                        if not (d[1] < INF and d[1] >= 0):
                            ok = False
                    if ok and d != ZERO:
                        facts.append("`%s` changes by %s" % (name, iv_str(d)))
                if ok and kind == "while":
                    settled = {c[1] for c in cands}
                    why_not = self._carried_state_matters(f, loop, run, settled)
                    if why_not:
                        ok = False
                if ok:
                    if not facts:
                        facts.append("no stream is read and no exit-relevant state changes")
                    return "path #%d of the body (branches %s): %s" % (
                        n, "".join("T" if d else "F" for d in oracle.decisions[: oracle.i]) or "-", "; ".join(facts))
            if not oracle.advance():
                return None

    @staticmethod
    def _nonempty_guard(c):
        """guard that implies a local string/sequence is non-empty: v.startswith(<non-empty const>), v, len(v) > 0, v[0] ..."""
        if isinstance(c, ast.Call) and isinstance(c.func, ast.Attribute) and c.func.attr in ("startswith", "endswith") \
                and isinstance(c.func.value, ast.Name) and c.args and isinstance(c.args[0], ast.Constant) \
                and isinstance(c.args[0].value, (str, bytes)) and len(c.args[0].value) >= 1:
            return c.func.value.id
        return None

    @staticmethod
    def _collection_guard(c):
        if isinstance(c, (ast.Name, ast.Attribute)) and dotted(c) is not None:
            return ast.unparse(c)
        if isinstance(c, ast.Call) and isinstance(c.func, ast.Name) and c.func.id == "len" and len(c.args) == 1:
            return ast.unparse(c.args[0])
        if isinstance(c, ast.Compare) and len(c.ops) == 1 and isinstance(c.left, ast.Call) and isinstance(c.left.func, ast.Name) \
                and c.left.func.id == "len" and len(c.left.args) == 1 and isinstance(c.comparators[0], ast.Constant):
            k = c.comparators[0].value
            if (isinstance(c.ops[0], ast.Gt) and k == 0) or (isinstance(c.ops[0], ast.GtE) and k == 1) or (isinstance(c.ops[0], ast.NotEq) and k == 0):
                return ast.unparse(c.left.args[0])
        return None

    # ------------------------------------------------------------------ K2'
    def cert_event_consumer(self, f: Func, loop: ast.While) -> Cert:
        cg, sa = self.cg, self.sa
        # 1. `V = next(X)` as a top-level statement of the body, not preceded by a `continue`
        step = None
        for s in loop.body:
            if isinstance(s, ast.Assign) and len(s.targets) == 1 and isinstance(s.targets[0], ast.Name) and isinstance(s.value, ast.Call):
                call = s.value
                x = None
                if isinstance(call.func, ast.Name) and call.func.id == "next" and len(call.args) == 1:
                    x = call.args[0]
                elif isinstance(call.func, ast.Attribute) and call.func.attr == "__next__" and not call.args:
                    x = call.func.value
                if x is not None:
                    step = (s, s.targets[0].id, call, x)
                    break
            if any(isinstance(n, ast.Continue) for n in [s] + list(own_nodes(s))):
                return Cert(None, why="")
        if step is None:
            return Cert(None, why="")
        s_next, var, call, x = step
        t = cg.type_of(x, f)
        if not isinstance(t, Cls):
            return Cert(None, why="type of `%s` is not known" % _u(x))
        nxt = t.lookup("__next__")
        if nxt is None:
            return Cert(None, why="%s has no __next__" % t.name)
        sn = cg.self_name(nxt)
        # 2. event attribute = what __next__ returns; stepper = the self-method it calls (or itself)
        rets = [n for n in own_nodes(nxt.node) if isinstance(n, ast.Return)]
        if len(rets) != 1 or not (isinstance(rets[0].value, ast.Attribute) and isinstance(rets[0].value.value, ast.Name) and rets[0].value.value.id == sn):
            return Cert(None, why="%s does not end in `return self.<event>`" % nxt.qualname)
        ev = rets[0].value.attr
        steppers = []
        for n in own_nodes(nxt.node):
            if isinstance(n, ast.Call) and isinstance(n.func, ast.Attribute) and isinstance(n.func.value, ast.Name) and n.func.value.id == sn:
                m = t.lookup(n.func.attr)
                if m is not None:
                    steppers.append(m)
        if len(steppers) != 1:
            return Cert(None, why="%s must delegate to exactly one stepper method (found %d)" % (nxt.qualname, len(steppers)))
        if any(isinstance(n, (ast.Assign, ast.AugAssign)) for n in own_nodes(nxt.node)):
            return Cert(None, why="%s has side effects of its own" % nxt.qualname)
        M = steppers[0]
        msn = cg.self_name(M)
        is_self_attr = lambda e, a: isinstance(e, ast.Attribute) and e.attr == a and isinstance(e.value, ast.Name) and e.value.id == msn
        # 3. validity flag from the consumer's guard
        flag = None
        guard_conds = list(self._conjuncts(loop.test))
        for s0 in loop.body:
            if s0 is s_next:
                break
            # a leading `if not <guard>: break|return|raise` is part of the loop guard
            if isinstance(s0, ast.If) and not s0.orelse and leaves_only(s0.body) and isinstance(s0.test, ast.UnaryOp) and isinstance(s0.test.op, ast.Not):
                guard_conds += self._conjuncts(s0.test.operand)
        for c in guard_conds:
            if isinstance(c, ast.Call) and isinstance(c.func, ast.Attribute) and not c.args and ast.unparse(c.func.value) == ast.unparse(x):
                g = t.lookup(c.func.attr)
                if g is not None:
                    gsn = cg.self_name(g)
                    grets = [n for n in own_nodes(g.node) if isinstance(n, ast.Return)]
                    stores = [n for n in own_nodes(g.node) if isinstance(n, (ast.Assign, ast.AugAssign, ast.Delete))]
                    if len(grets) == 1 and not stores and isinstance(grets[0].value, ast.Attribute) and isinstance(grets[0].value.value, ast.Name) \
                            and grets[0].value.value.id == gsn:
                        flag = grets[0].value.attr
            elif isinstance(c, ast.Attribute) and ast.unparse(c.value) == ast.unparse(x):
                flag = c.attr
        if flag is None:
            return Cert(None, why="the loop guard does not test a validity flag of `%s`" % _u(x))
        # 4. candidate terminal events: every constant the stepper assigns to self.<ev>
        ev_assigns = []          # statements (or self-calls) that may change self.<ev>
        const_assigns = {}       # int value -> [Assign statements]
        for n in own_nodes(M.node):
            if isinstance(n, ast.Assign):
                for tg in n.targets:
                    if is_self_attr(tg, flag) and not (isinstance(n.value, ast.Constant) and n.value.value is False):
                        return Cert(None, why="%s may set `%s` to something other than False (`%s`)" % (M.qualname, flag, _u(n, 50)))
                    if is_self_attr(tg, ev):
                        ev_assigns.append(n)
                        v = self.b.fold(n.value, M)
                        if isinstance(v, int) and not isinstance(v, bool):
                            const_assigns.setdefault(int(v), []).append(n)
            elif isinstance(n, ast.Call) and isinstance(n.func, ast.Attribute) and isinstance(n.func.value, ast.Name) and n.func.value.id == msn:
                m2 = t.lookup(n.func.attr)
                if m2 is not None and any(isinstance(k, ast.Assign) and any(isinstance(tg, ast.Attribute) and tg.attr == ev for tg in k.targets)
                                          for k in own_nodes(m2.node)):
                    ev_assigns.append(n)
        # the event may be collected in a local first:  event = None ... event = START_TAG ... if event is not None: self.<ev> = event
        self._k2_alias = None
        via = [n for n in ev_assigns if isinstance(n, ast.Assign) and isinstance(n.value, ast.Name)]
        if len(via) == 1 and not const_assigns:
            av = via[0].value.id
            st_ = via[0]
            pp = parent(st_)
            top = pp is M.node or (isinstance(pp, ast.If) and parent(pp) is M.node and not pp.orelse
                                   and all(isinstance(x, ast.Name) and x.id == av or not isinstance(x, ast.Name) for x in ast.walk(pp.test)))
            consts, ok = {}, top and not any(p_.arg == av for p_ in cg._params_of(M))
            for n in own_nodes(M.node):
                if isinstance(n, ast.Name) and n.id == av and isinstance(n.ctx, (ast.Store, ast.Del)):
                    pa = parent(n)
                    if not (isinstance(pa, ast.Assign) and len(pa.targets) == 1 and pa.targets[0] is n):
                        ok = False
                    else:
                        v = self.b.fold(pa.value, M)
                        if isinstance(v, int) and not isinstance(v, bool):
                            consts.setdefault(int(v), []).append(pa)
                        elif not (isinstance(pa.value, ast.Constant) and pa.value.value is None):
                            ok = False
            if ok and consts:
                # every assignment of a constant must be followed by leaving the loops it sits in (their guards test the local)
                for val_, lst in consts.items():
                    for a_ in lst:
                        w = parent(a_)
                        while w is not None and w is not M.node:
                            if isinstance(w, ast.While) and self._tv(w.test, {av: (val_,)}, M) is not False:
                                ok = False
                            if isinstance(w, (ast.For, ast.AsyncFor)):
                                ok = False
                            w = parent(w)
            if ok and consts:
                const_assigns = consts
                ev_assigns = [x for lst in consts.values() for x in lst]
                self._k2_alias = av
        # helpers `def H(self): if <c>: self.<ev> = T; return True ... return False` -- true exactly when the terminal was set
        helpers = {}            # method name -> terminal value
        for n in own_nodes(M.node):
            if isinstance(n, ast.Call) and isinstance(n.func, ast.Attribute) and isinstance(n.func.value, ast.Name) and n.func.value.id == msn:
                H = t.lookup(n.func.attr)
                if H is not None and H is not M and n.func.attr not in helpers:
                    tv_ = self._terminal_predicate(H, ev)
                    if tv_ is not None:
                        helpers[n.func.attr] = tv_
                        const_assigns.setdefault(tv_, [])
        if not const_assigns:
            return Cert(None, why="%s never assigns a constant terminal event to self.%s" % (M.qualname, ev))
        self._k2_helpers = helpers
        cfg = CFG(M.node)
        whys = {}
        per_terminal = {}
        for terminal in sorted(const_assigns):
            r = self._event_consumer_for(f, loop, s_next, var, call, x, t, M, msn, ev, flag, terminal, const_assigns[terminal], ev_assigns, cfg)
            if r:
                return r
            if r.unresolved:
                return r
            whys.setdefault(getattr(r, "stage", 1), (r.why, getattr(r, "definite", None)))
            per_terminal[terminal] = getattr(r, "definite", None)
        # prefer the explanation of a candidate whose stepper side was fine (the consumer is what is broken).
        # With several candidate terminal constants a failure is definite only if it is definite for the
        # candidate the consumer actually leaves on -- approximated by: stage 2, or a single candidate.
        pick = whys.get(2) or whys.get(1) or ("", None)
        c = Cert(None, why=pick[0])
        # a stage-1 failure (stepper) is definite only when it was found for the constant the consumer leaves on
        leaves = self._consumer_leaves_on(loop, var, const_assigns, f)
        c.definite = None
        if 2 in whys:
            c.definite = whys[2][1]
        elif len(leaves) == 1 and per_terminal.get(next(iter(leaves))):
            c.definite = per_terminal[next(iter(leaves))]
        return c

    def _terminal_predicate(self, H: Func, ev):
        """H returns only the constants True/False, assigns self.<ev> = <const T> immediately before every `return True`
        (same block) and nowhere else -> T, else None"""
        sn = self.cg.self_name(H)
        if sn is None:
            return None
        rets = [n for n in own_nodes(H.node) if isinstance(n, ast.Return)]
        if not rets or not leaves_only(H.node.body):
            return None
        term = None
        marked = set()
        for r in rets:
            if not (isinstance(r.value, ast.Constant) and r.value.value in (True, False)):
                return None
            if r.value.value is True:
                p = parent(r)
                blk = None
                for fld in ("body", "orelse", "finalbody"):
                    lst = getattr(p, fld, None)
                    if isinstance(lst, list) and any(y is r for y in lst):
                        blk = lst
                if blk is None:
                    return None
                found = None
                for st in blk:
                    if st is r:
                        break
                    if isinstance(st, ast.Assign) and len(st.targets) == 1 and isinstance(st.targets[0], ast.Attribute) and st.targets[0].attr == ev \
                            and isinstance(st.targets[0].value, ast.Name) and st.targets[0].value.id == sn:
                        v = self.b.fold(st.value, H)
                        if isinstance(v, int) and not isinstance(v, bool):
                            found = (int(v), st)
                if found is None:
                    return None
                if term is not None and term != found[0]:
                    return None
                term = found[0]
                marked.add(id(found[1]))
        # no other assignment of the event, no calls to own methods that could set it
        for n in own_nodes(H.node):
            if isinstance(n, (ast.Assign, ast.AugAssign)):
                for tg in (n.targets if isinstance(n, ast.Assign) else [n.target]):
                    for x in ast.walk(tg):
                        if isinstance(x, ast.Attribute) and x.attr == ev and id(n) not in marked:
                            return None
            if isinstance(n, ast.Call) and isinstance(n.func, ast.Attribute) and isinstance(n.func.value, ast.Name) and n.func.value.id == sn:
                return None
        return term

    def _path_may_set(self, run, cls, sn, attrs):
        """some statement the run went through calls a method of the same object that (transitively, depth 2)
        assigns one of `attrs` -- the event / flag may change behind a call"""
        def assigns(m, depth):
            for n in own_nodes(m.node):
                if isinstance(n, (ast.Assign, ast.AugAssign)):
                    for tg in (n.targets if isinstance(n, ast.Assign) else [n.target]):
                        for x in ast.walk(tg):
                            if isinstance(x, ast.Attribute) and x.attr in attrs:
                                return True
                if depth < 2 and isinstance(n, ast.Call) and isinstance(n.func, ast.Attribute) and isinstance(n.func.value, ast.Name) \
                        and n.func.value.id == self.cg.self_name(m):
                    m2 = cls.lookup(n.func.attr)
                    if m2 is not None and m2 is not m and assigns(m2, depth + 1):
                        return True
            return False
        seen = set()
        for st in run.executed:
            if id(st) in seen:
                continue
            seen.add(id(st))
            # only the statement's own expressions (nested statements are in `executed` themselves if they ran)
            exprs = [x for x in ast.iter_child_nodes(st) if isinstance(x, ast.expr)]
            for e in exprs:
                for n in ast.walk(e):
                    if isinstance(n, ast.Call) and isinstance(n.func, ast.Attribute) and isinstance(n.func.value, ast.Name) and n.func.value.id == sn:
                        m2 = cls.lookup(n.func.attr)
                        if m2 is not None and assigns(m2, 0):
                            return True
        return False

    def _consumer_leaves_on(self, loop, var, const_assigns, f):
        """constants the consumer compares the event with in an `if` that leaves the loop"""
        hits = set()
        for n in own_nodes(loop):
            if isinstance(n, ast.If) and (leaves_only(n.body) or any(isinstance(x, (ast.Break, ast.Raise, ast.Return)) for x in n.body)):
                for cmp_ in ast.walk(n.test):
                    if isinstance(cmp_, ast.Compare) and len(cmp_.ops) == 1 and isinstance(cmp_.ops[0], ast.Eq):
                        for a, b in ((cmp_.left, cmp_.comparators[0]), (cmp_.comparators[0], cmp_.left)):
                            if isinstance(a, ast.Name) and a.id == var:
                                v = self.b.fold(b, f)
                                if isinstance(v, int):
                                    hits.add(int(v))
                                elif isinstance(v, (tuple, list, set)):
                                    hits |= {int(x) for x in v if isinstance(x, int)}
                    if isinstance(cmp_, ast.Compare) and len(cmp_.ops) == 1 and isinstance(cmp_.ops[0], ast.In) \
                            and isinstance(cmp_.left, ast.Name) and cmp_.left.id == var:
                        v = self.b.fold(cmp_.comparators[0], f)
                        if isinstance(v, (tuple, list, set)):
                            hits |= {int(x) for x in v if isinstance(x, int)}
        return hits

    def _event_consumer_for(self, f, loop, s_next, var, call, x, t, M, msn, ev, flag, terminal, term_assigns, ev_assigns, cfg):
        sa = self.sa
        is_self_attr = lambda e, a: isinstance(e, ast.Attribute) and e.attr == a and isinstance(e.value, ast.Name) and e.value.id == msn
        # 5. every normal path of the stepper: progress | terminal | invalid
        cut = set()
        for n in own_nodes(M.node):
            if isinstance(n, ast.Assign) and any(is_self_attr(tg, flag) for tg in n.targets):
                cut.add(id(n))
            if isinstance(n, ast.If) and isinstance(n.test, ast.Compare) and len(n.test.ops) == 1 and isinstance(n.test.ops[0], ast.Eq) \
                    and is_self_attr(n.test.left, ev):
                v = self.b.fold(n.test.comparators[0], M)
                if isinstance(v, int) and int(v) == terminal:
                    # `if self.<ev> == T: return` -- the event is still the terminal one on that path
                    for s2 in n.body:
                        if isinstance(s2, ast.Return):
                            cut.add(id(s2))
                        if isinstance(s2, (ast.Assign, ast.AugAssign)) or not (isinstance(s2, ast.Return) or self._is_logging(s2)):
                            break
        # `if self.H(): <branch>` with H true exactly when it set this terminal: the branch is a terminal path
        for n in own_nodes(M.node):
            if isinstance(n, ast.If):
                tst, neg = n.test, False
                if isinstance(tst, ast.UnaryOp) and isinstance(tst.op, ast.Not):
                    tst, neg = tst.operand, True
                if isinstance(tst, ast.Call) and isinstance(tst.func, ast.Attribute) and isinstance(tst.func.value, ast.Name) \
                        and tst.func.value.id == msn and getattr(self, "_k2_helpers", {}).get(tst.func.attr) == terminal and not tst.args:
                    branch = n.orelse if neg else n.body
                    if branch:
                        cut.add(id(branch[0]))
                        term_assigns = list(term_assigns) + [branch[0]]
        if not term_assigns:
            return Cert(None, why="%s never reaches a statement that sets the terminal event %d" % (M.qualname, terminal))
        for a in term_assigns:
            cut.add(id(a))
            for bnode in ev_assigns:
                b_st = bnode
                while b_st is not None and not isinstance(b_st, ast.stmt):
                    b_st = parent(b_st)
                if b_st is a or b_st is None:
                    continue
                avoid = []
                if getattr(self, "_k2_alias", None):
                    # once the local holds the event the loops guarded by it are left
                    avoid = [w for w in own_nodes(M.node) if isinstance(w, ast.While) and self._tv(w.test, {self._k2_alias: (terminal,)}, M) is False]
                if cfg.reachable(a, b_st, avoiding=avoid):
                    return Cert(None, why="%s may overwrite the terminal event %d after setting it (`%s`)" % (M.qualname, terminal, _u(b_st, 60)))
        run = _Run(sa, M)
        run.cut = cut
        alias = getattr(self, "_k2_alias", None)
        fkey = msn + "." + flag
        for n in own_nodes(M.node):
            if isinstance(n, ast.While) and is_self_attr(n.test, flag):
                run.assume_true.add(id(n.test))
            elif isinstance(n, ast.While) and alias is not None:
                # `while self.<flag> and <alias> is None`: entered with the flag true and the local still None;
                # it is left exactly by the assignments that falsify the guard
                env0 = {fkey: (True,), alias: (None,)}
                if self._tv(n.test, env0, M) is True:
                    falsifiers_only = True
                    for x in own_nodes(n):
                        if isinstance(x, ast.Assign) and len(x.targets) == 1 and isinstance(x.targets[0], ast.Name) and x.targets[0].id == alias:
                            c = self.b.fold(x.value, M)
                            if isinstance(c, int) and self._tv(n.test, {fkey: (True,), alias: (c,)}, M) is False:
                                if id(x) not in cut:
                                    run.break_after.add(id(x))
                            else:
                                falsifiers_only = False
                    if falsifiers_only:
                        run.assume_true.add(id(n.test))
        o = run.block(M.node.body, SState())
        ex = s_join(o.fall, o.ret)
        prog = None
        if ex is not None:
            for key in sorted(ex.keys()):
                if key.startswith(msn + ".") and ex.p(key)[0] >= 1 and ex.a(key) >= 1:
                    prog = (key, ex.p(key), ex.a(key))
            if prog is None:
                c = Cert(None, why="%s has a normal path that neither advances the stream, nor sets the terminal event %d, nor clears `%s` (%s)"
                         % (M.qualname, terminal, flag, ex), unresolved=run.unresolved)
                # definite only if one syntactic path, followed with exact knowledge, returns without any of the three
                oracle = sa_oracle()
                for _ in range(self.MAX_PATHS):
                    r2 = _Run(sa, M)
                    r2.cut = cut
                    r2.assume_true = set(run.assume_true)
                    r2.break_after = set(run.break_after)
                    r2.oracle = oracle
                    o2 = r2.block(M.node.body, SState())
                    e2 = s_join(o2.fall, o2.ret)
                    if e2 is not None and not r2.loose and not self._path_may_set(r2, t, msn, (ev, flag)) \
                            and all(r2.read_result_is_inert(rc) for rc in r2.unchecked_reads) \
                            and all(self.callee_zero_path(t_, k_, 0) for t_, k_ in r2.zero_callees):
                        keys = [k for k in e2.keys() if k.startswith(msn + ".")]
                        if all(e2.p(k)[0] > -INF and e2.p(k)[0] <= 0 for k in keys):
                            c.definite = "%s returns on path %s without consuming input (%s), without the terminal event %d and with `%s` still true" % (
                                M.qualname, "".join("T" if d else "F" for d in oracle.decisions[: oracle.i]) or "-", e2, terminal, flag)
                            break
                    if not oracle.advance():
                        break
                return c
        # 6. the consumer leaves on the terminal event on every path (path-sensitive on tested constants)
        bad = self._terminal_reaches_back_edge(f, loop, s_next, var, terminal)
        if bad is not None:
            c = Cert(None, why="a path from `%s` reaches the back edge while the event may still be the terminal event %d (via `%s`); "
                     "the stepper makes no progress once it is set and `%s` stays true" % (_u(s_next, 40), terminal, _u(bad, 50), _u(loop.test, 40)))
            c.stage = 2
            c.definite = c.why
            return c
        # 7. nothing else in the body moves X's stream
        bk, rn, _ = self.le(f, loop)
        rn2 = _Run(sa, f)
        rn2.skip_calls = {id(call)}
        st = rn2.expr(loop.test, SState())
        o2 = rn2.block(loop.body, st)
        bk2 = s_join(o2.fall, o2.cont)
        xk = sa.key_of(x, f) or ast.unparse(x)
        if bk2 is not None:
            for key in bk2.keys():
                if (key == xk or key.startswith(xk + ".")) and bk2.p(key) != ZERO:
                    return Cert(None, why="the loop body itself repositions `%s` (%s)" % (key, iv_str(bk2.p(key))))
        if rn2.wild:
            return Cert(None, why="the loop body calls code that may reposition a stream it holds")
        return Cert("K2'", "`%s = next(%s)` on every path; stepper %s: every normal path %s, or sets the sticky terminal event %s=%d, or clears `%s`; "
                    "loop guarded by `%s`, leaves on event %d on every path"
                    % (var, _u(x, 30), M.qualname,
                       ("advances `%s` by %s with >= %d checked bytes" % (prog[0], iv_str(prog[1]), prog[2])) if prog else "(none reaches the exit)",
                       ev, terminal, flag, _u(loop.test, 40), terminal))

    @staticmethod
    def _is_logging(s):
        return isinstance(s, ast.Expr) and isinstance(s.value, ast.Call) and ast.unparse(s.value.func).startswith(("logger.", "logging.", "log."))

    def _terminal_reaches_back_edge(self, f: Func, loop, s_next, var, terminal):
        """explore the CFG of the loop body from the statement after `var = next(X)`; abstract state =
        (may the event be the terminal one?, does `var` still hold the event?).  Returns a statement through
        which the back edge is reached with may_terminal, or None."""
        cfg = CFG(f.node)
        g = cfg.g

        def ev_test(test, is_var_valid):
            """-> truth of `test` if the event were `terminal`: True / False / None (unknown)"""
            if not is_var_valid:
                return None
            if isinstance(test, ast.Compare) and len(test.ops) == 1:
                l, r, op = test.left, test.comparators[0], test.ops[0]
                if isinstance(r, ast.Name) and r.id == var and not (isinstance(l, ast.Name) and l.id == var):
                    l, r = r, l
                if isinstance(l, ast.Name) and l.id == var:
                    v = self.b.fold(r, f)
                    if isinstance(op, (ast.Eq, ast.NotEq)) and isinstance(v, int):
                        eq = int(v) == terminal
                        return eq if isinstance(op, ast.Eq) else (not eq)
                    if isinstance(op, (ast.In, ast.NotIn)) and isinstance(v, (list, tuple, set)) and all(isinstance(x, int) for x in v):
                        inn = terminal in [int(x) for x in v]
                        return inn if isinstance(op, ast.In) else (not inn)
                return None
            if isinstance(test, ast.BoolOp):
                vals = [ev_test(v, is_var_valid) for v in test.values]
                if isinstance(test.op, ast.Or):
                    if any(v is True for v in vals):
                        return True
                    if all(v is False for v in vals):
                        return False
                    return None
                if any(v is False for v in vals):
                    return False
                if all(v is True for v in vals):
                    return True
                return None
            if isinstance(test, ast.UnaryOp) and isinstance(test.op, ast.Not):
                v = ev_test(test.operand, is_var_valid)
                return None if v is None else (not v)
            return None

        start = [m for m in g.successors(s_next)]
        seen = set()
        stack = [(m, True, True, s_next) for m in start]
        inside = set(id(n) for n in own_nodes(loop))
        while stack:
            node, may, valid, via = stack.pop()
            key = (id(node), may, valid)
            if key in seen:
                continue
            seen.add(key)
            if node is loop:
                if may:
                    return via
                continue
            if id(node) not in inside:
                continue  # left the loop
            if not may:
                continue  # nothing to prove further on this path
            # re-binding of var
            binds = isinstance(node, ast.stmt) and not isinstance(node, (ast.If, ast.While, ast.For, ast.Try, ast.With)) and var in _assigned_names(node)
            if isinstance(node, (ast.For, ast.AsyncFor)) and any(isinstance(x, ast.Name) and x.id == var for x in ast.walk(node.target)):
                binds = True
            nvalid = valid and not binds
            if isinstance(node, (ast.If, ast.While)):
                tv = ev_test(node.test, valid)
                for m in g.successors(node):
                    lab = g[node][m].get("label")
                    if lab == "back" and isinstance(node, ast.If):
                        lab = False  # cfg relabels the fall-through of a trailing `if` as the back edge
                    nm = may
                    if tv is True and lab is False:
                        nm = False
                    if tv is False and lab is True:
                        nm = False
                    if lab == "exc":
                        continue
                    stack.append((m, nm, nvalid, node))
            else:
                for m in g.successors(node):
                    if g[node][m].get("label") == "exc" and not isinstance(node, ast.Raise):
                        # an exception edge into a handler inside the loop keeps the facts
                        stack.append((m, may, nvalid, node))
                        continue
                    stack.append((m, may, nvalid, node))
        return None

    # ------------------------------------------------------------------ range loops
    def classify_range(self, f: Func, it: ast.Call):
        """-> (class, detail) with class in const | bounded | len | validated | input"""
        args = it.args
        if it.keywords or any(isinstance(a, ast.Starred) for a in args) or not args:
            return ("input", "unusual range() call")
        v = self.b.fold(it, f)
        if isinstance(v, list):
            return ("const", "%d iterations" % len(v))
        if len(args) == 1:
            start, stop = None, args[0]
        else:
            start, stop = args[0], args[1]
        sb = self.b.eval(stop, f)
        st = self.b.eval(start, f) if start is not None else (0, 0)
        if sb[1] < INF and st[0] > -INF and sb[1] - st[0] <= BOUND_MAX:
            return ("bounded", "trip count <= %d (stop in %s, start in %s)" % (max(0, sb[1] - st[0]), iv_str(sb), iv_str(st)))
        if self._len_bounded(stop, start) or self._size_bounded(f, it):
            return ("len", "trip count bounded by the length of an in-memory collection / of the input")
        val = self._validated_count(f, stop)
        if val is not None and (start is None or st[0] >= 0):
            return ("validated", val)
        return ("input", "stop in %s" % iv_str(sb))

    def _size_bounded(self, f: Func, it: ast.Call):
        """range(size - c, -1, -1) / range(size) / range(0, size - c) where `size` is the length of the input:
        a local whose definition is len(<bytes>), S.seek(0, SEEK_END), <buffer>.nbytes"""
        def is_size(e, depth=0):
            if depth > 3:
                return False
            if isinstance(e, ast.Call):
                if isinstance(e.func, ast.Name) and e.func.id == "len":
                    return True
                if isinstance(e.func, ast.Attribute) and e.func.attr == "seek" and len(e.args) == 2 and ast.unparse(e.args[1]).split(".")[-1] in ("SEEK_END", "2") \
                        and self.b.fold(e.args[0], f) == 0:
                    return True
                return False
            if isinstance(e, ast.Attribute) and e.attr == "nbytes":
                return True
            if isinstance(e, ast.BinOp) and isinstance(e.op, (ast.Add, ast.Sub, ast.FloorDiv)):
                c = self.b.fold(e.right, f)
                return isinstance(c, int) and is_size(e.left, depth + 1)
            if isinstance(e, ast.Name) and parent(e) is not None:
                dd = self.cg.dominating_def(e, f)
                return dd is not None and is_size(dd, depth + 1)
            return False
        a = it.args
        consts = lambda e: isinstance(self.b.fold(e, f), int)
        if len(a) == 1:
            return is_size(a[0])
        if len(a) == 2:
            return consts(a[0]) and is_size(a[1])
        if len(a) == 3:
            step = self.b.fold(a[2], f)
            if isinstance(step, int) and step < 0:
                return is_size(a[0]) and consts(a[1])
            if isinstance(step, int) and step > 0:
                return consts(a[0]) and is_size(a[1])
        return False

    @staticmethod
    def _len_bounded(stop, start):
        def is_len_expr(e):
            # len(X) (+- const, // const, * small const ignored) or arithmetic thereof
            if isinstance(e, ast.Call) and isinstance(e.func, ast.Name) and e.func.id == "len":
                return True
            if isinstance(e, ast.BinOp) and isinstance(e.op, (ast.Add, ast.Sub, ast.FloorDiv)):
                return is_len_expr(e.left) and isinstance(e.right, ast.Constant)
            return False
        if is_len_expr(stop):
            return True
        # range(A - len(X), A): trip count = len(X)
        if start is not None and isinstance(start, ast.BinOp) and isinstance(start.op, ast.Sub) and ast.dump(start.left) == ast.dump(stop) \
                and is_len_expr(start.right):
            return True
        return False

    def _validated_count(self, f: Func, stop):
        """`range(self.n)` in a method other than __init__ where __init__ runs a K1 loop over range(self.n)
        after the last store to self.n (and nothing else stores to it): the count was paid for in bytes."""
        sn = self.cg.self_name(f)
        if sn is None or f.cls is None or not (isinstance(stop, ast.Attribute) and isinstance(stop.value, ast.Name) and stop.value.id == sn):
            return None
        attr = stop.attr
        stores = self.b._stores(f.cls, attr)
        if not stores or any(m.name != "__init__" for m, *_ in stores):
            return None
        init = f.cls.lookup("__init__")
        if init is None or init.node is f.node:
            return None
        isn = self.cg.self_name(init)
        body = init.node.body
        last = -1
        for i, s in enumerate(body):
            for m, stmt, *_ in stores:
                if any(x is stmt for x in [s] + list(own_nodes(s))):
                    last = i
        for s in body[last + 1:]:
            if isinstance(s, ast.For) and isinstance(s.iter, ast.Call) and isinstance(s.iter.func, ast.Name) and s.iter.func.id == "range" \
                    and len(s.iter.args) == 1 and isinstance(s.iter.args[0], ast.Attribute) and s.iter.args[0].attr == attr \
                    and isinstance(s.iter.args[0].value, ast.Name) and s.iter.args[0].value.id == isn:
                c = self.k1_for(init, s)
                if c:
                    return "count self.%s was validated by the K1 loop `%s` in %s" % (attr, _u("for %s in %s" % (ast.unparse(s.target), ast.unparse(s.iter)), 50), init.qualname)
        return None

    def k1_for(self, f: Func, loop) -> Cert:
        back, run, out = self.le(f, loop)
        return self._k1(back, run)

    def k1_comp(self, f: Func, comp, gi) -> Cert:
        back, run = self.sa.comp_effect(f, comp, gi)
        return self._k1(back, run)

    def _k1(self, back, run) -> Cert:
        if back is None:
            return Cert("K0", "no path of the body reaches the next iteration")
        tried = []
        for key in sorted(back.keys()):
            if key.startswith("#"):
                continue
            p, a = back.p(key), back.a(key)
            if p[0] >= 1 and a >= 1:
                return Cert("K1", "every iteration advances `%s` by %s with >= %d anchored checked byte(s)" % (key, iv_str(p), a))
            tried.append("stream `%s`: net advance %s, anchored checked bytes >= %d" % (key, iv_str(p), a))
        return Cert(None, why="; ".join(tried) if tried else "the body reads no stream", unresolved=list(run.unresolved) + list(run.unknown_calls))

    # ------------------------------------------------------------------ recursion
    def precise_graph(self, funcs):
        g = nx.DiGraph()
        ids = {id(f.node): f for f in funcs}
        for f in funcs:
            g.add_node(id(f.node))
            for e in self.cg.edges(f):
                precise = e.kind in PRECISE
                if e.kind in ("implicit", "property") and len(e.targets) == 1:
                    recv = None
                    if isinstance(e.node, ast.Attribute):
                        recv = e.node.value
                    elif isinstance(e.node, ast.Subscript):
                        recv = e.node.value
                    elif isinstance(e.node, ast.Call) and e.node.args:
                        recv = e.node.args[0]
                    if recv is not None and isinstance(self.cg.type_of(recv, f), Cls):
                        precise = True
                if not precise:
                    continue
                for t in e.targets:
                    if id(t.node) in ids:
                        g.add_edge(id(f.node), id(t.node))
        return g, ids

    def recursive_sccs(self, funcs):
        g, ids = self.precise_graph(funcs)
        out = []
        for comp in nx.strongly_connected_components(g):
            comp = list(comp)
            if len(comp) > 1 or g.has_edge(comp[0], comp[0]):
                out.append(sorted((ids[i] for i in comp), key=lambda f: (f.file, f.qualname)))
        out.sort(key=lambda c: (c[0].file, c[0].qualname))
        return out

    def certify_scc(self, comp):
        """-> (Cert, per-edge details).  An edge f -> g (call site) makes progress when, before the call,
        the stream handed to g has advanced >= 1 with >= 1 anchored checked byte since f was entered, or
        when an argument is a strictly shorter slice of one of f's parameters."""
        ids = {id(f.node) for f in comp}
        handed_any = [False]
        nonprog = nx.DiGraph()
        details = []
        unresolved = []
        for f in comp:
            run = _Run(self.sa, f)
            run.block(f.node.body, SState())
            unresolved += run.unresolved
            params = {p.arg for p in self.cg._params_of(f)}
            per_call = {}
            for (cnode, tgt, before, mapping) in run.call_states:
                if id(tgt.node) not in ids:
                    continue
                ok = False
                dfn = False
                why = "no stream of %s is handed to %s" % (f.qualname, tgt.qualname)
                for ckey, k in mapping.items():
                    if k.split(".")[0] in params:
                        handed_any[0] = True
                        p, a = before.p(k), before.a(k)
                        if p[0] >= 1 and a >= 1:
                            ok = True
                            why = "`%s` advanced %s with >= %d checked byte(s) before the call" % (k, iv_str(p), a)
                        else:
                            why = "`%s` advanced only %s with >= %d checked byte(s) before the call" % (k, iv_str(p), a)
                            # an exact position involves no "the read may have returned nothing" slack
                            dfn = (-INF < p[0] <= 0) and not run.loose and (
                                p[0] == p[1] or (all(run.read_result_is_inert(rc, on_path=False) for rc in run.unchecked_reads)
                                                 and all(self.callee_zero_path(t_, k_, 0) for t_, k_ in run.zero_callees)))
                if not ok and self._shrinking_arg(cnode, params):
                    ok = True
                    why = "an argument is a strictly shorter slice of a parameter"
                prev = per_call.get(id(cnode))
                if prev is None or (prev[2] and not ok):
                    per_call[id(cnode)] = (cnode, tgt, ok, why, dfn)
            # calls that the interpreter never reached (dead code) are ignored
            for cnode, tgt, ok, why, dfn in per_call.values():
                details.append((f, cnode, tgt, ok, why))
                if not ok:
                    nonprog.add_edge(id(f.node), id(tgt.node), call=cnode, src=f, definite=dfn, why=why)
        try:
            cyc = nx.find_cycle(nonprog)
        except nx.NetworkXNoCycle:
            cyc = None
        if cyc is None:
            return Cert("K5", "every cycle of the SCC passes a call site before which the handed-down stream advanced by >= 1 checked byte "
                        "(%d recursive call sites, %d without progress, no cycle among those)" % (len(details), nonprog.number_of_edges())), details
        if not any(d.get("handed") for _, _, d in nonprog.edges(data=True)) and not handed_any[0]:
            return Cert("K5r", "no input stream is handed down the recursion: its depth is bounded by the interpreter's recursion limit "
                        "(result or RecursionError), and every loop inside is certified on its own"), details
        first = nonprog[cyc[0][0]][cyc[0][1]]
        c = Cert(None, why="recursion cycle without consumed input: " + " -> ".join(
            nonprog[u][v]["src"].qualname for u, v, *_ in cyc) + " -> ...", unresolved=unresolved)
        c.call = first["call"]
        c.src = first["src"]
        c.definite = None
        if all(nonprog[u][v]["definite"] for u, v, *_ in cyc):
            c.definite = "the stream is handed down unconsumed on every edge of the cycle (%s)" % "; ".join(
                nonprog[u][v]["why"] for u, v, *_ in cyc)
        return c, details

    @staticmethod
    def _shrinking_arg(call, params):
        for a in list(call.args) + [k.value for k in call.keywords]:
            if isinstance(a, ast.Subscript) and isinstance(a.value, ast.Name) and a.value.id in params and isinstance(a.slice, ast.Slice):
                lo, hi = a.slice.lower, a.slice.upper
                if isinstance(lo, ast.Constant) and isinstance(lo.value, int) and lo.value >= 1 and a.slice.step is None:
                    return True
                if lo is None and isinstance(hi, ast.UnaryOp) and isinstance(hi.op, ast.USub) and isinstance(hi.operand, ast.Constant) \
                        and isinstance(hi.operand.value, int) and hi.operand.value >= 1:
                    return True
        return False


# =============================================================================
def _label(f, kind, node, seen):
    if kind == "while":
        base = "while " + _u(node.test, 90)
    elif kind == "for":
        base = "for %s in %s" % (_u(node.target, 30), _u(node.iter, 70))
    else:
        base = kind
    k = (f.qualname, base)
    seen[k] = seen.get(k, 0) + 1
    return base if seen[k] == 1 else "%s #%d" % (base, seen[k])


def check_function(core: Core, sink, f: Func, in_scope=True, seen=None, roots_path=None):
    """certify every while loop and every range-counted loop/comprehension of f.
    `sink` needs .check(rule, instance, ok, func, construct, message, node=, detail=), .ob(...), .count(name).
    Verdict policy: a failed certificate search is reported as a finding only when the loop is input driven and a
    definite non-progress path was established; every other failure is returned as *undecided*
    -> [(instance, reason)] (the caller turns these into exit 2)."""
    seen = seen if seen is not None else {}
    whiles, fors, comps = loops_of(f.node)
    undecided = []
    for w in whiles:
        lab = _label(f, "while", w, seen)
        sink.count("while_loops_in_scope" if in_scope else "while_loops_out_of_scope")
        cert = core.certify_while(f, w)
        inst = "%s: %s" % (f.qualname, lab)
        if cert:
            sink.count("cert_" + cert.kind.replace("'", "p"))
            sink.check("while/certificate", inst, True, f, lab, "", node=w, detail="%s -- %s" % (cert.kind, cert.detail))
        elif not in_scope:
            sink.ob("while/out-of-scope", inst, True, "not reachable from a parser entry point; no certificate derived (%s)" % cert.why[:200])
            sink.count("uncertified_out_of_scope")
        elif getattr(cert, "definite", None) and getattr(cert, "input_driven", False) and not cert.unresolved:
            sink.check("while/certificate", inst, False, f, lab,
                       "input-driven loop with a definite non-progress path: %s  [no termination certificate (K0-K5/K2'): %s]"
                       % (cert.definite, cert.why), node=w, witness=dict(path=cert.definite, tried=cert.why))
        else:
            if cert.unresolved:
                why = "a call that may consume the stream could not be resolved: %s" % "; ".join(_u(u, 60) for u in cert.unresolved[:3])
            elif not getattr(cert, "input_driven", False):
                why = "no certificate found and the loop does not read input (value-driven loop): %s" % cert.why
            else:
                why = "no certificate found, but no definite non-progress path either (imprecise facts): %s" % cert.why
            sink.count("undecided")
            undecided.append((inst, why))
    if in_scope:
        for fo in fors:
            it = fo.iter
            if isinstance(it, ast.Call) and isinstance(it.func, ast.Name) and it.func.id in ("range", "xrange"):
                lab = _label(f, "for", fo, seen)
                _check_range(core, sink, f, fo, it, lab, lambda: core.k1_for(f, fo), undecided,
                             lambda: core.definite_witness(f, fo, [], kind="for"))
            elif isinstance(it, ast.Call) and isinstance(it.func, ast.Name) and it.func.id == "iter" and len(it.args) == 2:
                _check_callable_iter(core, sink, f, fo, seen, undecided)
            else:
                _check_collection_for(core, sink, f, fo, seen, undecided)
        for c in comps:
            for gi, g in enumerate(c.generators):
                it = g.iter
                if isinstance(it, ast.Call) and isinstance(it.func, ast.Name) and it.func.id in ("range", "xrange"):
                    lab = _label(f, "[%s for %s in %s]" % (_u(CallGraphElt(c), 40), _u(g.target, 20), _u(it, 50)), c, seen)
                    _check_range(core, sink, f, c, it, lab, lambda c=c, gi=gi: core.k1_comp(f, c, gi), undecided,
                                 lambda c=c, gi=gi: core.definite_witness(f, None, [], kind="comp", comp=c, gi=gi))
    return undecided


def CallGraphElt(c):
    return c.key if isinstance(c, ast.DictComp) else c.elt


def _check_range(core, sink, f, node, it, lab, k1, undecided, witness):
    sink.count("range_loops")
    cls, detail = core.classify_range(f, it)
    inst = "%s: %s" % (f.qualname, lab)
    if cls != "input":
        sink.count("range_" + cls)
        sink.ob("for/bounded-count", inst, True, "%s: %s" % (cls, detail))
        return
    sink.count("range_input_counted")
    sc = core.slice_checked(f, node, it)
    if sc:
        sink.check("for/input-counted", inst, True, f, lab, "", node=node, detail="input-counted (%s); K1 -- %s" % (detail, sc))
        return
    cert = k1()
    if cert:
        sink.check("for/input-counted", inst, True, f, lab, "", node=node, detail="input-counted (%s); %s -- %s" % (detail, cert.kind, cert.detail))
        return
    if cert.unresolved:
        sink.count("undecided")
        undecided.append((inst, "a call that may consume the stream could not be resolved: %s" % "; ".join(_u(u, 60) for u in cert.unresolved[:3])))
        return
    prov = core.count_is_input(f, it)
    # policy (a): only a loop that itself works on the input stream can be reported; a loop that merely counts up to a
    # number read earlier may have had that number validated elsewhere in a way the `validated` class does not recognise
    w = witness() if (prov and cert.why != "the body reads no stream") else None
    if prov and w:
        sink.check("for/input-counted", inst, False, f, lab,
                   "trip count is read from the input (%s; %s) and an iteration can complete without consuming a checked byte: %s  [%s]"
                   % (detail, prov, w, cert.why), node=node, witness=dict(count=detail, provenance=prov, path=w, tried=cert.why))
    else:
        sink.count("undecided")
        undecided.append((inst, "trip count not bounded and K1 not established, but %s: %s" % (
            "the count is not known to come from the input" if not prov else "no definite non-consuming path was found", cert.why)))


def _check_callable_iter(core, sink, f, fo, seen, undecided):
    """`for x in iter(callable, SENTINEL)` is `while True: x = callable(); if x == SENTINEL: break; body` -- it needs a
    certificate like any other unbounded loop"""
    lab = _label(f, "for", fo, seen)
    inst = "%s: %s" % (f.qualname, lab)
    sink.count("callable_iter_loops")
    run0 = _Run(core.sa, f)
    sr = run0._sentinel_read_iter(fo.iter)
    if sr is not None:
        kind = core.sa.read_kind(ast.parse(sr[0], mode="eval").body, f)
        sink.check("iter/certificate", inst, True, f, lab, "", node=fo,
                   detail="K1 -- the iteration ends when `%s.read()` returns the empty value: the sentinel has the type the stream yields (%s)" % (sr[0], kind))
        return
    cert = core.k1_for(f, fo)
    if cert:
        sink.check("iter/certificate", inst, True, f, lab, "", node=fo, detail="%s -- %s" % (cert.kind, cert.detail))
        return
    if run0.sentinel_never_matches(fo.iter) and not cert.unresolved:
        w = core.definite_witness(f, fo, [], kind="for")
        if w:
            sink.check("iter/certificate", inst, False, f, lab,
                       "the iteration cannot end at end of input: `read()` of this stream returns %s, which never equals the sentinel `%s` "
                       "(b'' != '' in Python 3), and an iteration need not consume anything: %s"
                       % ("bytes" if isinstance(fo.iter.args[1].value, str) else "str", _u(fo.iter.args[1], 20), w),
                       node=fo, witness=dict(path=w))
            return
    sink.count("undecided")
    undecided.append((inst, "no certificate for the callable-driven iteration (whether the callable ever returns the sentinel is not established): %s" % cert.why))


def _check_collection_for(core, sink, f, fo, seen, undecided):
    """`for x in C`: the body must not grow C (finite-collection certificate K4 for `for` loops);
    a growing work list is not input driven by itself -> undecided, never a finding"""
    it = fo.iter
    if not isinstance(it, (ast.Name, ast.Attribute)) or dotted(it) is None:
        return
    txt = ast.unparse(it)
    grows = None
    for n in own_nodes(fo):
        if isinstance(n, ast.Call) and isinstance(n.func, ast.Attribute) and n.func.attr in ("append", "extend", "insert", "appendleft") \
                and ast.unparse(n.func.value) == txt:
            grows = n
    sink.count("collection_for_loops")
    lab = _label(f, "for", fo, seen)
    if grows is None:
        sink.check("for/collection-not-grown", "%s: %s" % (f.qualname, lab), True, f, lab, "", node=fo,
                   detail="K4: iterates an in-memory collection the body does not grow")
    else:
        sink.count("undecided")
        undecided.append(("%s: %s" % (f.qualname, lab), "the loop appends to the list it iterates over (`%s`): work-list loop, not decided" % _u(grows)))


# =============================================================================
# expected verdict per fixture function: 'cert' | 'finding' (input driven + definite non-progress path) | 'undecided'
FIXTURE_EXPECT = {"while_bad": "finding", "while_ok": "cert", "while_eof_exit_ok": "cert", "seek_back_bad": "finding",
                  "counted_bad": "finding", "counted_ok": "cert", "counter_bad": "undecided", "counter_ok": "cert",
                  "countdown_ok": "cert", "shift_ok": "cert", "len_bound_ok": "cert", "guard_bounded_ok": "cert",
                  "flag_drain_ok": "cert", "opaque_seek_undecided": "undecided", "value_loop_undecided": "undecided",
                  "retry_state_undecided": "undecided", "carried_flag_irrelevant_bad": "finding",
                  "length_checked_ok": "cert", "indexed_read_undecided": "undecided", "from_bytes_bad": "finding",
                  "sentinel_bytes_ok": "cert", "sentinel_wrong_type_bad": "finding", "sentinel_unknown_stream_undecided": "undecided",
                  "eq_literal_wrong_type_bad": "finding", "walrus_ne_wrong_type_bad": "finding"}


def fixture_selfcheck(ctx):
    """the rule must fire on the positive examples of fixtures/C35 and certify the negative ones
    (guards against a vacuous pass once the repository carries no finding any more)"""
    import os
    from ..model import Repo
    from ..report import VERIF
    root = os.path.join(VERIF, "fixtures", "C35")
    if not os.path.isdir(os.path.join(root, "androguard")):
        raise AnalysisError("fixture fixtures/C35 is missing")
    core = Core(Repo(root))
    rel = "androguard/fx.py"
    for name, want in sorted(FIXTURE_EXPECT.items()):
        f = core.cg.func(rel, name)
        sk = _Collect()
        und = check_function(core, sk, f, in_scope=True, seen={})
        got = "finding" if sk.bad else ("undecided" if und else ("cert" if sk.good else "nothing"))
        ctx.ob("fixture", name, got == want, got + (": " + (sk.bad[0][2][:120] if sk.bad else (und[0][1][:120] if und else ""))))
        if got != want:
            raise AnalysisError("fixture %s: expected verdict %r, rule says %r -- the rule lost its teeth / over-reports (%s)"
                                % (name, want, got, (sk.bad[0][2][:160] if sk.bad else (und[0][1][:160] if und else ""))))
    for name, want in (("rec_bad", "cert"), ("rec_stream_bad", "finding"), ("rec_ok", "cert")):
        f = core.cg.func(rel, name)
        comps = core.recursive_sccs([f])
        if not comps:
            raise AnalysisError("fixture %s: recursion not found" % name)
        cert = core.certify_scc(comps[0])[0]
        got = "cert" if cert else ("finding" if getattr(cert, "definite", None) else "undecided")
        ctx.ob("fixture", name, got == want, got)
        if got != want:
            raise AnalysisError("fixture %s: recursion check gave %r, expected %r" % (name, got, want))
    ctx.count("fixture_cases", len(FIXTURE_EXPECT) + 3)


def run(ctx):
    ctx.explanation = __doc__
    fixture_selfcheck(ctx)
    for rel in PARSER_MODULES:
        ctx.mod(rel)
    core = Core(ctx.repo)
    cg = core.cg
    roots = core.roots()
    closure = cg.closure(roots)
    core.sa.compute(roots)
    in_closure = {id(f.node) for f in closure}
    for f in closure:
        ctx.repo.consulted.add(f.file)
    ctx.count("closure_functions", len(closure))
    ctx.note("roots: " + ", ".join(r.qualname for r in roots))

    # ---- 1. loops ----------------------------------------------------------------------------
    seen = {}
    inventory = 0
    undecided = []
    funcs_in_modules = []
    pending = [f for f in cg.funcs.values() if f.file in PARSER_MODULES]
    while pending:
        f = pending.pop()
        funcs_in_modules.append(f)
        pending += list(cg.nested_of(f).values())   # nested defs are registered lazily
    funcs_in_modules.sort(key=lambda f: (f.file, f.line, f.qualname))
    done = set()
    for f in funcs_in_modules + sorted(closure, key=lambda f: (f.file, f.line, f.qualname)):
        if id(f.node) in done:
            continue
        done.add(id(f.node))
        scope = id(f.node) in in_closure
        w, fo, co = loops_of(f.node)
        if f.file in PARSER_MODULES:
            inventory += len(w)
        if not (w or (scope and (fo or co))):
            continue
        if scope:
            ctx.analysed(f)
        undecided += check_function(core, ctx, f, in_scope=scope, seen=seen)
    ctx.count("while_loops_inventory", inventory)

    # ---- 2. recursion ---------------------------------------------------------------------------
    sccs = core.recursive_sccs(closure)
    for comp in sccs:
        ctx.count("recursive_sccs")
        name = " <-> ".join(f.qualname for f in comp[:6]) + (" ..." if len(comp) > 6 else "")
        cert, details = core.certify_scc(comp)
        for f in comp:
            ctx.analysed(f)
        if cert:
            ctx.check("recursion/certificate", name, True, comp[0], name, "", detail="%s -- %s" % (cert.kind, cert.detail))
            for f, cnode, tgt, ok, why in details:
                ctx.ob("recursion/call-site", "%s: %s" % (f.qualname, _u(cnode, 60)), True, ("progress: " if ok else "no progress (not on a progress-free cycle): ") + why)
        elif getattr(cert, "definite", None) and not cert.unresolved:
            ctx.check("recursion/certificate", name, False, cert.src, cert.call, "%s; %s" % (cert.why, cert.definite), node=cert.call)
        else:
            undecided.append(("recursive SCC " + name, "a call receiving the stream could not be resolved" if cert.unresolved
                              else "no K5 certificate, but the recursion is not shown to hand down an unconsumed stream: " + cert.why))
    maybe = [c for c in cg.sccs(closure) if not any({id(f.node) for f in c} <= {id(f.node) for f in d} for d in sccs)]
    for comp in maybe:
        ctx.count("may_call_sccs")
        ctx.ob("recursion/may-call-only", " / ".join(f.qualname for f in comp[:5]), True,
               "cycle exists only through by-name (untyped receiver) call edges; not a definite recursion, not decided "
               "(CPython bounds any recursion by RecursionError)")

    # ---- floors -----------------------------------------------------------------------------------------
    # floors well below today's counts (23 / 18 / 47 / 37 / 1 / 300): refactorings legitimately add and remove loops
    ctx.floor("while_loops_inventory", 14)
    ctx.floor("while_loops_in_scope", 10)
    ctx.floor("range_loops", 28)
    ctx.floor("range_input_counted", 18)
    ctx.floor("recursive_sccs", 0)   # the one stream recursion of today's tree may legitimately be rewritten as a loop; teeth: fixture rec_*
    ctx.floor("closure_functions", 150)
    if undecided:
        for inst, why in undecided:
            ctx.ob("undecided", inst, True, why[:300])
        from ..report import load_known, _match_known
        known = load_known()
        new_findings = [x for x in ctx.findings if _match_known(x, known) is None]
        msg = "%d loop(s)/recursion(s) could not be decided (no certificate, no definite non-progress path): %s" % (
            len(undecided), " || ".join("%s -- %s" % (i, w[:220]) for i, w in undecided[:3]))
        if new_findings:
            ctx.note("in addition to the findings: " + msg)   # a definite finding is not hidden behind exit 2
        else:
            raise AnalysisError(msg)
    ctx.assume("receivers of .read/.seek/.tell whose static type is not a repository class are byte streams with io.BytesIO semantics "
               "(read(n) returns at most n bytes and b'' at EOF; struct unpack raises on a short buffer)")
    ctx.assume("formatting/str()/==/hash of a value whose static type is unknown does not enter repository code")
    ctx.assume("third-party code (lxml, asn1crypto, cryptography, apkInspector, zlib, mutf8) terminates")

    if ctx.tier == "thorough":
        thorough(ctx, core, closure)



# =============================================================================
# thorough tier: wider inventory + in-memory mutation adequacy
# =============================================================================
class _Collect:
    """minimal sink for re-checking one function of a mutated source model"""

    def __init__(self):
        self.bad, self.good, self.counts = [], [], {}

    def check(self, rule, instance, ok, func, construct, message, node=None, witness=None, detail=""):
        (self.good if ok else self.bad).append((rule, instance, detail if ok else message))
        return ok

    def ob(self, rule, instance, ok, detail=""):
        return ok

    def count(self, name, n=1):
        self.counts[name] = self.counts.get(name, 0) + n

    def note(self, s):
        pass


def _top_qualname(core, f):
    g = f
    while id(g.node) in core.cg.outer:
        g = core.cg.outer[id(g.node)]
    return g


def _index_of(root, node):
    for i, n in enumerate(ast.walk(root)):
        if n is node:
            return i
    return None


def _replace_in(root, old, new):
    for p in ast.walk(root):
        for field, val in ast.iter_fields(p):
            if val is old:
                setattr(p, field, new)
                return True
            if isinstance(val, list):
                for i, x in enumerate(val):
                    if x is old:
                        val[i] = new
                        return True
    return False


def _mutants_for_loop(core, f, loop, cert_kind):
    """canonical breaking edits of one certified loop -> [(description, mutate(clone_root, clone_loop) -> bool)]"""
    out = []
    sa = core.sa

    def neutralise(root, lp):
        """every checked read in the loop becomes a bare read; every repository call that is handed a stream is dropped"""
        changed = False
        for n in list(ast.walk(lp)):
            if isinstance(n, ast.Call):
                fn = n.func
                is_unpack = (isinstance(fn, ast.Name) and fn.id == "unpack") or (isinstance(fn, ast.Attribute) and fn.attr == "unpack")
                if is_unpack and n.args:
                    arg = n.args[-1]
                    if isinstance(arg, ast.Call) and isinstance(arg.func, ast.Attribute) and arg.func.attr == "read":
                        # unpack(fmt, S.read(n)) -> (S.read(n), 0, 0, 0)  keeps tuple-unpacking / [0] subscripts alive
                        lenient = ast.Call(func=ast.Attribute(value=ast.Name(id="int", ctx=ast.Load()), attr="from_bytes", ctx=ast.Load()),
                                           args=[arg, ast.Constant("little")], keywords=[])
                        tup = ast.Tuple(elts=[lenient] + [ast.Constant(0)] * 7, ctx=ast.Load())
                        if _replace_in(root, n, tup):
                            changed = True
        return changed

    def drop_stream_calls(root, lp):
        changed = False
        for n in list(ast.walk(lp)):
            if isinstance(n, ast.Call) and not (isinstance(n.func, ast.Attribute) and n.func.attr in ("read", "seek", "tell", "append", "unpack")):
                if any(isinstance(a, (ast.Name, ast.Attribute)) and ast.unparse(a).split(".")[-1] in ("buff", "block", "signed_data", "f", "io_stream", "raw")
                       for a in n.args):
                    if _replace_in(root, n, ast.Constant(0)):
                        changed = True
        return changed

    if cert_kind in ("K1", "K2"):
        out.append(("checked reads -> bare reads, stream-consuming calls dropped",
                    lambda root, lp: (neutralise(root, lp) | drop_stream_calls(root, lp))))
    if cert_kind == "K2":
        def seek_start(root, lp):
            ch = False
            for n in ast.walk(lp):
                if isinstance(n, ast.Call) and isinstance(n.func, ast.Attribute) and n.func.attr == "seek" and n.args \
                        and isinstance(n.args[0], ast.Attribute) and n.args[0].attr == "end":
                    n.args[0].attr = "start"
                    ch = True
            return ch
        out.append(("seek(h.end) -> seek(h.start)", seek_start))
    if cert_kind == "K3":
        def freeze(root, lp):
            ch = False
            for n in ast.walk(lp):
                if isinstance(n, ast.AugAssign) and isinstance(n.op, (ast.Add, ast.Sub, ast.RShift, ast.FloorDiv)):
                    n.value = ast.Constant(1 if isinstance(n.op, ast.FloorDiv) else 0)
                    ch = True
                elif isinstance(n, ast.Assign) and isinstance(n.value, ast.Subscript) and isinstance(n.value.slice, ast.Slice) \
                        and isinstance(n.value.slice.lower, ast.Constant):
                    n.value.slice.lower = ast.Constant(0)
                    ch = True
                elif isinstance(n, ast.Call) and isinstance(n.func, ast.Attribute) and n.func.attr == "seek" and len(n.args) == 2 \
                        and isinstance(n.args[0], ast.UnaryOp) and isinstance(n.args[0].operand, ast.Constant) and n.args[0].operand.value >= 2:
                    n.args[0].operand = ast.Constant(n.args[0].operand.value - 1)
                    ch = True
            return ch
        out.append(("counter update frozen (+= 0 / >>= 0 / [0:] / shorter back-step)", freeze))
    if cert_kind == "K4":
        def keep(root, lp):
            for n in ast.walk(lp):
                if isinstance(n, ast.Expr) and isinstance(n.value, ast.Call) and isinstance(n.value.func, ast.Attribute) \
                        and n.value.func.attr in ("pop", "popitem", "remove", "popleft"):
                    return _replace_in(root, n, ast.Pass())
            return False
        out.append(("drain statement removed", keep))
    if cert_kind == "K2'":
        def stay(root, lp):
            # the last top-level `if` of the body that ends in break/raise stops leaving the loop
            ch = False
            for n in ast.walk(lp):
                if isinstance(n, ast.If) and "END_DOCUMENT" in ast.unparse(n.test):
                    for b in list(ast.walk(n)):
                        if isinstance(b, (ast.Break, ast.Raise)) and b is not n:
                            if _replace_in(root, b, ast.Pass()):
                                ch = True
            return ch
        out.append(("exit on the terminal event removed", stay))
    return out


def _benign_for_function(fnode):
    """behaviour-preserving edits -> [(description, mutate(clone_root) -> bool)]"""
    out = []
    params = {a.arg for a in fnode.args.args + fnode.args.kwonlyargs + fnode.args.posonlyargs}
    stores = []
    for n in ast.walk(fnode):
        if isinstance(n, ast.Name) and isinstance(n.ctx, ast.Store) and n.id not in stores and n.id not in params and not n.id.startswith("_"):
            stores.append(n.id)
    nested = any(isinstance(n, (ast.FunctionDef, ast.Lambda)) and n is not fnode for n in ast.walk(fnode))
    if "locals" in ast.unparse(fnode):
        stores = []
    for name in stores[:4]:
        def ren(root, name=name):
            for n in ast.walk(root):
                if isinstance(n, ast.Name) and n.id == name:
                    n.id = name + "_rn"
            return True
        out.append(("rename local %s" % name, ren))

    def ins(root):
        body = root.body
        k = 1 if body and isinstance(body[0], ast.Expr) and isinstance(body[0].value, ast.Constant) else 0
        body.insert(k, ast.Pass())
        return True
    out.append(("insert pass", ins))

    def expand(root):
        for n in ast.walk(root):
            if isinstance(n, ast.AugAssign) and isinstance(n.target, ast.Name):
                new = ast.Assign(targets=[ast.Name(n.target.id, ast.Store())],
                                 value=ast.BinOp(ast.Name(n.target.id, ast.Load()), n.op, n.value))
                return _replace_in(root, n, new)
        return False
    out.append(("expand one augmented assignment", expand))

    def range0(root):
        ch = False
        for n in ast.walk(root):
            if isinstance(n, ast.Call) and isinstance(n.func, ast.Name) and n.func.id == "range" and len(n.args) == 2 \
                    and isinstance(n.args[0], ast.Constant) and n.args[0].value == 0:
                n.args = [n.args[1]]
                ch = True
        return ch
    out.append(("range(0, n) -> range(n)", range0))

    def commute(root):
        ch = False
        for n in ast.walk(root):
            if isinstance(n, ast.Call) and isinstance(n.func, ast.Attribute) and n.func.attr == "seek" and len(n.args) == 1 \
                    and isinstance(n.args[0], ast.BinOp) and isinstance(n.args[0].op, ast.Add):
                n.args[0].left, n.args[0].right = n.args[0].right, n.args[0].left
                ch = True
        return ch
    out.append(("commute seek(a + b)", commute))
    return out


def _verdicts(core, f, in_scope=True):
    """-> (sink, err): err is None when every loop was certified or reported; 'undecided: ...' when the rule would stop
    with exit 2 (no certificate and no definite non-progress path)"""
    sk = _Collect()
    try:
        und = check_function(core, sk, f, in_scope=in_scope, seen={})
    except AnalysisError as e:
        return sk, "analysis-error: %s" % str(e)[:120]
    if und and not sk.bad:
        return sk, "undecided: %s -- %s" % (und[0][0], und[0][1][:120])
    return sk, None


def thorough(ctx, core, closure):
    from ..model import clone
    from .. import mutate
    base = ctx.repo
    # ---- (a) wider inventory: every function of the parser modules, not only the closure ------------------
    in_closure = {id(f.node) for f in closure}
    wider = _Collect()
    n_out = 0
    for f in sorted(list(core.cg.funcs.values()), key=lambda f: (f.file, f.line, f.qualname)):
        if f.file in PARSER_MODULES and id(f.node) not in in_closure:
            w, fo, co = loops_of(f.node)
            if fo or co:
                try:
                    for inst, why in check_function(core, wider, f, in_scope=True, seen={}):
                        wider.bad.append(("undecided", inst, why))
                except AnalysisError:
                    wider.count("unanalysable")
                n_out += 1
    ctx.extra["outside_closure"] = dict(functions_with_loops=n_out, counts=wider.counts,
                                        uncertified=[dict(rule=r, instance=i, why=m[:200]) for r, i, m in wider.bad][:40])
    ctx.note("thorough: %d functions with loops outside the parser closure inspected (informational, not obligations): %d loop(s) without certificate"
             % (n_out, len(wider.bad)))
    all_funcs = [f for f in list(core.cg.funcs.values()) if f.file in PARSER_MODULES]
    for comp in core.recursive_sccs(all_funcs):
        if all(id(f.node) in in_closure for f in comp):
            continue
        cert, _ = core.certify_scc(comp)
        ctx.ob("recursion/outside-closure", " <-> ".join(f.qualname for f in comp[:4]), True,
               ("%s -- %s" % (cert.kind, cert.detail)) if cert else ("no certificate (informational): " + cert.why)[:240])

    # ---- (b) mutation adequacy -----------------------------------------------------------------------------------
    targets = []   # (Func top-level, loop node, kind, label)
    seen = {}
    for f in sorted(closure, key=lambda f: (f.file, f.line, f.qualname)):
        w, fo, co = loops_of(f.node)
        for lp in w:
            c = core.certify_while(f, lp)
            if c and c.kind != "K0":
                targets.append((f, lp, c.kind, "while " + _u(lp.test, 60)))
        for lp in fo:
            it = lp.iter
            if isinstance(it, ast.Call) and isinstance(it.func, ast.Name) and it.func.id == "range" and core.classify_range(f, it)[0] == "input":
                if core.k1_for(f, lp):
                    targets.append((f, lp, "K1", "for ... in " + _u(it, 50)))
    killed = total = undecided_m = 0
    survivors = []
    for f, lp, kind, lab in targets:
        top = _top_qualname(core, f)
        if top.qualname not in base.modules[top.file].functions:
            continue
        idx = _index_of(top.node, lp)
        if idx is None:
            continue
        for desc, mut in _mutants_for_loop(core, f, lp, kind):
            root = clone(top.node)
            lp2 = list(ast.walk(root))[idx]
            try:
                if not mut(root, lp2):
                    continue
                ast.fix_missing_locations(root)
                compile(ast.Module(body=[root], type_ignores=[]), "<mutant>", "exec")
            except Exception:
                continue
            total += 1
            r2 = mutate.mutated_repo(base, top.file, top.qualname, root)
            try:
                core2 = Core(r2)
                f2 = core2.cg.func(f.file, f.qualname)
                sk, err = _verdicts(core2, f2)
            finally:
                for mm in base.modules.values():
                    mm.repo = base
            if sk.bad:
                killed += 1
                ctx.ob("mutation-adequacy", "%s: %s [%s]" % (f.qualname, lab, desc), True,
                       "breaking edit reported (definite non-progress path): %s" % sk.bad[0][2][:160])
            elif err is not None:
                undecided_m += 1
                ctx.ob("mutation-adequacy", "%s: %s [%s]" % (f.qualname, lab, desc), True,
                       "breaking edit not certified any more (exit 2): %s" % err[:160])
            else:
                survivors.append("%s: %s [%s]" % (f.qualname, lab, desc))
    # recursion mutant: the reads in front of the recursive calls disappear
    sccs = core.recursive_sccs(closure)
    for comp in sccs[:1]:
        r2 = base
        ok_build = True
        for f in comp:
            root = clone(f.node)
            ch = False
            for n in list(ast.walk(root)):
                if isinstance(n, ast.Call) and isinstance(n.func, ast.Name) and n.func.id in ("get_byte", "readuleb128", "readsleb128", "readuleb128p1"):
                    ch |= _replace_in(root, n, ast.Constant(29))
            if ch:
                ast.fix_missing_locations(root)
                r2 = mutate.mutated_repo(r2, f.file, f.qualname, root)
        if r2 is not base:
            total += 1
            try:
                core2 = Core(r2)
                comp2 = [core2.cg.func(f.file, f.qualname) for f in comp]
                cert, _ = core2.certify_scc(comp2)
            finally:
                for mm in base.modules.values():
                    mm.repo = base
            if not cert:
                if getattr(cert, "definite", None):
                    killed += 1
                else:
                    undecided_m += 1
                ctx.ob("mutation-adequacy", "SCC %s [reads before the recursive calls removed]" % comp[0].qualname, True,
                       "breaking edit %s: %s" % ("reported" if getattr(cert, "definite", None) else "not certified any more (exit 2)", cert.why[:160]))
            else:
                survivors.append("SCC %s [reads removed]" % comp[0].qualname)
    # benign edits
    b_total = b_silent = 0
    alarms = []
    done = set()
    for f, lp, kind, lab in targets:
        top = _top_qualname(core, f)
        if id(top.node) in done or top.qualname not in base.modules[top.file].functions:
            continue
        done.add(id(top.node))
        base_sk, base_err = _verdicts(core, f)
        base_bad = set((r, i) for r, i, m in base_sk.bad) if base_sk else None
        for desc, mut in _benign_for_function(top.node):
            root = clone(top.node)
            try:
                if not mut(root):
                    continue
                ast.fix_missing_locations(root)
                compile(ast.Module(body=[root], type_ignores=[]), "<benign>", "exec")
            except Exception:
                continue
            b_total += 1
            r2 = mutate.mutated_repo(base, top.file, top.qualname, root)
            try:
                core2 = Core(r2)
                f2 = core2.cg.func(f.file, f.qualname)
                sk, err = _verdicts(core2, f2)
            finally:
                for mm in base.modules.values():
                    mm.repo = base
            if err is None and len(sk.bad) <= len(base_bad or ()):
                b_silent += 1
            elif err is not None and base_err is not None:
                b_silent += 1   # undecided before, undecided after
            elif err is not None:
                alarms.append("%s [%s]: %s" % (top.qualname, desc, err))
            else:
                alarms.append("%s [%s]: %s" % (top.qualname, desc, sk.bad[0][2][:120]))
    ctx.extra.update(mutants_total=total, mutants_killed=killed, mutants_unanalysable=undecided_m, surviving_mutants=survivors[:40],
                     benign_total=b_total, benign_silent=b_silent, benign_alarms=alarms[:20],
                     mutation_targets=len(targets))
    ctx.ob("benign-silence", "%d behaviour-preserving in-memory edits" % b_total, b_silent == b_total, "%d/%d silent" % (b_silent, b_total))
    if alarms:
        raise AnalysisError("rule changed its verdict on %d behaviour-preserving in-memory edit(s): %s" % (len(alarms), "; ".join(alarms[:3])))
    if survivors:
        raise AnalysisError("mutation adequacy: %d/%d canonical breaking edits survived (rule lost its teeth): %s"
                            % (len(survivors), total, "; ".join(survivors[:4])))
    if total < 25:
        raise AnalysisError("mutation adequacy: only %d mutants could be built (expected >= 25)" % total)
