"""Per-property metadata used to generate MANIFEST.json (tools/gen_manifest.py)."""

# id -> dict(technique, text, note, design_ref)
CLAIMED = {}

NOT_APPLICABLE = {
    "C06": "MUTF-8 decoding is done by the third-party compiled mutf8 package, not by repository source; nothing to analyse statically (reader termination is decided under C35)",
    "C18": "correctness of Lengauer-Tarjan on every rooted graph is an algorithmic theorem needing inductive invariants over run-time data, not a shape of the code",
    "C19": "validity of the RPO numbering on every graph is an algorithmic theorem and depends on run-time reachability; no sound shape-level clause",
    "C20": "equality with the reaching-definitions fixpoint on every CFG is an algorithmic theorem over run-time data; no sound shape-level clause",
    "C26": "tree equality of arbitrary documents flows through string pools, namespace stacks and lxml at run time; no necessary shape-level clause beyond C27/C35",
    "C28": "which entry a resource id resolves to is a function of the table's run-time data; structural fragments are covered under C27/C35 and do not amount to the property",
    "C31": "every query is an lxml iteration over run-time attributes; any static rule would be a frozen copy of three-line helpers",
}


def claim(pid, technique, text, note, design_ref=None):
    CLAIMED[pid] = dict(technique=technique, text=text, note=note, design_ref=design_ref or ("DESIGN.md section 4, %s" % pid))


claim("C01", "bit-provenance abstract interpretation + opcode-table agreement",
      "Every Instruction class reachable from DALVIK_OPCODES_FORMAT is abstractly interpreted per opcode with all operand bits symbolic: "
      "length, get_raw round trip, operand position/width/sign/shift/role and unused-opcode rejection are decided for all bit patterns at once; "
      "the opcode table is compared row by row with an independent Dalvik table.",
      "Trusted: CPython ast, the abstract transfer functions of agstatic/bits.py, the hand-written spec table agstatic/spec/dalvik.py, "
      "cm.packer[fmt] == struct.Struct('<'+fmt). ODEX-only opcodes are outside the specification and not decided.")

claim("C03", "bit-provenance abstract interpretation of LEB128 readers and writers (write-then-read composed abstractly)",
      "readuleb128/readsleb128/readuleb128p1 are interpreted over symbolic bytes: every 1..5-byte path must be selected exactly by the continuation bits, "
      "consume exactly that many bytes (on a stream of 8 arbitrary bytes followed by end of file, so a reader that follows more than five continuation bits is seen) and produce the DEX-specified bit layout truncated to 32 bits with the right extension. The writers are interpreted on a "
      "symbolic 32-bit value (magnitude classes by exact refinement) and their abstract output is run through the abstract reader: identity on every bit, flags correct.",
      "Trusted: agstatic bit domain and interpreter; cm.packer['B'] is an unsigned byte; stream.read(1) yields the next byte (EOF makes unpack raise).")

claim("C04", "abstract interpretation of EncodedValue.__init__ per header byte (bit provenance) + binding and printing provenance",
      "For every (value_type, value_arg) header the constructor is interpreted over symbolic bytes: integers must be the little-endian value of exactly value_arg+1 bytes "
      "with the DEX-specified sign/zero extension, references must resolve the zero-extended index through the right ClassManager accessor, nested values parse from the same stream. "
      "Two index-typed values of different kinds with the same index decoded with one real ClassManager object must each resolve through their own accessor. "
      "set_static_fields must bind value i to field i; ClassDefItem.reload is executed on two class definitions sharing one encoded_array_item (each class must end up bound); "
      "the conversion DvClass.get_source applies before printing is interpreted on the reader's abstract value.",
      "Trusted: agstatic bit domain; DEX encoded_value table in the rule (from the public format document). FLOAT/DOUBLE/METHOD_TYPE/METHOD_HANDLE not decided. "
      "29 listed known findings (no sign extension) stay reported as KNOWN-FINDING.")

claim("C27", "abstract interpretation of format_value per Res_value type with a symbolic 32-bit datum; formatting results normalised to pieces",
      "format_value (and ARSCParser.get_resource_dimen/color) are interpreted for each defined type over all 2^32 data values at once (paths split on radix, unit, package and sign bits); "
      "the normalised output pieces must be Android's: signed 24-bit mantissa x RADIX_MULTS[radix] (x100) + unit, signed 32-bit decimal, IEEE reinterpretation, 8 hex digits, boolean, '@'/'?' + android: prefix. "
      "Sequence clause: the same data word formatted as type A and then as type B in one interpreter (module-level state shared) must give what B gives in a fresh state.",
      "Trusted: agstatic bit domain and format normaliser; AOSP constants transcribed in the rule; _data is an unsigned 32-bit value. Unit nibbles outside the AOSP tables are not constrained.")

claim("C30", "abstract interpretation of locale pack/unpack on symbolic strings and words (bit provenance + base+x linear character codes)",
      "set_language_and_region/get_language_and_region and their helpers are interpreted on symbolic locale strings of every shape (2/3-letter language x none/2-letter/2-digit/3-char region) "
      "and on symbolic configuration words of every reader form: get(set(s)) == s character by character, set(get(w)) == w bit by bit, decoded text = AOSP unpackLanguageOrRegion layout (incl. a word whose language and region halves are the same packed bytes), default locale round-trips. "
      "Character codes are compared semantically (every assignment of <= 12 source bits, 64 fixed patterns beyond: a difference comes with a witness).",
      "Trusted: agstatic domains (Bits, Lin, StrV); character classes assumed for letters/digits; AOSP packed layout transcribed in the rule.")

claim("C23", "code-point class partition + abstract interpretation of writer.string per class, output read with JLS lexical rules",
      "The code-point domain is partitioned by every constant string() compares with; per class the loop body is interpreted with the code point symbolic "
      "(bit provenance in the BMP, 0x10000+y above) and the appended pieces are lexed by Java's rules: raw/backslash/named/unicode escapes must denote exactly the UTF-16 code unit(s), "
      "four nibble digits per \\u, none for LF/CR/quote/backslash, surrogate pair for supplementary characters. visit_constant must route through string().",
      "Trusted: agstatic domains; JLS 3.3/3.10.5/3.10.6 rules and Python's unicode-escape for TAB/LF/CR as transcribed in the rule; string() is a per-character map.")

claim("C02", "abstract interpretation of the sweep dispatch over the 16-bit unit domain + loop-progress CFG rule + payload constructors interpreted over symbolic buffers",
      "Dispatch: every first code unit (thorough: all 65536 x ODEX on/off; quick: all low bytes x one representative per distinguishable high-byte class) must be routed to the decoder the Dalvik format assigns, independent of position. "
      "Termination: every path round the loop passes idx += get_length() and every reachable get_length() has interval >= 2. Payloads: constructor bytes consumed == get_length() == len(get_raw()), get_raw() reproduces every input bit, "
      "and a buffer shorter than the payload makes the constructor raise. Offsets: DCode.off_to_pos/get_ins_off on instructions of symbolic lengths. "
      "Repeat: a second DCode.get_instructions on the same object must report what the first did (instructions, or the invalid instruction again).",
      "Trusted: agstatic interpreter and bit domain; payload size agreement is checked on a grid of sizes and extended to all sizes by a syntactic fragment check (affine with parity). "
      "Not decided: equality of the yielded stream with an assembled program.")


# ---- rules written by the cluster builders: texts come from notes/CNN.md (tools/claims_from_notes.py) -------------
TECHNIQUE = {
    "C05": "def-use provenance of API getters to struct slots / LEB reads vs an independent DEX layout table",
    "C07": "map-order independence conditions: single sorted parse loop, absolute seeks, parse-time section reads within the declared dependency closure",
    "C08": "unit typing + affine forms of try/catch ranges and handler addresses; sibling guard agreement",
    "C09": "must-raise guard dominance on the CFG with predicate evaluation over wrong-value partitions; header-before-map ordering",
    "C10": "leader-set dataflow + opcode-class agreement (BasicOPCODES = determineNext domain = spec flow opcodes) + block contiguity",
    "C11": "per-opcode-class successor formulas as affine forms with units vs spec; child/father mirroring",
    "C12": "order-type abstract interpretation of the try-range predicate over all weak orderings of 4 points",
    "C13": "origin typing (CUR/TARGET/OFF) of xref-recording calls, branch opcode sets, to/from pairing, resolution-key agreement",
    "C14": "origin typing of field xref recorders: receiver must be the TARGET field's class",
    "C15": "origin typing of string / new-instance / const-class xref recorders and their opcode sets",
    "C16": "effect discipline of Analysis.add + layering rule (no per-DEX definition lookup while creating xrefs)",
    "C17": "index-domain typing of the rename hook store + cache-invalidation pairing",
    "C21": "symbolic handler-signature extraction for every INSTRUCTION_SET slot vs an independent opcode->Java operator table",
    "C22": "unordered-iteration order-sensitivity analysis (element-kind inference x consumption kind) over the decompiler",
    "C24": "abstract string interpretation of both get_type renderers on symbolic descriptor classes; strip-charset and prefix-guard rules",
    "C25": "truth-table evaluation of the short-circuit merge sites, Condition.neg, CONDS and writer negation",
    "C29": "recursion-SCC rule: a checked, growing, threaded, per-call-fresh visited state on every cycle of the resolver",
    "C32": "verification-gating typestate on the CFG: a certificate reaches a return only through a successful verify on the right data",
    "C33": "constant agreement of signing-block ids, flag/own-id boolean dataflow, first-match selection, guard truth table",
    "C34": "regex-language equivalence (NFA/DFA over re._parser AST) + KeyError->FileNotPresent mapping + unfiltered name list",
    "C35": "loop and recursion termination certificates (checked read, forward seek, monotone counter, finite collection, event consumer, advancing recursion) over the parser call graph",
    "C36": "check-then-act rule on the session table: the primary key may not derive from an unlocked read of the same table",
    "C37": "taint analysis from DEX-derived names to filesystem sinks with containment-sanitizer recognisers",
    "C38": "fact-preservation (typestate) analysis of clean_file_name with regex character-class coverage",
    "C39": "order-type abstract interpretation of the API-level fallback decisions + falsy-zero sentinel rule",
    "C40": "offset provenance from get_instructions_idx, unit typing (code units vs bytes), sibling agreement of payload address computations",
}

# ---- rules rebuilt in the false-alarm hardening round (DESIGN section 10/12): texts written after the rebuild ---------
_XREF_NOTE = ("Trusted: CPython ast; the abstract interpreter (agstatic/absint.py) in strict mode and the model objects of agstatic/xref_model.py "
              "(model DEX/ClassManager/EncodedMethod/Instruction with the getters the analysis calls); spec/dalvik.py for the opcode classes. "
              "Decided on finite scenario families (every opcode value, invoke/field/class-usage/string variants, repeats, two DEX layouts in both add orders), "
              "not on arbitrary programs. Listed known findings (array classes, field recorded on the accessing class, per-DEX field lookup) stay reported as KNOWN-FINDING.")
claim("C13", "abstract execution of Analysis.__init__/add/create_xref on model DEX objects; full xref state compared with the prescribed state",
      "Analysis.__init__, add, create_xref and everything they call are executed by the abstract interpreter on small model DEX objects whose instructions have a concrete opcode, "
      "a reference index and an offset that is a prefix sum of symbolic lengths. Afterwards every public xref getter and get_call_graph are evaluated and the complete set of "
      "records (callee, caller, offset, internal/external stub identity, call-graph edges) is compared with the set the property prescribes, computed independently from spec/dalvik.py.",
      _XREF_NOTE)
claim("C14", "abstract execution of create_xref on model DEX objects; field read/write records and FieldAnalysis identity compared with the prescribed state",
      "Same executor as C13 on the field scenario families (own class, other class, undefined field, two DEX files in both add orders): the FieldAnalysis returned by "
      "Analysis.get_field_analysis must list every accessing method and offset as read or write, the accessing method must list the field, and each defined field must have exactly one FieldAnalysis.",
      _XREF_NOTE)
claim("C15", "abstract execution of create_xref on model DEX objects; string and class-usage records compared with the prescribed state",
      "Same executor as C13 on the const-string/jumbo, new-instance and const-class scenario families (internal, external, array and rank-2 array types, the empty string, a string equal to a class name, "
      "repeats at several offsets): every instruction must appear with method and offset in exactly the lists the property names and nothing else may appear there.",
      _XREF_NOTE)
claim("C16", "abstract execution of two split layouts and the single-DEX layout of the same model classes; complete analysis states compared",
      "Two mutually dependent model classes are analysed as one DEX and split over two DEX files in both add orders, with colliding per-DEX indices; classes, methods, fields, strings and all "
      "cross-references of the three runs must be the same state.",
      _XREF_NOTE)
claim("C40", "offset provenance as linear forms through the abstract execution of the disassembler, the basic-block builder and create_xref",
      "Offsets are prefix sums of symbolic instruction lengths: the offset every xref record carries, DCode.get_ins_off/off_to_pos, the block start/end, get_special_ins keys and the payload "
      "addresses (in bytes vs code units) computed by push/determineNext must be the same linear form as the disassembler's accumulation on the model methods (incl. fill-array-data and switch payloads).",
      "Trusted: CPython ast; agstatic/absint.py linear forms; agstatic/xref_model.py and flowmodel model methods; spec/dalvik.py instruction lengths. Decided on model methods of a few instructions with symbolic lengths.")
claim("C29", "abstract execution of ResourceResolver on abstract resource tables with cycles (CPython recursion limit emulated)",
      "ResourceResolver.resolve and the put_* helpers are executed (agstatic/minipy.py) on 17 abstract tables built from the repository's own entry classes: chains, self references, rings, "
      "two-configuration cycles, cycles through complex entries. Decided: the call terminates without RecursionError, returns the values reachable without re-entering a resource, and a second resolve "
      "on the same resolver returns the same values.",
      "Trusted: CPython ast; the mini interpreter agstatic/minipy.py (symbolic library terms, choice points on comparisons) and its 1000-frame recursion model. Finite table families, not arbitrary tables.")
claim("C32", "abstract execution of the v1 verification path over all attribute / SDK / certificate cases, each run twice with different .SF bytes",
      "verify_signer_info_against_sig_file, verify_signature and get_certificate_der with their callers are executed with library objects as symbolic terms and library calls as ordered events. "
      "Every path that returns a certificate must show a successful public-key verify made by that call with the right key, signature and bytes, and with signed attributes an equal digest comparison over exactly the .SF bytes; "
      "a second call with different .SF bytes must verify again.",
      "Trusted: CPython ast; agstatic/minipy.py; `cryptography` verify raises InvalidSignature unless the signature is valid; asn1crypto accessors return what was parsed.")
claim("C36", "abstract execution of Session.__init__ with the dataset library as symbolic terms; provenance classification of the session id",
      "Session.__init__ (helpers followed) is executed with `dataset` calls as ordered events: the primary key of the inserted session row and Session.session_id must be the same term, "
      "and that term must be the database-allocated key of the insert, not a value derived from an earlier unsynchronised read of the table (count/len/max) or any other non-unique source.",
      "Trusted: CPython ast; agstatic/minipy.py; dataset.Table.insert returns the primary key the database allocated (AUTOINCREMENT under the database's own locking). "
      "Not decided: database-level configuration such as busy timeouts (seed C36_B).")
claim("C33", "abstract execution of the APK signing-block parsers and getters on generated model files, results compared with what was encoded",
      "The APK object is built through its real constructor on model files generated from the public APK Signing Block layout (317 pair encodings over 85 id sequences incl. empty values; files without block, wrong magic, "
      "mismatching sizes; 255 signer cases). parse_v2_v3_signature, the parse_v2/v3/v3.1 functions, is_signed_vX and the key/certificate getters are each executed as a whole: flags equal id membership, duplicates are detected, "
      "the first block of the requested scheme is used, getters return exactly the encoded keys/certificates and signer fields, every digest/signature item of a list is parsed (item-list clause).",
      "Trusted: CPython ast; agstatic/modeleval.py and agstatic/absint.py; models of hashlib, apkInspector ZipEntry.parse, io.BytesIO, struct.unpack; the block/signer layouts transcribed from the public specification.")
claim("C25", "abstract execution of short_circuit_struct on model graphs; printed condition evaluated on every truth assignment and compared with the branches",
      "The whole short_circuit_struct is executed with the real Graph/Condition/ShortCircuitBlock classes on all two-node and three-node chain configurations (nesting position x and/or x negation at both levels); "
      "the merged condition is printed through the interpreted Writer, parsed, and evaluated with Java short-circuit rules on every truth assignment: it must select the successor and evaluate exactly the leaf conditions "
      "the original branches do; neg() must print the complement, CONDS must be the complement table, the Writer keeps neg() and the true/false swap paired.",
      "Trusted: CPython ast; agstatic/modeleval.py; the Java operator semantics in the rule. Chains of at most three conditions.")


# ---- clauses added in the held-out round (wave 3, DESIGN section 13): appended to the claim texts ---------------------------
WAVE3 = {
    "C05": " Lookup helpers are judged on a bounded model (agstatic/dexsim.py) with same-named fields of different type and overloads; getters whose file value is masked/shifted are followed. Optional sections: resolvers applied to offset 0 must answer None/[] when the section is absent from the map.",
    "C07": " The permutation simulation also runs for a file that ends exactly behind its map list, and for two constructions in one simulated process (class-level state shared).",
    "C09": " Every wrong-value family is also run after a valid file was constructed in the same interpreter (class-level state shared); the stream model serves any struct layout of the magic bytes: a magic byte that reaches no rejecting test is a finding.",
    "C10": " The exception table is interpreted (determineException and EncodedCatchHandler executed): every try start, typed handler address and catch-all address must be a leader, incl. two try ranges sharing one handler list. Concrete-label scenarios with targets inside an instruction or before offset 0.",
    "C11": " bisect-based block lookup is interpreted; a branch target before the first block must have no successor block.",
    "C12": " handler-pairing: try items must report the handlers of the entry their handler_off refers to even when an earlier entry uses padded LEB128; a handler address inside an instruction must resolve to the containing block. Catch-all handler at code address 0 (None vs 0).",
    "C13": " Scenario families added: rank-2 array receivers, code inside interface classes. Directly recursive invokes. memo-coherence (agstatic/memo.py): a getter-reachable instance memo built as a copy of a record container must be dropped by every method that mutates that container (sequence getter; recorder; getter).",
    "C14": " The real DEX.get_encoded_field_descriptor is executed on the model DEX (same-named fields of different type); a class with fields but no methods; truthiness through __len__/__bool__. Two accessor methods with identical code (same field, same offsets). memo-coherence (agstatic/memo.py): a getter-reachable instance memo built as a copy of a record container must be dropped by every method that mutates that container (sequence getter; recorder; getter).",
    "C15": " Raw vs hooked string lookup (rename hooks) is modelled; a const-string whose string id carries a hook. memo-coherence (agstatic/memo.py): a getter-reachable instance memo built as a copy of a record container must be dropped by every method that mutates that container (sequence getter; recorder; getter).",
    "C16": " String tables per DEX and header items are modelled (equal SHA-1 fields are legal input).",
    "C17": " rename-scenario: set_name executed end to end on a miniature ClassManager under four histories; aliasing-exposure separates eager re-resolution from lazy invalidation. Two ClassManagers in one simulated process (class-level tables shared).",
    "C21": " Register operands carry the type the mnemonic fixes; new rule java-lexing (the printed text must lex into the tokens of its pieces by Java's longest-match rule); propagated constants also for unary ops.",
    "C22": " process-history also covers containers owned by the DEX object model (getters returning their own list) that the decompiler mutates in place. Class-/module-level iterator objects advanced by next() whose value is formatted into output.",
    "C24": " parameter-list: get_params_type evaluated on 27 prototype templates over representative names of the whole DEX SimpleName alphabet. persistent-state: module-level memo tables are one object per evaluation; every descriptor class is re-evaluated from each table state the code can reach (grown, evicted).",
    "C25": " node-map: after every pass each node_map value must be a live node of the graph.",
    "C29": " Tables whose back edge is taken more than once; the resources object is the repository's own ARSCParser over the abstract table (members without default-locale entry). history-independent: after resolve(start) every other id is resolved on the same parser and must still return all reachable values.",
    "C32": " find_certificate is interpreted on a symbolic certificate bag: a returned certificate must have compared equal to the sid in issuer and serial on that path.",
    "C33": " repeated-access: every accessor called again after the first parse must answer the same and store every pair once. Digest and signature items carry bytes after the length-prefixed data in some signers (the item's own length prefix is the framing).",
    "C34": " get_file is run after another entry with equal metadata was read (keyed instance caches); dict-built listings are checked for key collisions on names enumerated from the selected language.",
    "C35": " A read result compared with an empty literal (iter(callable, sentinel), ==, !=) needs the literal's type to match what read() returns on that stream.",
    "C36": " key-reuse: no delete on the session table on the creation path (SQLite reuses a freed rowid).",
    "C37": " A containment check vouches only for the checked value (and joins below it); a suffix appended after a non-strict check is unchecked.",
    "C38": " str.translate tables and textual splits of the path are modelled; unmodelled string operations give exit 2, never a finding.",
    "C39": " Concrete grid of levels incl. negative requests; history rule: two calls on one interpreter (module-level state shared) in both orders.",
    "C40": " History case: lookup, set_instructions with a permuted list, lookup again; offset clause also on the array/sequence/interface scenarios. Payload placed before its referencing instruction (negative offset).",
}

# properties whose builder-written rule has been reviewed, is silent on the unchanged tree and passes its self-test
INTEGRATED = ["C21", "C24", "C09", "C32", "C29", "C36", "C12", "C39", "C33", "C13", "C14", "C15", "C16", "C40",
              "C34", "C38", "C37", "C05", "C07", "C17", "C22", "C08", "C10", "C11", "C25", "C35"]


def _load_integrated():
    import json
    import os
    p = os.path.join(os.path.dirname(os.path.abspath(__file__)), "claims_notes.json")
    notes = json.load(open(p)) if os.path.exists(p) else {}
    for pid in INTEGRATED:
        if pid in CLAIMED:
            continue
        n = notes.get(pid) or {}
        import re as _re

        def _clean(t):
            t = t or ""
            t = _re.sub(r"^[/:\s]*(trusted base)?\s*(\(manifest\))?\s*(\*?(Level text|Text)\*?\s*:)?\s*", "", t, flags=_re.I)
            return t.replace("`", "").strip()
        text = _clean(n.get("text")) or TECHNIQUE[pid]
        note = _clean(n.get("note"))
        if not note or note[:40] == text[:40]:
            m = _re.search(r"(?i)trusted base\W+(.*)", text)
            note = m.group(1) if m else "CPython ast, the agstatic engine modules the rule imports, and the spec tables transcribed in the rule."
            text = _re.split(r"(?i)\W*trusted base", text)[0]
        claim(pid, TECHNIQUE[pid], text[:900], ("Trusted base: " + note)[:700])


_load_integrated()


for _pid, _txt in WAVE3.items():
    if _pid in CLAIMED:
        CLAIMED[_pid]["text"] = (CLAIMED[_pid]["text"].rstrip() + _txt)[:1500]
