"""C34 -- APK file access returns the archive's entries (clauses).

Decided statically on androguard/core/apk/__init__.py:

(1) dex-regex/*: the set of names selected by `get_dex_names` and counted by
    `is_multidex` is { n in get_files() : n in L } where L is derived from the
    regex *literals* in the source (re._parser AST -> NFA -> on-the-fly DFA,
    exact `match`/`search`/`fullmatch` and `^`/`$`/`\\Z` semantics).  L must equal
    the reference language  classes[0-9]*\\.dex  (whole name).  The comparison
    is split into three disjoint regions of the name space so that each kind of
    discrepancy is a separate, separately keyed finding, each with a shortest
    witness name:
      dex-regex/language        names without newline / non-ASCII digit
      dex-regex/trailing-newline names containing a newline (the `$` subtlety)
      dex-regex/unicode-digit   names containing a non-ASCII decimal digit (`\\d` on str)
    `is_multidex` must compare the count with "> 1" (evaluated for n = 0..5).
(2) get_file/*: every value returned by `get_file` is `self.zip.read(<name
    parameter>)`; a missing entry (KeyError of the archive reader) is mapped to
    FileNotPresent, and *only* KeyError is.  `get_all_dex` yields
    `self.get_file(n)` for exactly the names of `get_dex_names` (same language).
(3) get_files/unfiltered: `get_files` returns `self.zip.namelist()` unfiltered,
    and `self.zip` is the parsed archive (ZipEntry.parse) in `APK.__init__`.

Not decided: that apkInspector's ZipEntry returns the right bytes / raises
KeyError for a missing name (external package, trusted).
"""
from __future__ import annotations

import ast
import copy
import re

from ..model import APK, AnalysisError, norm, walk_no_nested, dotted
from .. import regexlang as RL

REFERENCE = r"classes[0-9]*\.dex"
OWN_MUTATION_ADEQUACY = True  # the thorough tier runs its own in-memory mutants
REGIONS = {0: "language", 1: "trailing-newline", 2: "unicode-digit"}
WRAPPERS_SAME = ("list", "tuple", "sorted", "iter")


# ---------------------------------------------------------------------------
class Sink:
    """collects rule instances; the real run forwards them to ctx, the mutation
    runs only look at the failing keys."""

    def __init__(self, ctx=None, funcs=None):
        self.ctx = ctx
        self.funcs = funcs or {}
        self.failed = {}
        self.counts = {}

    def check(self, rule, instance, ok, qualname, construct, message, node=None, witness=None, detail=""):
        if not ok:
            self.failed[(rule, qualname, norm(construct))] = message
        if self.ctx is not None:
            f = self.funcs.get(qualname, qualname)
            self.ctx.check(rule, instance, ok, f, construct, message, node=node, witness=witness, detail=detail)
        return ok

    def count(self, name, n=1):
        self.counts[name] = self.counts.get(name, 0) + n
        if self.ctx is not None:
            self.ctx.count(name, n)


def _err(msg):
    raise AnalysisError(msg)


class Fn:
    """one method of class APK under analysis"""

    def __init__(self, qualname, node):
        self.qualname = qualname
        self.node = node

    def params(self):
        return [a.arg for a in self.node.args.posonlyargs + self.node.args.args]

    def assignments(self, name):
        out = []
        for n in walk_no_nested(self.node):
            if isinstance(n, ast.Assign):
                for t in n.targets:
                    if isinstance(t, ast.Name) and t.id == name:
                        out.append(n.value)
                    elif isinstance(t, (ast.Tuple, ast.List)) and any(isinstance(e, ast.Name) and e.id == name for e in ast.walk(t)):
                        out.append(None)
            elif isinstance(n, (ast.AugAssign, ast.AnnAssign)) and isinstance(n.target, ast.Name) and n.target.id == name:
                out.append(n.value if isinstance(n, ast.AnnAssign) else None)
            elif isinstance(n, (ast.For, ast.comprehension)) and any(isinstance(e, ast.Name) and e.id == name for e in ast.walk(n.target)):
                out.append(None)
            elif isinstance(n, ast.NamedExpr) and n.target.id == name:
                out.append(None)
        return out

    def local(self, name):
        """the unique defining expression of a local, else AnalysisError"""
        a = self.assignments(name)
        if len(a) != 1 or a[0] is None:
            _err("%s: local %r is not a single simple assignment (outside the fragment)" % (self.qualname, name))
        return a[0]

    def returns(self):
        return [n for n in walk_no_nested(self.node) if isinstance(n, ast.Return)]

    def yields(self):
        return [n for n in walk_no_nested(self.node) if isinstance(n, (ast.Yield, ast.YieldFrom))]


# ---------------------------------------------------------------------------
# regex objects and membership tests
# ---------------------------------------------------------------------------
def _flag_value(e):
    if e is None:
        return 0
    if isinstance(e, ast.Constant) and isinstance(e.value, int):
        return e.value
    if isinstance(e, ast.BinOp) and isinstance(e.op, ast.BitOr):
        return _flag_value(e.left) | _flag_value(e.right)
    d = dotted(e)
    if d and d.startswith("re.") and hasattr(re, d[3:]) and isinstance(getattr(re, d[3:]), int):
        return int(getattr(re, d[3:]))
    _err("regex flags %s are not a literal" % ast.unparse(e))


def _resolve_const(e, fn, depth=0):
    """follow a name / self.X / APK.X / cls.X to its single defining expression
    (local, class attribute, module constant); other expressions are returned unchanged"""
    if depth > 4:
        _err("%s: constant definition chain too deep" % fn.qualname)
    w = getattr(fn, "world", None)
    if isinstance(e, ast.Name):
        if fn.assignments(e.id) or e.id in fn.params():
            return _resolve_const(fn.local(e.id), fn, depth + 1)
        if w is not None and e.id in w.info.get("module_consts", {}):
            return _resolve_const(w.info["module_consts"][e.id], fn, depth + 1)
        return e
    if isinstance(e, ast.Attribute) and isinstance(e.value, ast.Name) and w is not None:
        base = e.value.id
        if base in ("self", "cls", w.info.get("class_name", "APK")) and e.attr in w.info.get("class_attrs", {}):
            if e.attr in w.info.get("attr_stores", ()):
                _err("%s: %s is reassigned through an instance/class attribute store (outside the fragment)" % (fn.qualname, ast.unparse(e)))
            return _resolve_const(w.info["class_attrs"][e.attr], fn, depth + 1)
    return e


def _fold_str(e, fn, depth=0):
    """constant folding of a string expression built from literals and constants: +, %, .format, f-strings,
    str.join of a literal list, re.escape(<constant>) -- acts on program text only.  None if not a constant."""
    if depth > 8:
        return None
    e = _resolve_const(e, fn)
    if isinstance(e, ast.Constant) and isinstance(e.value, (str, bytes)):
        return e.value
    if isinstance(e, ast.BinOp) and isinstance(e.op, ast.Add):
        a, b = _fold_str(e.left, fn, depth + 1), _fold_str(e.right, fn, depth + 1)
        return a + b if a is not None and b is not None and type(a) is type(b) else None
    if isinstance(e, ast.BinOp) and isinstance(e.op, ast.Mod):
        a = _fold_str(e.left, fn, depth + 1)
        parts = e.right.elts if isinstance(e.right, ast.Tuple) else [e.right]
        vals = [_fold_str(x, fn, depth + 1) for x in parts]
        if a is None or any(v is None for v in vals):
            return None
        try:
            return a % tuple(vals)
        except (TypeError, ValueError):
            return None
    if isinstance(e, ast.JoinedStr):
        out = ""
        for v in e.values:
            if isinstance(v, ast.Constant):
                out += v.value
            elif isinstance(v, ast.FormattedValue) and v.format_spec is None and v.conversion == -1:
                x = _fold_str(v.value, fn, depth + 1)
                if not isinstance(x, str):
                    return None
                out += x
            else:
                return None
        return out
    if isinstance(e, ast.Call):
        d = dotted(e.func)
        if d == "re.escape" and len(e.args) == 1 and not e.keywords:
            x = _fold_str(e.args[0], fn, depth + 1)
            return re.escape(x) if x is not None else None
        if isinstance(e.func, ast.Attribute) and e.func.attr == "format" and not e.keywords:
            a = _fold_str(e.func.value, fn, depth + 1)
            vals = [_fold_str(x, fn, depth + 1) for x in e.args]
            if isinstance(a, str) and all(isinstance(v, str) for v in vals):
                try:
                    return a.format(*vals)
                except (IndexError, KeyError, ValueError):
                    return None
        if isinstance(e.func, ast.Attribute) and e.func.attr == "join" and len(e.args) == 1 and isinstance(e.args[0], (ast.List, ast.Tuple)):
            a = _fold_str(e.func.value, fn, depth + 1)
            vals = [_fold_str(x, fn, depth + 1) for x in e.args[0].elts]
            if isinstance(a, str) and all(isinstance(v, str) for v in vals):
                return a.join(vals)
    return None


def _pattern_literal(e, fn):
    v = _fold_str(e, fn)
    if v is not None:
        return v
    _err("%s: regex pattern %s is not a constant" % (fn.qualname, ast.unparse(e)))


def _compiled(e, fn):
    """expression denoting a compiled pattern (local, class attribute or module constant) -> RL.Regex"""
    src = e
    e = _resolve_const(e, fn)
    if isinstance(e, ast.Call) and dotted(e.func) == "re.compile" and e.args:
        flags = e.args[1] if len(e.args) > 1 else next((k.value for k in e.keywords if k.arg == "flags"), None)
        try:
            return RL.Regex(_pattern_literal(e.args[0], fn), _flag_value(flags))
        except RL.Unsupported as u:
            _err("%s: regex %s uses an unsupported construct (%s)" % (fn.qualname, ast.unparse(e), u))
    _err("%s: %s is not re.compile(<literal>)" % (fn.qualname, ast.unparse(src)))


def _regex_call(call, var, fn):
    """R.match(var) / re.match(P, var) -> Acceptor, else None"""
    if not (isinstance(call, ast.Call) and isinstance(call.func, ast.Attribute)):
        return None
    op = call.func.attr
    if op not in ("match", "search", "fullmatch"):
        return None
    base = call.func.value
    if isinstance(base, ast.Name) and base.id == "re":
        if len(call.args) < 2:
            return None
        subj = call.args[1]
        flags = call.args[2] if len(call.args) > 2 else next((k.value for k in call.keywords if k.arg == "flags"), None)
        try:
            rx = RL.Regex(_pattern_literal(call.args[0], fn), _flag_value(flags))
        except RL.Unsupported as u:
            _err("%s: regex %s uses an unsupported construct (%s)" % (fn.qualname, ast.unparse(call), u))
    else:
        if len(call.args) != 1 or call.keywords:
            _err("%s: %s uses pos/endpos (outside the fragment)" % (fn.qualname, ast.unparse(call)))
        subj = call.args[0]
        rx = _compiled(base, fn)
    if not (isinstance(subj, ast.Name) and subj.id == var):
        _err("%s: regex test %s is not applied to the iterated name %r" % (fn.qualname, ast.unparse(call), var))
    return RL.Acceptor(rx, op)


def _test_lang(cond, var, fn):
    """condition over the element variable -> list of acceptors (conjunction)"""
    if isinstance(cond, ast.BoolOp) and isinstance(cond.op, ast.And):
        out = []
        for v in cond.values:
            out += _test_lang(v, var, fn)
        return out
    if isinstance(cond, ast.Call) and isinstance(cond.func, ast.Name) and cond.func.id == "bool" and len(cond.args) == 1:
        return _test_lang(cond.args[0], var, fn)
    if (isinstance(cond, ast.Compare) and len(cond.ops) == 1 and isinstance(cond.ops[0], (ast.IsNot, ast.NotEq))
            and isinstance(cond.comparators[0], ast.Constant) and cond.comparators[0].value is None):
        return _test_lang(cond.left, var, fn)
    acc = _regex_call(cond, var, fn)
    if acc is not None:
        return [acc]
    # predicate helper applied to the name: self.h(x) / cls.h(x) / APK.h(x) / h(x)
    if isinstance(cond, ast.Call) and len(cond.args) == 1 and not cond.keywords and isinstance(cond.args[0], ast.Name) and cond.args[0].id == var:
        h = _predicate_helper(cond.func, fn)
        if h is not None:
            return _helper_lang(h, fn)
    _err("%s: filter predicate %s is outside the analysable fragment" % (fn.qualname, ast.unparse(cond)))


def _predicate_helper(f, fn):
    """expression naming a one-argument predicate of the class / module -> Fn or None"""
    w = getattr(fn, "world", None)
    if w is None:
        return None
    node = None
    if isinstance(f, ast.Attribute) and isinstance(f.value, ast.Name) and f.value.id in ("self", "cls", w.info.get("class_name", "APK")):
        node = w.info.get("methods", {}).get(f.attr)
        name = "APK." + f.attr
    elif isinstance(f, ast.Name) and not fn.assignments(f.id):
        node = w.info.get("module_funcs", {}).get(f.id)
        name = f.id
    if node is None:
        return None
    h = Fn(name, node)
    h.world = w
    return h


def _helper_lang(h, fn, depth=0):
    """language of the names for which the predicate helper returns a true value"""
    if getattr(fn, "_pred_depth", 0) > 3:
        _err("%s: predicate helpers nest too deeply" % fn.qualname)
    ps = h.params()
    decos = [dotted(d) for d in h.node.decorator_list]
    if h.qualname.startswith("APK.") and "staticmethod" not in decos:
        ps = ps[1:]
    if len(ps) != 1:
        _err("%s: predicate helper %s does not take exactly the name" % (fn.qualname, h.qualname))
    h._pred_depth = getattr(fn, "_pred_depth", 0) + 1
    return _test_lang(_single_return(h), ps[0], h)


def _bound_regex_method(e, fn):
    """`dexre.match` used as a predicate -> Acceptor"""
    if isinstance(e, ast.Attribute) and e.attr in ("match", "search", "fullmatch") and _predicate_helper(e, fn) is None:
        return RL.Acceptor(_compiled(e.value, fn), e.attr)
    return None


class Names:
    """{ n in archive names : n accepted by every acceptor }"""

    def __init__(self, accs=(), dropped=None, base=None, extra=()):
        self.accs = list(accs)
        self.dropped = dropped  # ast node that drops entries in a non-language way (slice ...)
        # derived from self.get_dex_names() plus `extra` further filters
        self.base_dex = bool(base.base_dex) if base is not None else False
        self.extra = (list(base.extra) if base is not None else []) + list(extra)
        # filter predicates that are not regex tests (cannot be turned into a language)
        self.opaque = list(base.opaque) if base is not None else []
        # collection stored in a dict keyed by a function of the name: one name survives per key
        self.keyed = getattr(base, "keyed", None) if base is not None else None

    def conj(self):
        return RL.Conj(self.accs)


class _Subst(ast.NodeTransformer):
    def __init__(self, table):
        self.table = table

    def visit_Name(self, n):
        if isinstance(n.ctx, ast.Load) and n.id in self.table:
            return ast.parse(ast.unparse(self.table[n.id]), mode="eval").body
        return n

    def visit_NamedExpr(self, n):
        self.table[n.target.id] = n.value
        return self.visit(ast.parse(ast.unparse(n.value), mode="eval").body)


def _is_empty_container(e):
    if isinstance(e, (ast.List, ast.Dict)) and not (e.elts if isinstance(e, ast.List) else e.keys):
        return "list" if isinstance(e, ast.List) else "dict"
    if isinstance(e, ast.Call) and isinstance(e.func, ast.Name) and e.func.id in ("list", "dict") and not e.args and not e.keywords:
        return e.func.id
    return None


def _builder_loop(fn, name, world, depth):
    """L = []; for v in IT: [m = R.op(v)] if cond: L.append(v)      -> the names of IT that satisfy cond
       D = {}; for v in IT: ... if cond: D[key] = v                 -> the same, but one name per key (Names.keyed)"""
    body = fn.node.body
    inits = [n for n in body if isinstance(n, ast.Assign) and len(n.targets) == 1 and isinstance(n.targets[0], ast.Name) and n.targets[0].id == name]
    if len(inits) != 1 or len(fn.assignments(name)) != 1:
        return None
    kind = _is_empty_container(inits[0].value)
    if kind is None:
        return None
    muts = []
    for n in walk_no_nested(fn.node):
        if kind == "list" and isinstance(n, ast.Expr) and isinstance(n.value, ast.Call) and isinstance(n.value.func, ast.Attribute) \
                and isinstance(n.value.func.value, ast.Name) and n.value.func.value.id == name:
            muts.append(n)
        elif isinstance(n, (ast.Assign, ast.AugAssign, ast.Delete)):
            for t in (n.targets if not isinstance(n, ast.AugAssign) else [n.target]):
                if isinstance(t, ast.Subscript) and isinstance(t.value, ast.Name) and t.value.id == name:
                    muts.append(n)
    if len(muts) != 1:
        return None
    mut = muts[0]
    loops = [l for l in body if isinstance(l, ast.For) and any(x is mut for x in ast.walk(l))]
    if len(loops) != 1 or not isinstance(loops[0].target, ast.Name) or loops[0].orelse or body.index(loops[0]) < body.index(inits[0]):
        return None
    loop = loops[0]
    var = loop.target.id
    if any(isinstance(x, (ast.Break, ast.Continue, ast.Return, ast.Try, ast.While)) for x in ast.walk(loop)):
        return None
    table, conds, block = {}, [], loop.body
    while True:
        stmts = [b for b in block if not (isinstance(b, ast.Expr) and isinstance(b.value, ast.Constant))]
        i = 0
        while i < len(stmts) - 1 and isinstance(stmts[i], ast.Assign) and len(stmts[i].targets) == 1 and isinstance(stmts[i].targets[0], ast.Name) \
                and stmts[i].targets[0].id not in (var, name):
            table[stmts[i].targets[0].id] = stmts[i].value
            i += 1
        rest = stmts[i:]
        if len(rest) == 1 and rest[0] is mut:
            break
        if len(rest) == 1 and isinstance(rest[0], ast.If) and not rest[0].orelse:
            conds.append(rest[0].test)
            block = rest[0].body
            continue
        return None
    if kind == "list":
        c = mut.value
        if not (c.func.attr == "append" and len(c.args) == 1 and isinstance(c.args[0], ast.Name) and c.args[0].id == var):
            return None
        key = None
    else:
        if not (isinstance(mut, ast.Assign) and len(mut.targets) == 1 and isinstance(mut.value, ast.Name) and mut.value.id == var):
            return None
        key = mut.targets[0].slice
    base = iter_lang(loop.iter, fn, world, depth + 1)
    if not _identity_elt(base):
        return None
    new, opaque = [], []
    for c in conds:
        c2 = _Subst(table).visit(ast.parse(ast.unparse(c), mode="eval").body)
        try:
            new += _test_lang(c2, var, fn)
        except AnalysisError:
            opaque.append(c)
    n = Names(base.accs + new, base.dropped, base, new)
    n.opaque += opaque
    if key is not None:
        n.keyed = dict(key=key, table=dict(table), var=var, node=mut)
    return n


def _dict_values(e, fn):
    """expression denoting the values of a local dict D (in any order): D.values(), [D[k] for k in sorted(D)], ... -> name of D"""
    def keys_of(x):
        while isinstance(x, ast.Call) and isinstance(x.func, ast.Name) and x.func.id in ("sorted", "list", "iter", "tuple", "reversed") and x.args:
            x = x.args[0]
        if isinstance(x, ast.Call) and isinstance(x.func, ast.Attribute) and x.func.attr == "keys" and not x.args:
            x = x.func.value
        return x.id if isinstance(x, ast.Name) else None
    if isinstance(e, ast.Call) and isinstance(e.func, ast.Attribute) and e.func.attr == "values" and not e.args and isinstance(e.func.value, ast.Name):
        return e.func.value.id
    if isinstance(e, (ast.ListComp, ast.GeneratorExp)) and len(e.generators) == 1 and not e.generators[0].ifs and isinstance(e.generators[0].target, ast.Name):
        d = keys_of(e.generators[0].iter)
        k = e.generators[0].target.id
        if d and isinstance(e.elt, ast.Subscript) and isinstance(e.elt.value, ast.Name) and e.elt.value.id == d \
                and isinstance(e.elt.slice, ast.Name) and e.elt.slice.id == k:
            return d
    return None


def iter_lang(e, fn, world, depth=0):
    """the collection of archive names an expression denotes"""
    if depth > 6:
        _err("%s: name-collection expression nests too deeply" % fn.qualname)
    dv = _dict_values(e, fn)
    if dv is not None:
        b = _builder_loop(fn, dv, world, depth)
        if b is not None and b.keyed is not None:
            return b
    if isinstance(e, ast.Name):
        if len(fn.assignments(e.id)) == 1 and fn.assignments(e.id)[0] is not None and _is_empty_container(fn.assignments(e.id)[0]) == "list":
            b = _builder_loop(fn, e.id, world, depth)
            if b is not None:
                return b
        return iter_lang(fn.local(e.id), fn, world, depth + 1)
    if isinstance(e, ast.Call):
        d = dotted(e.func)
        if d == "self.zip.namelist" and not e.args:
            return Names()
        if d == "self.get_files" and not e.args:
            world.uses_get_files = True
            return Names()
        if d == "self.get_dex_names" and not e.args:
            if fn.qualname.endswith(".get_dex_names"):
                _err("get_dex_names is recursive")
            g = world.fn("get_dex_names")
            n = iter_lang(_single_return(g), g, world, depth + 1)
            if not _identity_elt(n):
                _err("get_dex_names: comprehension element is not the iterated name")
            n = Names(n.accs, n.dropped)
            n.base_dex = True
            return n
        if isinstance(e.func, ast.Name) and e.func.id in WRAPPERS_SAME and len(e.args) == 1 and not e.keywords:
            return iter_lang(e.args[0], fn, world, depth + 1)
        if isinstance(e.func, ast.Name) and e.func.id == "filter" and len(e.args) == 2:
            pred, it = e.args
            base = iter_lang(it, fn, world, depth + 1)
            if isinstance(pred, ast.Lambda) and len(pred.args.args) == 1:
                try:
                    new = _test_lang(pred.body, pred.args.args[0].arg, fn)
                except AnalysisError:
                    n = Names(base.accs, base.dropped, base)
                    n.opaque.append(pred.body)
                    return n
                return Names(base.accs + new, base.dropped, base, new)
            h = _predicate_helper(pred, fn)
            if h is not None:
                new = _helper_lang(h, fn)
                return Names(base.accs + new, base.dropped, base, new)
            acc = _bound_regex_method(pred, fn)
            if acc is not None:
                return Names(base.accs + [acc], base.dropped, base, [acc])
            _err("%s: filter predicate %s is outside the analysable fragment" % (fn.qualname, ast.unparse(pred)))
    if isinstance(e, (ast.ListComp, ast.GeneratorExp)):
        if len(e.generators) != 1 or not isinstance(e.generators[0].target, ast.Name) or e.generators[0].is_async:
            _err("%s: comprehension %s is outside the analysable fragment" % (fn.qualname, ast.unparse(e)))
        g = e.generators[0]
        var = g.target.id
        base = iter_lang(g.iter, fn, world, depth + 1)
        new, opaque = [], []
        for c in g.ifs:
            try:
                new += _test_lang(c, var, fn)
            except AnalysisError:
                opaque.append(c)
        if not _identity_elt(base):
            _err("%s: nested comprehension does not produce names" % fn.qualname)
        n = Names(base.accs + new, base.dropped, base, new)
        n.opaque += opaque
        n.elt = e.elt
        n.var = var
        return n
    if isinstance(e, ast.Subscript) and isinstance(e.slice, ast.Slice):
        base = iter_lang(e.value, fn, world, depth + 1)
        s = e.slice
        if s.lower is None and s.upper is None and s.step is None:
            return base
        return Names(base.accs, e, base)
    _err("%s: %s is not a recognised collection of archive names" % (fn.qualname, ast.unparse(e)))


def _single_return(fn):
    rs = fn.returns()
    if len(rs) != 1 or rs[0].value is None or fn.yields():
        _err("%s: expected exactly one `return <expr>`" % fn.qualname)
    return rs[0].value


def _identity_elt(names):
    elt = getattr(names, "elt", None)
    return elt is None or (isinstance(elt, ast.Name) and elt.id == names.var)


# ---------------------------------------------------------------------------
_REF = None
_UNI = None


def _reference():
    global _REF, _UNI
    if _REF is None:
        _REF = RL.Acceptor(RL.Regex(REFERENCE), "fullmatch")
        _UNI = RL.category_set("CATEGORY_DIGIT", False).minus(RL.ASCII_DIGIT)
    return _REF, _UNI


def _region(cls):
    _, uni = _reference()
    if cls.intersect(uni):
        return 2
    if cls == RL.NEWLINE:
        return 1
    return 0


def check_language(sink, fn, names, what, node):
    """compare the selected-name language with the reference, per region"""
    ref, uni = _reference()
    if names.opaque:
        _err("%s: filter predicate %s is outside the analysable fragment (not a regex test on the name)" % (fn.qualname, norm(names.opaque[0])))
    sink.count("name_set_sites")
    if names.base_dex and not names.extra and names.dropped is None and not fn.qualname.endswith(".get_dex_names"):
        sink.check("dex-regex/shared", "%s: %s" % (fn.qualname, what), True, fn.qualname, "self.get_dex_names()", "",
                   detail="%s are exactly the names of get_dex_names() (language decided there)" % what)
        sink.count("shared_language")
        return
    conj = names.conj()
    try:
        res, alpha = RL.compare(conj, ref, [RL.ASCII_DIGIT, uni], _region)
    except RL.Unsupported as u:
        _err("%s: language comparison failed (%s)" % (fn.qualname, u))
    label = conj.label()
    # finding key = fingerprint of the *language* (canonical minimal DFA): re-spelling the regex keeps it,
    # any change of the selected names changes it
    fp = "names#" + RL.fingerprint(conj, [RL.ASCII_DIGIT, uni])
    sink.count("regex_literals", len(names.accs))
    for r, rname in REGIONS.items():
        v = res.get(r, {"only_a": None, "only_b": None})
        extra, missing = v["only_a"], v["only_b"]
        ok = extra is None and missing is None
        parts = []
        if extra is not None:
            parts.append("selects %r which is not a root-level classes<N>.dex name" % extra)
        if missing is not None:
            parts.append("does not select %r" % missing)
        sink.check("dex-regex/" + rname, "%s: %s" % (fn.qualname, what), ok, fn.qualname, fp,
                   "%s: the names %s are not exactly classes[0-9]*\\.dex: %s" % (what, label, "; ".join(parts)),
                   node=node, witness=dict(selected_but_not_dex=extra, dex_but_not_selected=missing, reference=REFERENCE),
                   detail="L(%s) == L(fullmatch %s) on region %s (%d alphabet classes)" % (label, REFERENCE, rname, len(alpha.classes)))
        sink.count("language_checks")
    if names.dropped is not None:
        sink.check("dex-regex/language", "%s: no positional drop" % fn.qualname, False, fn.qualname, names.dropped,
                   "%s: %s drops entries by position" % (what, ast.unparse(names.dropped)), node=names.dropped)


# ---------------------------------------------------------------------------
def _sample_words(acc, extra_per_class=3, slack=2, cap=4000):
    """words of the language of an acceptor: all words up to (shortest length + slack) over a few representatives per alphabet class"""
    alpha = RL.Alphabet([acc], [RL.ASCII_DIGIT])
    reps = []
    for cls in alpha.classes:
        cands = sorted((c for a, b in cls.iv for c in range(a, min(b, a + 40) + 1)), key=RL.char_key)[:extra_per_class]
        reps.append([chr(c) for c in cands])
    out, level, limit, steps = [], [(acc.initial(), "")], None, 0
    depth = 0
    while level and (limit is None or depth <= limit) and depth < 40:
        nxt = []
        for st, w in level:
            if acc.accepting(st):
                out.append(w)
                if limit is None:
                    limit = depth + slack
            for k in range(len(alpha.classes)):
                st2 = acc.step(st, alpha, k)
                steps += 1
                if st2:
                    for ch in reps[k]:
                        nxt.append((st2, w + ch))
        if steps > 200000 or len(nxt) > cap:
            nxt = nxt[:cap]
        level = nxt
        depth += 1
    return out


def _eval_key(e, env):
    """the checker's own evaluation of a key expression on one sample name (match objects come from the regex *literal*)"""
    if isinstance(e, ast.Constant):
        return e.value
    if isinstance(e, ast.Name):
        if e.id in env:
            v = env[e.id]
            return v() if callable(v) else v
        raise AnalysisError("key expression uses %s" % e.id)
    if isinstance(e, ast.BoolOp):
        v = None
        for x in e.values:
            v = _eval_key(x, env)
            if (isinstance(e.op, ast.Or) and v) or (isinstance(e.op, ast.And) and not v):
                return v
        return v
    if isinstance(e, ast.Tuple):
        return tuple(_eval_key(x, env) for x in e.elts)
    if isinstance(e, ast.BinOp) and isinstance(e.op, (ast.Add, ast.Sub, ast.Mult)):
        a, b = _eval_key(e.left, env), _eval_key(e.right, env)
        try:
            return a + b if isinstance(e.op, ast.Add) else (a - b if isinstance(e.op, ast.Sub) else a * b)
        except TypeError:
            raise AnalysisError("key expression %s" % ast.unparse(e))
    if isinstance(e, ast.Subscript):
        v = _eval_key(e.value, env)
        if isinstance(e.slice, ast.Slice):
            lo = _eval_key(e.slice.lower, env) if e.slice.lower else None
            hi = _eval_key(e.slice.upper, env) if e.slice.upper else None
            if isinstance(v, str) and e.slice.step is None:
                return v[lo:hi]
        else:
            i = _eval_key(e.slice, env)
            if isinstance(v, (str, tuple)) and isinstance(i, int):
                try:
                    return v[i]
                except IndexError:
                    raise AnalysisError("key expression %s" % ast.unparse(e))
            if isinstance(v, re.Match) and isinstance(i, (int, str)):
                return v[i]
        raise AnalysisError("key expression %s" % ast.unparse(e))
    if isinstance(e, ast.Call) and not e.keywords:
        args = [_eval_key(a, env) for a in e.args]
        if isinstance(e.func, ast.Name) and e.func.id in ("int", "str", "len", "abs") and len(args) == 1:
            try:
                return {"int": int, "str": str, "len": len, "abs": abs}[e.func.id](args[0])
            except (TypeError, ValueError):
                raise AnalysisError("key expression %s fails on a sample name" % ast.unparse(e))
        if isinstance(e.func, ast.Attribute):
            recv = _eval_key(e.func.value, env)
            m = e.func.attr
            if isinstance(recv, re.Match) and m in ("group", "groups", "start", "end"):
                return getattr(recv, m)(*args)
            if isinstance(recv, str) and m in ("lower", "upper", "strip", "lstrip", "rstrip", "zfill", "casefold", "removeprefix", "removesuffix") \
                    and all(isinstance(a, (str, int)) for a in args):
                return getattr(recv, m)(*args)
    raise AnalysisError("key expression %s is outside the evaluator" % ast.unparse(e))


def check_keyed(sink, fn, names, what):
    """a listing kept in a dict keyed by key(name): two selected names with the same key overwrite each other"""
    k = names.keyed
    sink.count("keyed_listings")
    key, var = k["key"], k["var"]
    if isinstance(key, ast.Name) and key.id == var:
        sink.check("dex-listing/one-per-name", "%s: dict keyed by the name itself" % fn.qualname, True, fn.qualname, "key is the name", "",
                   detail="the dict is keyed by the entry name: no two names share a key")
        return
    words = _sample_words(names.conj())
    if len(words) < 2:
        _err("%s: cannot enumerate sample names of the selected language" % fn.qualname)
    seen = {}
    clash = None
    for w in words:
        env = {var: w}
        for lname, lexpr in k["table"].items():
            env[lname] = (lambda ex=lexpr, word=w: _match_value(ex, var, word, fn))
        try:
            kv = _eval_key(key, env)
            hash(kv)
        except AnalysisError as e:
            _err("%s: %s (cannot decide whether the dict key determines the name)" % (fn.qualname, e))
        except TypeError:
            _err("%s: key of %s is not hashable in the evaluator" % (fn.qualname, ast.unparse(key)))
        if kv in seen and seen[kv] != w:
            clash = (seen[kv], w, kv)
            break
        seen.setdefault(kv, w)
    if clash is None:
        _err("%s: no two sample names share the key %s, but injectivity of the key on all selected names is not established" % (fn.qualname, ast.unparse(key)))
    sink.check("dex-listing/one-per-name", "%s: %s keeps every selected name" % (fn.qualname, what), False, fn.qualname, k["node"],
               "%s: `%s` stores the names under the key %s, which is the same (%r) for %r and %r -- one of the two entries is lost from the listing"
               % (what, norm(k["node"]), ast.unparse(key), clash[2], clash[0], clash[1]), node=k["node"],
               witness=dict(names=[clash[0], clash[1]], key=repr(clash[2])))


def _match_value(expr, var, word, fn):
    """value of a loop-local like `m = dexre.match(name)` on one sample name (the regex literal applied to the checker's own word)"""
    if isinstance(expr, ast.Call) and isinstance(expr.func, ast.Attribute) and expr.func.attr in ("match", "search", "fullmatch"):
        acc = _regex_call(expr, var, fn)
        if acc is not None:
            return getattr(re.compile(acc.rx.pattern, acc.rx.flags & ~re.UNICODE if isinstance(acc.rx.pattern, bytes) else acc.rx.flags), acc.op)(word)
    raise AnalysisError("loop local %s is outside the evaluator" % ast.unparse(expr))


def check_get_dex_names(sink, world):
    fn = world.fn("get_dex_names")
    e = _single_return(fn)
    while isinstance(e, ast.Call) and isinstance(e.func, ast.Name) and e.func.id in WRAPPERS_SAME and len(e.args) == 1 and not e.keywords \
            and _dict_values(e.args[0], fn) is not None:
        e = e.args[0]
    names = iter_lang(e, fn, world)
    if names.keyed is None and not _identity_elt(names):
        _err("get_dex_names: comprehension element %s is not the iterated name" % ast.unparse(names.elt))
    check_language(sink, fn, names, "DEX listing", e)
    if names.keyed is not None:
        check_keyed(sink, fn, names, "DEX listing")
    sink.count("functions")


def _counter_loop(fn, name, world):
    """c = 0; for v in IT: if cond: c += 1   ->  Names(IT filtered by cond)"""
    inits, incs = [], []
    for n in walk_no_nested(fn.node):
        if isinstance(n, ast.Assign) and any(isinstance(t, ast.Name) and t.id == name for t in n.targets):
            inits.append(n)
        elif isinstance(n, ast.AugAssign) and isinstance(n.target, ast.Name) and n.target.id == name:
            incs.append(n)
    if len(inits) != 1 or len(incs) != 1 or not (isinstance(inits[0].value, ast.Constant) and inits[0].value.value == 0 and type(inits[0].value.value) is int):
        return None
    inc = incs[0]
    if not (isinstance(inc.op, ast.Add) and isinstance(inc.value, ast.Constant) and inc.value.value == 1 and type(inc.value.value) is int):
        return None
    # the increment sits under `if`s (no else) directly inside exactly one for loop of the function body
    loops = [l for l in walk_no_nested(fn.node) if isinstance(l, ast.For) and any(x is inc for x in ast.walk(l))]
    if len(loops) != 1 or loops[0] not in fn.node.body or inits[0] not in fn.node.body or not isinstance(loops[0].target, ast.Name) or loops[0].orelse:
        return None
    if fn.node.body.index(inits[0]) > fn.node.body.index(loops[0]):
        return None
    loop, conds, block = loops[0], [], loops[0].body
    while True:
        if len(block) == 1 and block[0] is inc:
            break
        if len(block) == 1 and isinstance(block[0], ast.If) and not block[0].orelse:
            conds.append(block[0].test)
            block = block[0].body
            continue
        return None
    if any(isinstance(x, (ast.Break, ast.Continue, ast.Return)) for x in ast.walk(loop)):
        return None
    base = iter_lang(loop.iter, fn, world)
    if not _identity_elt(base):
        return None
    new, opaque = [], []
    for c in conds:
        try:
            new += _test_lang(c, loop.target.id, fn)
        except AnalysisError:
            opaque.append(c)
    n = Names(base.accs + new, base.dropped, base, new)
    n.opaque += opaque
    return n


def _count_expr(e, fn, world):
    """len(<names>) / sum(1 for ...) / a counter incremented in a filtering loop -> Names, else None"""
    if isinstance(e, ast.Name):
        return _counter_loop(fn, e.id, world)
    if isinstance(e, ast.Call) and isinstance(e.func, ast.Name) and len(e.args) == 1 and not e.keywords:
        if e.func.id == "len":
            return iter_lang(e.args[0], fn, world)
        if e.func.id == "sum" and isinstance(e.args[0], ast.GeneratorExp):
            g = e.args[0]
            if isinstance(g.elt, ast.Constant) and g.elt.value == 1:
                return iter_lang(g, fn, world)
    return None


_CMP = {ast.Gt: lambda a, b: a > b, ast.GtE: lambda a, b: a >= b, ast.Lt: lambda a, b: a < b, ast.LtE: lambda a, b: a <= b,
        ast.Eq: lambda a, b: a == b, ast.NotEq: lambda a, b: a != b}


def check_is_multidex(sink, world):
    fn = world.fn("is_multidex")
    e = _single_return(fn)
    while isinstance(e, ast.Call) and isinstance(e.func, ast.Name) and e.func.id == "bool" and len(e.args) == 1:
        e = e.args[0]
    if isinstance(e, ast.Name):
        e = fn.local(e.id)
    if not (isinstance(e, ast.Compare) and len(e.ops) == 1 and type(e.ops[0]) in _CMP):
        _err("is_multidex: return value %s is not a comparison of a count" % ast.unparse(e))
    left, right = e.left, e.comparators[0]
    lres = lambda x: fn.local(x.id) if isinstance(x, ast.Name) and len(fn.assignments(x.id)) == 1 and fn.assignments(x.id)[0] is not None else x
    left, right = lres(left), lres(right)
    names = _count_expr(left, fn, world)
    opsym = {ast.Gt: ">", ast.GtE: ">=", ast.Lt: "<", ast.LtE: "<=", ast.Eq: "==", ast.NotEq: "!="}[type(e.ops[0])]
    if names is not None and isinstance(right, ast.Constant) and type(right.value) is int:
        pred = lambda n: _CMP[type(e.ops[0])](n, right.value)
        shape = "count %s %d" % (opsym, right.value)
    else:
        names = _count_expr(right, fn, world)
        if names is None or not (isinstance(left, ast.Constant) and type(left.value) is int):
            _err("is_multidex: %s is not `count <op> <int literal>`" % ast.unparse(e))
        pred = lambda n: _CMP[type(e.ops[0])](left.value, n)
        shape = "%d %s count" % (left.value, opsym)
    table = [bool(pred(n)) for n in range(6)]
    want = [n > 1 for n in range(6)]
    bad = next((n for n in range(6) if table[n] != want[n]), None)
    sink.check("multidex/threshold", "is_multidex: count > 1", bad is None, fn.qualname, shape,
               "is_multidex (%s) answers %s for an archive with %s DEX file(s)" % (shape, table[bad] if bad is not None else "", bad),
               node=e, witness=dict(dex_files=bad, answer=(table[bad] if bad is not None else None)),
               detail="%s; truth table for 0..5 DEX files: %s" % (shape, table))
    check_language(sink, fn, names, "multidex count", e)
    sink.count("functions")


def check_get_all_dex(sink, world):
    fn = world.fn("get_all_dex")
    src = None  # (iter expr, var, produced elt, node)
    ys = fn.yields()
    if ys:
        loops = [n for n in walk_no_nested(fn.node) if isinstance(n, ast.For)]
        if len(ys) == 1 and isinstance(ys[0], ast.Yield) and len(loops) == 1 and isinstance(loops[0].target, ast.Name):
            loop = loops[0]
            body = loop.body
            if (len(body) == 1 and isinstance(body[0], ast.Expr) and body[0].value is ys[0] and not loop.orelse
                    and loop in fn.node.body):
                src = (loop.iter, loop.target.id, ys[0].value, loop)
            else:
                # conditional yield inside the loop = entries skipped in a way the language does not describe
                conds = [n for n in walk_no_nested(loop) if isinstance(n, (ast.If, ast.Continue, ast.Break, ast.Try))]
                if conds and any(y is ys[0] for y in ast.walk(loop)):
                    sink.check("get_all_dex/every-dex", "get_all_dex yields every listed DEX", False, fn.qualname, conds[0] if not isinstance(conds[0], ast.If) else conds[0].test,
                               "get_all_dex skips or stops on some names of get_dex_names (%s)" % norm(conds[0] if not isinstance(conds[0], ast.If) else conds[0].test)[:80],
                               node=conds[0])
                    src = (loop.iter, loop.target.id, ys[0].value, loop)
        elif len(ys) == 1 and isinstance(ys[0], ast.YieldFrom) and isinstance(ys[0].value, (ast.GeneratorExp, ast.ListComp)):
            g = ys[0].value
            if len(g.generators) == 1 and isinstance(g.generators[0].target, ast.Name) and not g.generators[0].ifs:
                src = (g.generators[0].iter, g.generators[0].target.id, g.elt, g)
        elif (len(ys) == 1 and isinstance(ys[0], ast.YieldFrom) and isinstance(ys[0].value, ast.Call) and dotted(ys[0].value.func) == "map"
              and len(ys[0].value.args) == 2 and dotted(ys[0].value.args[0]) == "self.get_file"):
            c = ys[0].value
            src = (c.args[1], "_", ast.parse("self.get_file(_)", mode="eval").body, c)
    else:
        rs = fn.returns()
        if len(rs) == 1 and isinstance(rs[0].value, (ast.GeneratorExp, ast.ListComp)):
            g = rs[0].value
            if len(g.generators) == 1 and isinstance(g.generators[0].target, ast.Name) and not g.generators[0].ifs:
                src = (g.generators[0].iter, g.generators[0].target.id, g.elt, g)
        elif (len(rs) == 1 and isinstance(rs[0].value, ast.Call) and dotted(rs[0].value.func) == "map" and len(rs[0].value.args) == 2
              and dotted(rs[0].value.args[0]) == "self.get_file"):
            c = rs[0].value
            src = (c.args[1], "_", ast.parse("self.get_file(_)", mode="eval").body, c)
    if src is None:
        _err("get_all_dex: not `for n in <names>: yield self.get_file(n)` (outside the fragment)")
    it, var, elt, node = src
    ok = (isinstance(elt, ast.Call) and dotted(elt.func) == "self.get_file" and len(elt.args) == 1 and not elt.keywords
          and isinstance(elt.args[0], ast.Name) and elt.args[0].id == var)
    sink.check("get_all_dex/content", "get_all_dex yields get_file(name)", ok, fn.qualname, elt,
               "get_all_dex does not yield self.get_file(<the listed name>) but %s" % norm(elt), node=node,
               detail="element is self.get_file(%s)" % var)
    names = iter_lang(it, fn, world)
    if not _identity_elt(names):
        _err("get_all_dex: iterated comprehension does not produce names")
    check_language(sink, fn, names, "get_all_dex names", node)
    sink.count("functions")


# ---------------------------------------------------------------------------
# get_file: abstract execution under the four possible answers of the archive
# ---------------------------------------------------------------------------
WORLDS = (
    ("absent", "the archive has no such entry (zip.read raises KeyError)"),
    ("empty", "the entry exists and is zero bytes long"),
    ("nonempty", "the entry exists and has content"),
    ("unreadable", "the entry exists but reading it fails with an error other than KeyError"),
)
BUILTIN_EXC = {
    "KeyError": ("KeyError", "LookupError", "Exception", "BaseException"),
    "ArchiveReadError": ("ArchiveReadError", "Exception", "BaseException"),  # stands for zlib.error, struct.error, ...
    "ValueError": ("ValueError", "Exception", "BaseException"),
    "TypeError": ("TypeError", "Exception", "BaseException"),
    "IndexError": ("IndexError", "LookupError", "Exception", "BaseException"),
    "LookupError": ("LookupError", "Exception", "BaseException"),
    "Exception": ("Exception", "BaseException"),
}

CONTENT, WRONG, NONE_, UNKNOWN = ("content",), ("other-content",), ("const", None), ("unknown",)


class _Raised(Exception):
    def __init__(self, name, node):
        self.name = name
        self.node = node


class _Returned(Exception):
    def __init__(self, value, node):
        self.value = value
        self.node = node


class FileExec:
    """deterministic abstract execution of get_file (helpers of the class inlined) in one world"""

    def __init__(self, world, fn, wname, preseed=None):
        self.world = world
        self.fn = fn
        self.w = wname
        self.trace = []  # decisive conditions taken
        self.reads = 0
        # per-instance containers used as storage: attribute -> [[key term, value term], ...]
        self.store = {a: [list(kv) for kv in kvs] for a, kvs in (preseed or {}).items()}
        self.writes = []

    @staticmethod
    def self_attr(e):
        """self.<attr> (not the archive) -> attr"""
        if isinstance(e, ast.Attribute) and isinstance(e.value, ast.Name) and e.value.id == "self" and e.attr != "zip":
            return e.attr
        return None

    def lookup(self, attr, key):
        for k, v in self.store.get(attr, []):
            if k == key:
                return v
        return None

    def put(self, attr, key, val):
        self.writes.append((attr, key, val))
        for kv in self.store.setdefault(attr, []):
            if kv[0] == key:
                kv[1] = val
                return
        self.store[attr].append([key, val])

    def entry_lookup(self, key_term, node):
        """central-directory record of the requested name"""
        if key_term != ("name",):
            return UNKNOWN
        if self.w == "absent":
            raise _Raised("KeyError", node)
        return ("entry",)

    def mro(self, name):
        if name in BUILTIN_EXC:
            return BUILTIN_EXC[name]
        out, cur, seen = [], name, set()
        classes = self.world.info.get("classes", {})
        while cur in classes and cur not in seen:
            seen.add(cur)
            out.append(cur)
            bases = classes[cur]
            cur = bases[0] if bases else None
        if cur in BUILTIN_EXC:
            out += list(BUILTIN_EXC[cur])
        elif cur:
            out += [cur, "Exception", "BaseException"]
        return tuple(out) or (name, "Exception", "BaseException")

    # -- values
    def ev(self, e, env, fn, depth):
        if isinstance(e, ast.Constant):
            return ("const", e.value)
        if isinstance(e, ast.Name):
            if e.id in env:
                return env[e.id]
            return UNKNOWN
        if isinstance(e, ast.NamedExpr):
            v = self.ev(e.value, env, fn, depth)
            env[e.target.id] = v
            return v
        if isinstance(e, ast.IfExp):
            return self.ev(e.body if self.truth(e.test, env, fn, depth) else e.orelse, env, fn, depth)
        if isinstance(e, ast.Tuple):
            return ("tuple",) + tuple(self.ev(x, env, fn, depth) for x in e.elts)
        if isinstance(e, ast.Attribute):
            v = self.ev(e.value, env, fn, depth) if not (isinstance(e.value, ast.Name) and e.value.id == "self") else UNKNOWN
            if v == ("entry",):
                return ("meta", e.attr)
            return UNKNOWN
        if isinstance(e, ast.Subscript):
            k = self.ev(e.slice, env, fn, depth)
            base = e.value
            if (isinstance(base, ast.Call) and dotted(base.func) == "self.zip.infolist" and not base.args) or dotted(base) == "self.zip.NameToInfo":
                return self.entry_lookup(k, e)
            a = self.self_attr(base)
            if a is not None:
                v = self.lookup(a, k)
                if v is None:
                    raise _Raised("KeyError", e)
                return v
            return UNKNOWN
        if isinstance(e, ast.Call):
            d = dotted(e.func)
            if d == "self.zip.getinfo" and len(e.args) == 1 and not e.keywords:
                return self.entry_lookup(self.ev(e.args[0], env, fn, depth), e)
            if isinstance(e.func, ast.Attribute) and self.self_attr(e.func.value) is not None and e.func.attr in ("get", "setdefault", "pop") and e.args:
                a = self.self_attr(e.func.value)
                k = self.ev(e.args[0], env, fn, depth)
                v = self.lookup(a, k)
                dflt = self.ev(e.args[1], env, fn, depth) if len(e.args) > 1 else NONE_
                if e.func.attr == "get":
                    return v if v is not None else dflt
                if e.func.attr == "setdefault":
                    if v is None:
                        self.put(a, k, dflt)
                        return dflt
                    return v
                _err("get_file: %s is outside the analysable fragment" % ast.unparse(e))
            if d == "self.zip.read":
                self.reads += 1
                arg = self.ev(e.args[0], env, fn, depth) if len(e.args) == 1 and not e.keywords else UNKNOWN
                if self.w == "absent":
                    raise _Raised("KeyError", e)
                if self.w == "unreadable":
                    raise _Raised("ArchiveReadError", e)
                return CONTENT if arg == ("name",) else WRONG
            if d and d.startswith("self.") and d.count(".") == 1 and d[5:] in self.world.info.get("methods", {}) and d[5:] not in ("get_files",):
                if depth >= 3:
                    _err("get_file: helper calls nest deeper than 3")
                h = Fn("APK." + d[5:], self.world.info["methods"][d[5:]])
                h.world = self.world
                hp = h.params()[1:]
                if e.keywords or len(e.args) > len(hp) or any(isinstance(a, ast.Starred) for a in e.args):
                    _err("get_file: call %s is outside the fragment" % ast.unparse(e))
                henv = {}
                defaults = dict(zip(reversed(hp), reversed(h.node.args.defaults)))
                for i, pn in enumerate(hp):
                    if i < len(e.args):
                        henv[pn] = self.ev(e.args[i], env, fn, depth)
                    elif pn in defaults and isinstance(defaults[pn], ast.Constant):
                        henv[pn] = ("const", defaults[pn].value)
                    else:
                        _err("get_file: call %s lacks an argument" % ast.unparse(e))
                try:
                    self.block(h.node.body, henv, h, depth + 1)
                except _Returned as r:
                    return r.value
                return NONE_
            for a in e.args:
                if isinstance(a, ast.Call):
                    self.ev(a, env, fn, depth)
            if d in ("bytes", "bytearray") and len(e.args) == 1:
                return self.ev(e.args[0], env, fn, depth)
            return UNKNOWN
        return UNKNOWN

    def names_expr(self, e, fn):
        try:
            n = iter_lang(e, fn, self.world)
        except AnalysisError:
            return False
        return not n.accs and not n.opaque and n.dropped is None

    def truth(self, t, env, fn, depth):
        if isinstance(t, ast.UnaryOp) and isinstance(t.op, ast.Not):
            return not self.truth(t.operand, env, fn, depth)
        if isinstance(t, ast.BoolOp):
            if isinstance(t.op, ast.And):
                return all(self.truth(v, env, fn, depth) for v in t.values)
            return any(self.truth(v, env, fn, depth) for v in t.values)
        if isinstance(t, ast.Compare) and len(t.ops) == 1:
            op_, l, r = t.ops[0], t.left, t.comparators[0]
            if isinstance(op_, (ast.In, ast.NotIn)) and self.self_attr(r) is not None:
                k = self.ev(l, env, fn, depth)
                present = self.lookup(self.self_attr(r), k) is not None
                res = present if isinstance(op_, ast.In) else not present
                self.trace.append("%s is %s" % (norm(t), res))
                return res
            if isinstance(op_, (ast.In, ast.NotIn)) and self.names_expr(r, fn):
                lv = self.ev(l, env, fn, depth)
                if lv != ("name",):
                    _err("get_file: membership test %s is not about the requested name" % ast.unparse(t))
                present = self.w != "absent"
                res = present if isinstance(op_, ast.In) else not present
                self.trace.append("%s is %s" % (norm(t), res))
                return res
            # len(x) <op> 0
            if isinstance(l, ast.Call) and dotted(l.func) == "len" and len(l.args) == 1 and isinstance(r, ast.Constant) and r.value == 0:
                v = self.ev(l.args[0], env, fn, depth)
                if v in (CONTENT, WRONG):
                    n = 0 if self.w == "empty" else 1
                    res = {ast.Eq: n == 0, ast.NotEq: n != 0, ast.Gt: n > 0, ast.GtE: True, ast.Lt: False, ast.LtE: n == 0}.get(type(op_))
                    if res is not None:
                        self.trace.append("%s is %s" % (norm(t), res))
                        return res
            lv, rv = self.ev(l, env, fn, depth), self.ev(r, env, fn, depth)
            if isinstance(op_, (ast.Is, ast.IsNot, ast.Eq, ast.NotEq)) and rv[0] == "const":
                if lv in (CONTENT, WRONG):
                    same = (rv[1] in (b"", bytearray()) and self.w == "empty") if isinstance(op_, (ast.Eq, ast.NotEq)) else False
                elif lv[0] == "const":
                    same = lv[1] == rv[1] if isinstance(op_, (ast.Eq, ast.NotEq)) else (lv[1] is rv[1] or lv[1] == rv[1] and lv[1] in (None, True, False))
                else:
                    _err("get_file: condition %s is outside the analysable fragment" % ast.unparse(t))
                res = same if isinstance(op_, (ast.Is, ast.Eq)) else not same
                self.trace.append("%s is %s" % (norm(t), res))
                return res
            _err("get_file: condition %s is outside the analysable fragment" % ast.unparse(t))
        v = self.ev(t, env, fn, depth)
        if v in (CONTENT, WRONG):
            res = self.w != "empty"
        elif v[0] == "const":
            res = bool(v[1])
        else:
            _err("get_file: condition %s is outside the analysable fragment" % ast.unparse(t))
        self.trace.append("%s is %s" % (norm(t), res))
        return res

    # -- statements
    def block(self, stmts, env, fn, depth):
        for s in stmts:
            self.stmt(s, env, fn, depth)

    def stmt(self, s, env, fn, depth):
        if isinstance(s, ast.Expr):
            if isinstance(s.value, ast.Call):
                self.ev(s.value, env, fn, depth)
        elif isinstance(s, (ast.Assign, ast.AnnAssign)):
            if isinstance(s, ast.AnnAssign) and s.value is None:
                return
            v = self.ev(s.value, env, fn, depth)
            for t in (s.targets if isinstance(s, ast.Assign) else [s.target]):
                if isinstance(t, ast.Name):
                    env[t.id] = v
                elif isinstance(t, ast.Subscript) and self.self_attr(t.value) is not None:
                    self.put(self.self_attr(t.value), self.ev(t.slice, env, fn, depth), v)
                elif isinstance(t, ast.Attribute) and isinstance(t.value, ast.Name) and t.value.id == "self":
                    pass  # plain attribute store: not a keyed container
                else:
                    _err("get_file: assignment target %s is outside the fragment" % norm(t))
        elif isinstance(s, ast.If):
            n0 = len(self.trace)
            res = self.truth(s.test, env, fn, depth)
            del self.trace[n0:]
            self.trace.append("`%s` is %s" % (norm(s.test), res))
            self.block(s.body if res else s.orelse, env, fn, depth)
        elif isinstance(s, ast.Return):
            raise _Returned(self.ev(s.value, env, fn, depth) if s.value is not None else NONE_, s)
        elif isinstance(s, ast.Raise):
            if s.exc is None:
                cur = env.get("$exc")
                if cur is None:
                    _err("get_file: bare raise outside a handler")
                raise _Raised(cur, s)
            e = s.exc.func if isinstance(s.exc, ast.Call) else s.exc
            if isinstance(e, ast.Name) and env.get(e.id, (None,))[0] == "exc":
                raise _Raised(env[e.id][1], s)
            d = dotted(e)
            if not d:
                _err("get_file: raise %s is outside the fragment" % ast.unparse(s))
            raise _Raised(d.split(".")[-1], s)
        elif isinstance(s, ast.Try):
            try:
                try:
                    self.block(s.body, env, fn, depth)
                except _Raised as r:
                    anc = self.mro(r.name)
                    for h in s.handlers:
                        names = _exc_names(h.type)
                        if "<bare>" in names or any(n in anc for n in names):
                            self.trace.append("`except %s` catches %s" % (", ".join(names), r.name))
                            if h.name:
                                env[h.name] = ("exc", r.name)
                            old = env.get("$exc")
                            env["$exc"] = r.name
                            try:
                                self.block(h.body, env, fn, depth)
                            finally:
                                env["$exc"] = old
                            break
                    else:
                        raise
                else:
                    self.block(s.orelse, env, fn, depth)
            finally:
                if s.finalbody:
                    self.block(s.finalbody, env, fn, depth)
        elif isinstance(s, ast.Pass):
            pass
        else:
            _err("get_file: statement `%s` is outside the analysable fragment" % norm(s)[:60])


def _exc_names(t):
    if t is None:
        return ["<bare>"]
    if isinstance(t, ast.Tuple):
        out = []
        for e in t.elts:
            out += _exc_names(e)
        return out
    d = dotted(t)
    return [d.split(".")[-1] if d else ast.unparse(t)]


def check_get_file(sink, world):
    fn = world.fn("get_file")
    params = fn.params()
    if len(params) < 2:
        _err("get_file: no name parameter")
    p = params[1]
    world.require(world.has_class("FileNotPresent"), "class FileNotPresent vanished")
    if fn.yields():
        _err("get_file is a generator (outside the fragment)")
    reads = 0
    worlds = [(w, d, None) for w, d in WORLDS]
    # keyed per-instance storage written while reading an entry: does the key determine the entry?
    probe = FileExec(world, fn, "nonempty")
    try:
        probe.block(fn.node.body, {p: ("name",)}, fn, 0)
    except (_Returned, _Raised):
        pass
    for attr, key, val in probe.writes:
        if val != CONTENT:
            continue
        leaves = []

        def walk(t):
            if t and t[0] == "tuple":
                for x in t[1:]:
                    walk(x)
            else:
                leaves.append(t)
        walk(key)
        if ("name",) in leaves:
            continue  # the key contains the entry name: another name is another key
        if all(x[0] in ("meta", "const") for x in leaves) and any(x[0] == "meta" for x in leaves):
            meta = ", ".join(x[1] for x in leaves if x[0] == "meta")
            worlds.append(("aliased", "the entry exists with content and another entry with the same central-directory %s was read before "
                                      "(self.%s is keyed by that, not by the name)" % (meta, attr), {attr: [(key, WRONG)]}))
        else:
            _err("get_file: self.%s caches entry data under a key that this analysis cannot relate to the entry name" % attr)
    for wname, wdesc, preseed in worlds:
        ex = FileExec(world, fn, "nonempty" if wname == "aliased" else wname, preseed)
        env = {p: ("name",)}
        outcome = None
        try:
            ex.block(fn.node.body, env, fn, 0)
            outcome = ("return", NONE_, fn.node)
        except _Returned as r:
            outcome = ("return", r.value, r.node)
        except _Raised as r:
            outcome = ("raise", r.name, r.node)
        reads += ex.reads
        kind, val, node = outcome
        why = ("; path: " + ", ".join(ex.trace)) if ex.trace else ""
        shown = ("raises %s" % val) if kind == "raise" else "returns %s" % {CONTENT: "the entry's bytes", WRONG: "the bytes of a different entry", NONE_: "None"}.get(val, "const %r" % (val[1],) if val[0] == "const" else "an unknown value")
        construct = "%s [%s]" % (norm(node) if not isinstance(node, ast.FunctionDef) else "falls off the end", wname)
        if val == UNKNOWN and kind == "return":
            _err("get_file: the returned value %s is outside the analysable fragment" % norm(node))
        if wname in ("empty", "nonempty", "aliased"):
            ok = kind == "return" and val == CONTENT
            sink.check("get_file/content", "get_file when %s" % wdesc, ok, fn.qualname, construct,
                       "when %s, get_file(%s) %s instead of returning self.zip.read(%s)%s" % (wdesc, p, shown, p, why), node=node,
                       witness=dict(world=wname, outcome=shown, path=ex.trace), detail="%s -> %s" % (wname, shown))
        elif wname == "absent":
            ok = kind == "raise" and val == "FileNotPresent"
            sink.check("get_file/missing-entry", "get_file when %s" % wdesc, ok, fn.qualname, construct,
                       "when %s, get_file(%s) %s instead of raising FileNotPresent%s" % (wdesc, p, shown, why), node=node,
                       witness=dict(world=wname, outcome=shown, path=ex.trace), detail="%s -> %s" % (wname, shown))
        else:
            ok = kind == "raise" and val != "FileNotPresent"
            sink.check("get_file/only-keyerror", "get_file when %s" % wdesc, ok, fn.qualname, construct,
                       "when %s, get_file(%s) %s -- only the missing-entry KeyError may become FileNotPresent, a damaged entry must not be reported as absent or as data%s"
                       % (wdesc, p, shown, why), node=node, witness=dict(world=wname, outcome=shown, path=ex.trace), detail="%s -> %s" % (wname, shown))
        sink.count("get_file_worlds")
    if not reads:
        _err("get_file: no call self.zip.read(...) is reached (anchor vanished)")
    sink.count("functions")


def check_get_files(sink, world):
    fn = world.fn("get_files")
    e = _single_return(fn)
    names = iter_lang(e, fn, world)
    if getattr(world, "uses_get_files_in_get_files", False):
        _err("get_files is recursive")
    ok = not names.accs and not names.opaque and names.dropped is None and _identity_elt(names)
    what = names.dropped if names.dropped is not None else (names.opaque[0] if names.opaque else (names.conj().label() if names.accs else e))
    sink.check("get_files/unfiltered", "get_files returns zip.namelist() unfiltered", ok, fn.qualname, what,
               "get_files does not return every archive entry name: %s" % norm(what), node=e,
               detail="return value is self.zip.namelist() with no filter")
    sink.count("functions")


def check_zip_origin(sink, world):
    init = world.fn("__init__")
    todo, seen, n = [init], set(), 0
    while todo:
        f = todo.pop()
        if f.qualname in seen or len(seen) > 12:
            continue
        seen.add(f.qualname)
        for a in walk_no_nested(f.node):
            if isinstance(a, ast.Assign) and any(dotted(t) == "self.zip" for t in a.targets):
                ok = isinstance(a.value, ast.Call) and dotted(a.value.func) == "ZipEntry.parse"
                sink.check("get_files/archive", "self.zip is the parsed archive", ok, f.qualname, a,
                           "self.zip is not ZipEntry.parse(<the APK>)", node=a, detail=norm(a))
                n += 1
            elif isinstance(a, ast.Call) and isinstance(a.func, ast.Attribute) and isinstance(a.func.value, ast.Name) and a.func.value.id == "self":
                h = world.info.get("methods", {}).get(a.func.attr)
                if h is not None:
                    hf = Fn("APK." + a.func.attr, h)
                    hf.world = world
                    todo.append(hf)
    sink.count("zip_assignments", n)


class World:
    def __init__(self, fns, info, require):
        self._fns = fns
        self.info = info if isinstance(info, dict) else dict(classes={c: [] for c in info})
        self._classes = set(self.info.get("classes", {}))
        self.require = require
        self.uses_get_files = False
        for f in fns.values():
            f.world = self

    def fn(self, name):
        f = self._fns.get(name)
        if f is None:
            _err("anchor vanished: APK.%s" % name)
        return f

    def has_class(self, n):
        return n in self._classes


FUNCS = ("get_files", "get_file", "get_dex_names", "get_all_dex", "is_multidex", "__init__")


def core(sink, nodes, info, require):
    info = dict(info)
    info["methods"] = dict(info.get("methods", {}), **{k: v for k, v in nodes.items()})
    world = World({k: Fn("APK." + k, v) for k, v in nodes.items()}, info, require)
    check_get_files(sink, world)
    check_zip_origin(sink, world)
    check_get_file(sink, world)
    check_get_dex_names(sink, world)
    check_get_all_dex(sink, world)
    check_is_multidex(sink, world)
    return world


# ---------------------------------------------------------------------------
def run(ctx):
    ctx.explanation = __doc__
    m = ctx.mod(APK)
    cls = m.cls("APK")
    funcs, nodes = {}, {}
    for name in FUNCS:
        f = cls.methods.get(name)
        ctx.require(f is not None, "anchor vanished: APK.%s" % name)
        funcs[f.qualname] = f
        nodes[name] = f.node
        ctx.analysed(f)
    ctx.require(m.resolve_name("KeyError") is None, "the module shadows the builtin KeyError")
    ctx.require(m.imports.get("re") == ("re", None), "`re` is not the standard module in apk/__init__.py")
    zi = m.imports.get("ZipEntry")
    ctx.require(zi is not None and zi[0].startswith("apkInspector"), "ZipEntry is no longer apkInspector's archive reader")
    bad = RL.selfcheck()
    ctx.require(not bad, "regexlang anchor model disagrees with CPython re on %r" % (bad[:3],))
    ctx.ob("regexlang/selfcheck", "anchor model vs CPython re on the checker's own table", True, "13 patterns x 3 operations x 15 subjects agree")
    sink = Sink(ctx, funcs)
    stores = set()
    for n in ast.walk(cls.node):
        if isinstance(n, ast.Attribute) and isinstance(n.ctx, (ast.Store, ast.Del)) and isinstance(n.value, ast.Name) and n.value.id in ("self", "cls", "APK"):
            stores.add(n.attr)
    info = dict(class_name="APK", classes={k: list(c.base_names) for k, c in m.classes.items()}, class_attrs=dict(cls.attrs),
                module_consts=dict(m.assigns), module_funcs={k: f.node for k, f in m.functions.items() if "." not in k}, methods={k: f.node for k, f in cls.methods.items()}, attr_stores=stores)
    core(sink, nodes, info, ctx.require)
    ctx.floor("functions", 5)
    ctx.floor("name_set_sites", 3)
    ctx.floor("language_checks", 3)
    ctx.floor("regex_literals", 1)
    ctx.floor("zip_assignments", 1)
    ctx.floor("get_file_worlds", 4)
    ctx.assume("apkInspector.headers.ZipEntry.read(name) returns the uncompressed bytes of the entry and raises KeyError for a name "
               "that is not in the central directory; ZipEntry.namelist() lists every central-directory name (external package)")
    ctx.assume("reference language for a root-level DEX entry name: fullmatch " + REFERENCE)
    ctx.note("names are str: \\d matches every Unicode decimal digit unless re.ASCII is given")
    if ctx.tier == "thorough":
        _thorough(ctx, nodes, info, sink)


# ---------------------------------------------------------------------------
# thorough tier: in-memory mutation adequacy
# ---------------------------------------------------------------------------
def _clone(nodes):
    """fresh copies of the function nodes.  (copy.deepcopy would follow `_parent` -- which model.Module also sets on the
    shared ast.Load() singleton -- into the whole module tree, so the copy goes through unparse/parse instead.)"""
    out = {}
    for k, v in nodes.items():
        out[k] = v if k == "__init__" else ast.parse(ast.unparse(v)).body[0]
    return out


def _mutate_const(nodes, fname, old, new):
    t = _clone(nodes)
    hit = 0
    for n in ast.walk(t[fname]):
        if isinstance(n, ast.Constant) and n.value == old:
            n.value = new
            hit += 1
    return t if hit else None


def _mutants(nodes):
    out = []  # (label, nodes, breaking?)
    for fname in ("get_dex_names", "is_multidex"):
        pats = [c.args[0].value for c in ast.walk(nodes[fname]) if isinstance(c, ast.Call) and (dotted(c.func) or "").startswith("re.")
                and c.args and isinstance(c.args[0], ast.Constant) and isinstance(c.args[0].value, str)]
        for p in pats:
            for lab, q, brk in (
                ("drop classes.dex (* -> +)", p.replace("*", "+").replace("+)?", "+)"), None),
                ("drop end anchor", p.rstrip("$").replace("\\Z", ""), True),
                ("accept sub-directories", p.replace("^classes", "^(.*/)?classes") if p.startswith("^") else ".*" + p, True),
                ("one digit only", p.replace("\\d*", "\\d?").replace("\\d+", "\\d").replace("[0-9]*", "[0-9]?"), True),
                ("other extension", p.replace("dex", "de[xy]"), True),
                ("non-capturing group", p.replace("(\\d", "(?:\\d"), False),
                ("explicit \\A", ("\\A" + p[1:]) if p.startswith("^") else p, False),
            ):
                if q != p and brk is not None:
                    t = _mutate_const(nodes, fname, p, q)
                    if t:
                        out.append(("%s: %s" % (fname, lab), t, brk))
            if "+" not in p:
                t = _mutate_const(nodes, fname, p, p.replace("*", "+"))
                if t and p.replace("*", "+") != p:
                    out.append(("%s: * -> + loses classes.dex" % fname, t, True))
    # threshold
    t = _clone(nodes)
    for n in ast.walk(t["is_multidex"]):
        if isinstance(n, ast.Compare) and isinstance(n.ops[0], ast.Gt):
            n.ops[0] = ast.GtE()
            out.append(("is_multidex: > -> >=", t, True))
            break
    t = _clone(nodes)
    for n in ast.walk(t["is_multidex"]):
        if isinstance(n, ast.Compare) and isinstance(n.comparators[0], ast.Constant) and n.comparators[0].value == 1:
            n.comparators[0] = ast.Constant(0)
            out.append(("is_multidex: > 0", t, True))
            break
    # get_file
    t = _clone(nodes)
    for n in ast.walk(t["get_file"]):
        if isinstance(n, ast.ExceptHandler) and n.type is not None:
            n.type = ast.Name("Exception", ast.Load())
            out.append(("get_file: except Exception", t, True))
            break
    t = _clone(nodes)
    for n in ast.walk(t["get_file"]):
        if isinstance(n, ast.ExceptHandler):
            n.body = [ast.Return(ast.Constant(b""))]
            out.append(("get_file: handler returns b''", t, True))
            break
    t = _clone(nodes)
    for n in ast.walk(t["get_file"]):
        if isinstance(n, ast.Try):
            t["get_file"].body = [s if s is not n else n.body[0] for s in t["get_file"].body]
            out.append(("get_file: try removed", t, True))
            break
    t = _clone(nodes)
    for n in ast.walk(t["get_file"]):
        if isinstance(n, ast.Call) and dotted(n.func) == "self.zip.read":
            n.args = [ast.Call(ast.Attribute(n.args[0], "lower", ast.Load()), [], [])]
            out.append(("get_file: reads name.lower()", t, True))
            break
    # helper returning a None sentinel: falsy test (empty entry reported absent) vs `is None`
    helper = "def _read_entry(self, filename):\n    try:\n        return self.zip.read(filename)\n    except KeyError:\n        return None"
    for test, brk in (("not buffer", True), ("buffer is None", False)):
        t = _clone(nodes)
        t["_read_entry"] = ast.parse(helper).body[0]
        gf = ast.parse("def get_file(self, filename):\n    buffer = self._read_entry(filename)\n    if %s:\n        raise FileNotPresent(filename)\n    return buffer" % test).body[0]
        t["get_file"] = gf
        out.append(("get_file: helper sentinel tested with `%s`" % test, t, brk))
    # get_files
    t = _clone(nodes)
    r = [n for n in ast.walk(t["get_files"]) if isinstance(n, ast.Return)][0]
    r.value = ast.parse("[n for n in self.zip.namelist() if re.match('[^/]*$', n)]", mode="eval").body
    out.append(("get_files: root-level only", t, True))
    t = _clone(nodes)
    r = [n for n in ast.walk(t["get_files"]) if isinstance(n, ast.Return)][0]
    r.value = ast.parse("self.zip.namelist()[1:]", mode="eval").body
    out.append(("get_files: drops first entry", t, True))
    t = _clone(nodes)
    r = [n for n in ast.walk(t["get_files"]) if isinstance(n, ast.Return)][0]
    r.value = ast.parse("list(self.zip.namelist())", mode="eval").body
    out.append(("get_files: list() copy", t, False))
    # get_all_dex
    t = _clone(nodes)
    for n in ast.walk(t["get_all_dex"]):
        if isinstance(n, ast.For):
            n.iter = ast.parse("self.get_files()", mode="eval").body
            out.append(("get_all_dex: iterates every file", t, True))
            break
    t = _clone(nodes)
    for n in ast.walk(t["get_all_dex"]):
        if isinstance(n, ast.Yield):
            n.value = ast.parse("self.get_file('classes.dex')", mode="eval").body
            out.append(("get_all_dex: always classes.dex", t, True))
            break
    t = _clone(nodes)
    for n in ast.walk(t["get_all_dex"]):
        if isinstance(n, ast.For):
            n.iter = ast.parse("list(self.get_dex_names())", mode="eval").body
            out.append(("get_all_dex: list(get_dex_names())", t, False))
            break
    # is_multidex via get_dex_names (benign w.r.t. today's findings? it changes nothing new)
    t = _clone(nodes)
    r = [n for n in ast.walk(t["is_multidex"]) if isinstance(n, ast.Return)][0]
    r.value = ast.parse("len(list(self.get_dex_names())) >= 2", mode="eval").body
    out.append(("is_multidex: len(list(get_dex_names())) >= 2", t, False))
    return out


def _thorough(ctx, nodes, info, base_sink):
    base = set(base_sink.failed)
    killed = total = silent = btotal = 0
    survivors, noisy = [], []
    for label, mnodes, breaking in _mutants(nodes):
        for v in mnodes.values():
            ast.fix_missing_locations(v)
        s = Sink()
        try:
            core(s, mnodes, info, ctx.require)
            # same criterion as the known-findings protocol: a failing (rule, qualname, construct) key that today's tree does not have
            fired = any(k not in base for k in s.failed)
            err = None
        except AnalysisError as e:
            fired, err = False, str(e)
        if breaking:
            total += 1
            if fired:
                killed += 1
            else:
                survivors.append(label + (" [analysis error: %s]" % err if err else ""))
        else:
            btotal += 1
            if not fired and err is None:
                silent += 1
            else:
                noisy.append(label + (" [analysis error: %s]" % err if err else ""))
        ctx.ob("mutation", label, (fired if breaking else (not fired and err is None)), "breaking" if breaking else "benign")
    ctx.extra["mutants_killed"], ctx.extra["mutants_total"] = killed, total
    ctx.extra["benign_silent"], ctx.extra["benign_total"] = silent, btotal
    if survivors:
        raise AnalysisError("rule lost its teeth: surviving mutants: %s" % "; ".join(survivors))
    if noisy:
        raise AnalysisError("rule fires on benign edits: %s" % "; ".join(noisy))
    ctx.floor("mutants", 12, total)
