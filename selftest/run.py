#!/venv/bin/python
"""Scratch-copy self-test of the checkers (developer tool, not a registered check).

selftest/variants/<PROP>/break_<name>.patch   must make ./check <PROP> exit 1 (VIOLATION)
selftest/variants/<PROP>/benign_<name>.patch  must leave it at exit 0
Each patch is a unified diff relative to the repository root (git diff format).
Optionally the first lines may contain '# expect: <substring>' -- a string that must
occur in the check's output (e.g. the qualname of the broken construct).

usage: selftest/run.py [PROP ...] [-j N]
"""
import argparse
import concurrent.futures as cf
import glob
import os
import py_compile
import shutil
import subprocess
import sys
import tempfile

HERE = os.path.dirname(os.path.abspath(__file__))
VERIF = os.path.dirname(HERE)
REPO = os.environ.get("AGSTATIC_REPO", "/repo")


def one(path):
    prop = os.path.basename(os.path.dirname(path))
    name = os.path.basename(path)
    kind = "break" if name.startswith("break_") else "benign"
    expect = []
    for line in open(path, errors="replace"):
        if line.startswith("# expect:"):
            expect.append(line.split(":", 1)[1].strip())
    tmp = tempfile.mkdtemp(prefix="agst_")
    try:
        shutil.copytree(os.path.join(REPO, "androguard"), os.path.join(tmp, "androguard"),
                        ignore=shutil.ignore_patterns("__pycache__"))
        p = subprocess.run(["patch", "-p1", "-s", "-i", path], cwd=tmp, capture_output=True, text=True)
        if p.returncode != 0:
            return (prop, name, False, "patch does not apply: " + (p.stdout + p.stderr)[:300])
        # the variant must still compile
        changed = [l[6:].strip() for l in open(path, errors="replace") if l.startswith("+++ b/")]
        for c in changed:
            try:
                py_compile.compile(os.path.join(tmp, c), doraise=True, cfile=os.path.join(tmp, "x.pyc"))
            except py_compile.PyCompileError as e:
                return (prop, name, False, "variant does not compile: %s" % e)
        ev = os.path.join(tmp, "ev")
        r = subprocess.run([os.path.join(VERIF, "check"), prop, "--repo", tmp, "--evidence-dir", ev],
                           capture_output=True, text=True, cwd=VERIF)
        out = r.stdout + r.stderr
        want = 1 if kind == "break" else 0
        ok = r.returncode == want
        if ok and kind == "break":
            ok = "VIOLATION property=%s" % prop in out
        msg = "exit=%d (want %d)" % (r.returncode, want)
        for e in expect:
            if e not in out:
                ok = False
                msg += "; output lacks %r" % e
        if not ok:
            msg += "\n" + "\n".join(l for l in out.splitlines() if l.startswith(("FINDING", "VIOLATION", "ANALYSIS", "Traceback")) or "Error" in l)[:1500]
        return (prop, name, ok, msg)
    finally:
        shutil.rmtree(tmp, ignore_errors=True)


def main():
    ap = argparse.ArgumentParser()
    ap.add_argument("props", nargs="*")
    ap.add_argument("-j", type=int, default=16)
    a = ap.parse_args()
    pats = []
    for d in sorted(glob.glob(os.path.join(HERE, "variants", "*"))):
        if a.props and os.path.basename(d) not in a.props:
            continue
        pats += sorted(glob.glob(os.path.join(d, "*.patch")))
    bad = 0
    with cf.ThreadPoolExecutor(a.j) as ex:
        for prop, name, ok, msg in ex.map(one, pats):
            print("%s %-4s %-50s %s" % ("ok  " if ok else "FAIL", prop, name, msg if not ok else ""))
            bad += not ok
    print("%d variants, %d failed" % (len(pats), bad))
    sys.exit(1 if bad else 0)


if __name__ == "__main__":
    main()
