"""Shared abstract models for C10 / C11 (and the units of C08): symbolic evaluation of
`determineNext`, folding of `BasicOPCODES`, and the bounded generic-method model of
`MethodAnalysis._create_basic_block`.  Built on symflow.SymInterp; repository source is
interpreted over opaque atoms, never executed."""
from __future__ import annotations

import ast
import re

from .absint import Sym, Lin, Obj, Raised, explore, show
from .consts import Folder, Ref, Unknown, is_unknown
from .model import ANALYSIS, DEX, AnalysisError, walk_no_nested, norm
from .symflow import SymInterp, SetV, key, mcall, is_marker


# ---------------------------------------------------------------------------
# BasicOPCODES: module-level builder loop
# ---------------------------------------------------------------------------
def _names(node, ctx_type=None):
    out = set()
    for n in ast.walk(node):
        if isinstance(n, ast.Name) and (ctx_type is None or isinstance(n.ctx, ctx_type)):
            out.add(n.id)
    return out


def fold_module_global(repo, folder, mod, name):
    """Abstractly run the module-level statements that build `name` (assignments, the
    builder `for` loop with re.compile / .match on constants, set.add).  -> (value, stmts)"""
    top = [s for s in mod.tree.body if not isinstance(s, (ast.FunctionDef, ast.AsyncFunctionDef, ast.ClassDef, ast.Import, ast.ImportFrom))]
    need = {name}
    chosen = []
    changed = True
    while changed:
        changed = False
        for s in top:
            if s in chosen:
                continue
            stores = _names(s, ast.Store)
            mentioned = _names(s)
            touches = bool(stores & need)
            if not touches and isinstance(s, (ast.Expr, ast.For, ast.While, ast.If, ast.With, ast.Try, ast.AugAssign)):
                touches = bool(mentioned & need) and (name in mentioned)
            if touches:
                chosen.append(s)
                new = (mentioned - need - stores)
                # only module-level names that are assigned at module level matter
                new = {n for n in new if n in mod.assigns or any(n in _names(t, ast.Store) for t in top)}
                if new - need:
                    need |= new
                    changed = True
    chosen.sort(key=lambda s: s.lineno)
    if not chosen:
        raise AnalysisError("anchor vanished: no module-level statement builds %s in %s" % (name, mod.relpath))

    class _F:  # pseudo function for name resolution / locations
        module = mod
        qualname = "<module>"
        cls = None
        node = mod.tree

        @staticmethod
        def loc(n=None):
            return "%s:%s" % (mod.relpath, getattr(n, "lineno", 0))

    def h_method(it, recv, mname, args, kwargs, node, func):
        if isinstance(recv, Sym) and recv.op in ("module", "name") and recv.args and recv.args[0] == "re":
            if mname == "compile" and args and isinstance(args[0], str) and len(args) <= 2 and all(isinstance(a, (str, int)) for a in args):
                return re.compile(*args)  # parsing a regex *literal*
            if mname in ("match", "search", "fullmatch") and len(args) >= 2 and isinstance(args[0], str) and isinstance(args[1], str):
                return getattr(re, mname)(args[0], args[1]) is not None
            raise AnalysisError("%s: re.%s on non-constant operands" % (_F.loc(node), mname))
        if isinstance(recv, re.Pattern):
            if mname in ("match", "search", "fullmatch") and len(args) == 1 and isinstance(args[0], str):
                return getattr(recv, mname)(args[0]) is not None
            raise AnalysisError("%s: regex method %s on a non-constant subject" % (_F.loc(node), mname))
        return NotImplemented

    it = SymInterp(repo, folder, asg={}, hooks={"method": h_method})
    env = {}
    try:
        for s in chosen:
            it.exec_stmt(s, env, _F)
    except Exception as ex:  # Split / Raised: the builder left the constant fragment
        if isinstance(ex, AnalysisError):
            raise
        raise AnalysisError("module-level builder of %s does not fold to a constant (%s: %s)" % (name, type(ex).__name__, ex))
    if name not in env:
        raise AnalysisError("module-level builder of %s assigns nothing" % name)
    return env[name], chosen


def as_int_set(v, what):
    if isinstance(v, SetV):
        items = v.items
    elif isinstance(v, (set, frozenset, list, tuple)):
        items = list(v)
    else:
        raise AnalysisError("%s does not fold to a set (got %s)" % (what, show(v)[:80]))
    out = set()
    for x in items:
        if isinstance(x, bool) or not isinstance(x, int):
            raise AnalysisError("%s has a non-constant member %s" % (what, show(x)[:60]))
        out.add(int(x))
    return out


# ---------------------------------------------------------------------------
# determineNext per opcode
# ---------------------------------------------------------------------------
INS, CUR, METH = Sym("ins"), Sym("cur_idx"), Sym("m")
OFF = mcall(INS, "get_ref_off")      # code units
LEN = mcall(INS, "get_length")       # bytes
BC = mcall(mcall(METH, "get_code"), "get_bc")


def lin(terms, const=0):
    return Lin(dict(terms), const).simplify()


def lin_eq(a, b):
    la, lb = Lin.of(a), Lin.of(b)
    if la is None or lb is None:
        return False
    d = la + lb.scale(-1)
    return not d.terms and d.const == 0


class DNPath:
    def __init__(self, asg, result, it, lookups):
        self.asg = asg
        self.result = result     # list | Raised | other
        self.it = it
        self.lookups = lookups   # [(receiver value, method name, arg value, ast Call node)]


def isa_hook(it, name, callee, args, kwargs, node, func):
    """isinstance(x, C) / isinstance(x, (C1, C2)) -> named atoms isa(x, C)"""
    if name == "isinstance" and isinstance(callee, Sym) and callee.op == "name" and len(args) == 2:
        classes = args[1] if isinstance(args[1], (tuple, list)) else [args[1]]
        if all(isinstance(c, Ref) and c.kind == "class" for c in classes):
            if isinstance(args[0], Obj):
                return any(args[0].cls is not None and args[0].cls.is_subclass_of(c.obj.name) for c in classes)
            for c in classes:
                if it.atom("isa", key(args[0]), c.obj.name):
                    return True
            return False
    return NotImplemented


def determine_next_paths(repo, folder, dn, op):
    """abstract results of determineNext(ins, cur_idx, m) with ins.get_op_value() == op"""
    params = dn.params()
    if len(params) != 3:
        raise AnalysisError("determineNext no longer takes (instruction, cur_idx, method)")

    def run(asg):
        lookups = []

        def h_method(it, recv, name, args, kwargs, node, func):
            if recv == INS and name == "get_op_value" and not args:
                return op
            if isinstance(recv, Sym) and args and name not in ("format", "append", "warning", "debug", "info", "error"):
                lookups.append((recv, name, args[0], node))
            return NotImplemented

        it = SymInterp(repo, folder, asg=asg, hooks={"method": h_method, "call": isa_hook})
        try:
            r = it.call_function(dn, [INS, CUR, METH])
        except Raised as ex:
            r = ex
        return DNPath(dict(asg), r, it, lookups)

    return [p for _, p in explore(run, max_paths=512)]
