"""C13-C16 (and the provenance clause of C40) by *abstract execution on model DEX files*.

`Analysis.__init__`, `Analysis.add`, `Analysis.create_xref` and whatever they call are executed by the shared
interpreter (agstatic/absint.py; nothing of androguard is imported or run) on small model DEX objects defined here:
classes, methods, fields, reference pools and instructions with a concrete opcode, a reference index and a symbolic
byte offset.  Afterwards the *public getters* of the analysis objects are evaluated the same way and the complete
cross-reference state is compared with the state the property prescribes for the model (computed here, independently,
from the Dalvik opcode table of agstatic/spec/dalvik.py).

Because the code is executed and only its results are judged, helper methods, generators, dispatch tables, getattr
through name tables, equivalent opcode tests, get-or-create idioms ... are all the same to the check.  A VIOLATION is
reported only for a positively computed difference (a record that must exist is absent from an exactly evaluated set,
a record exists that must not, a component is a different known object, the analysed code raises); whatever the
interpreter cannot evaluate is an AnalysisError (exit 2).

Scenario families
  F1  one instruction of opcode k (all 256 opcodes + the payload idents) whose reference index is valid in every pool
  F2  invoke variants: internal / external / inherited target, self call, repeated call, array-class targets, sequences
  F3  field variants: own class, other class, undefined field, all read/write opcodes
  F4  class usage: other internal class, external class, the class itself, array types
  F5  strings: repeated, jumbo
  F6  multi DEX: the classes of one model split over 1 / 2 DEX files in both add orders must give the same state
  F7  call graph of the F2 model
"""
from __future__ import annotations

import ast
import collections

from .absint import Interp, Sym, Lin, Obj, Raised, Split, explore, show
from .bits import Bits
from .consts import Folder, Unknown, Ref, EnumVal
from .model import ANALYSIS, DEX, AnalysisError
from .spec import dalvik

OP_DOMAIN = sorted(set(range(256)) | set(dalvik.PAYLOADS))
_CU = {dalvik.CONST_CLASS_OP, dalvik.NEW_INSTANCE_OP}


def spec_pool(k):
    if k in dalvik.INVOKE_OPS:
        return "method"
    if k in _CU:
        return "type"
    if k in dalvik.CONST_STRING_OPS:
        return "string"
    if k in dalvik.FIELD_READ_OPS or k in dalvik.FIELD_WRITE_OPS:
        return "field"
    return None


def op_name(k):
    if k in dalvik.OPCODES:
        return "0x%02x %s" % (k, dalvik.OPCODES[k][0])
    if k in dalvik.PAYLOADS:
        return "0x%04x %s" % (k, dalvik.PAYLOADS[k])
    return "0x%02x (unused)" % k


# ---------------------------------------------------------------------------------------------------------
# model DEX objects (plain python objects; the interpreter reaches them through the attr/method hooks)
# ---------------------------------------------------------------------------------------------------------
class MBase:
    def __repr__(self):
        return self.label


class MField(MBase):
    REAL = "EncodedField"

    def __init__(self, cls, name, typ):
        self.cls, self.name, self.typ = cls, name, typ
        self.label = "%s->%s %s" % (cls.name, name, typ)
        self.class_name = cls.name
        self.access_flags = 0x1
        self.CM = cls.dex.CM

    def m_get_access_flags(self):
        return self.access_flags

    def m_get_class_idx(self):
        return self.cls.dex.classes.index(self.cls)

    def m_get_class_name(self):
        return self.cls.name

    def m_get_name(self):
        return self.name

    def m_get_descriptor(self):
        return self.typ

    def m_get_access_flags_string(self):
        return "public"


class MIns(MBase):
    REAL = None  # the Instruction class depends on the opcode; only the documented getters are modelled

    def m_get_string(self):
        """Instruction21c/31c.get_string(): resolved through ClassManager.get_string, i.e. honouring rename hooks"""
        return self.cm.m_get_string(self.idx)

    def m_get_raw_string(self):
        return self.cm.m_get_raw_string(self.idx)

    def m_get_ref_off(self):
        return Sym("ref_off%d" % self.pos)

    def m_get_kind(self):
        k = dalvik.OPCODES.get(self.op, (None, None, None))[2]
        return {"string": 1, "field": 2, "type": 3, "method": 0}.get(k, -1)

    def __init__(self, method, pos, op, idx):
        self.method, self.pos, self.op, self.idx = method, pos, op, idx
        # byte offset = sum of the (symbolic) lengths of the preceding instructions: the same value whether the analysed
        # code takes it from get_instructions_idx() or accumulates get_length() itself
        t = Lin({}, 0)
        for q in range(pos):
            t = t + Lin.of(Sym("len%d" % q))
        self.off = t.simplify()
        self.label = "ins%d(%s)" % (pos, op_name(op))

    @property
    def cm(self):
        return self.method.cls.dex.CM

    def m_get_op_value(self):
        return self.op

    def m_get_ref_kind(self):
        return self.idx

    def m_get_length(self):
        return Sym("len%d" % self.pos)

    def m_get_name(self):
        return dalvik.OPCODES[self.op][0] if self.op in dalvik.OPCODES else "unused"


class MMethod(MBase):
    REAL = "EncodedMethod"

    def __init__(self, cls, name, proto, has_code=True, access_flags=0x1):
        self.cls, self.name, self.proto = cls, name, list(proto)
        self.ins = []
        self.label = "%s->%s%s" % (cls.name, name, "".join(proto))
        self.has_code = has_code
        self.access_flags = access_flags
        self.CM = cls.dex.CM

    def m_get_class_idx(self):
        return self.cls.dex.classes.index(self.cls)

    def m_is_cached_instructions(self):
        return True

    def m_get_information(self):
        return {}

    def m_is_external(self):
        return False

    def m_get_class_name(self):
        return self.cls.name

    def m_get_name(self):
        return self.name

    def m_get_descriptor(self):
        return "".join(self.proto)

    def m_get_code(self):
        return MCode(self) if self.has_code else None

    def m_get_code_off(self):
        return 0

    def m_get_access_flags_string(self):
        return "public"

    def m_get_access_flags(self):
        return self.access_flags

    def m_get_instructions_idx(self):
        return [(i.off, i) for i in self.ins]

    def m_get_instructions(self):
        return list(self.ins)

    def m_get_length(self):
        return Sym("method_length")

    def m_get_triple(self):
        return (self.cls.name[1:-1], self.name, "".join(self.proto))


class MDCode(MBase):
    def __init__(self, method):
        self.method = method
        self.label = "dcode(%s)" % method.label

    def m_get_instructions(self):
        return list(self.method.ins)

    def m_get_ins_off(self, off):
        for i in self.method.ins:
            if Labeller(None).label(i.off) == Labeller(None).label(off):
                return i
        return None

    def m_get_length(self):
        return Sym("code_length")


class MCode(MBase):
    def __init__(self, method):
        self.method = method
        self.label = "code(%s)" % method.label

    def m_get_bc(self):
        return MDCode(self.method)

    def m_get_tries_size(self):
        return 0

    def m_get_length(self):
        return Sym("code_length")

    def m_get_registers_size(self):
        return 1


class MClass(MBase):
    REAL = "ClassDefItem"

    def __init__(self, dex, name, superclass="Ljava/lang/Object;", access_flags=0x1, interfaces=()):
        self.dex, self.name, self.superclass = dex, name, superclass
        self.methods, self.fields = [], []
        self.label = name
        self.access_flags = access_flags
        self.interfaces = list(interfaces)
        self.CM = dex.CM

    def m_get_access_flags(self):
        return self.access_flags

    def m_get_class_idx(self):
        return self.dex.classes.index(self)

    def m_get_source(self):
        return ""

    def m_get_name(self):
        return self.name

    def m_get_methods(self):
        return list(self.methods)

    def m_get_fields(self):
        return list(self.fields)

    def m_get_class_data_off(self):
        return 0

    def m_get_superclassname(self):
        return self.superclass

    def m_get_interfaces(self):
        return list(self.interfaces)

    def m_get_access_flags_string(self):
        return "public interface abstract" if self.access_flags & 0x200 else "public"


class MHeader(MBase):
    REAL = "HeaderItem"

    def __init__(self, dex):
        self.label = "header(%s)" % dex.label
        self.magic = b"dex\n035\x00"
        self.checksum = 0
        # the SHA-1 field is never verified by androguard or the runtime: tools leave it zeroed, so equal values in
        # different DEX files are legal input
        self.signature = b"\x00" * 20
        self.file_size = 0x70
        self.header_size = 0x70
        self.endian_tag = 0x12345678
        self.link_size = self.link_off = self.map_off = 0
        self.data_size = self.data_off = 0
        self.dex = dex

    def m_get_signature(self):
        return self.signature

    def m_get_checksum(self):
        return self.checksum


class MCM(MBase):
    REAL = "ClassManager"

    def __init__(self, dex):
        self.vm = dex
        self.label = "cm(%s)" % dex.label
        self.hook_strings = {}   # string_id -> replacement text (filled by the set_name() API of methods / fields / classes)

    def m_get_vm(self):
        return self.vm

    def m_get_type(self, idx):
        return self.vm.m_get_cm_type(idx)

    def m_get_method(self, idx):
        return self.vm.m_get_cm_method(idx)

    def m_get_field(self, idx):
        return self.vm.m_get_cm_field(idx)

    def m_get_raw_string(self, idx):
        return self.vm.m_get_cm_string(idx)

    def m_get_string(self, idx):
        if idx in self.hook_strings:
            return self.hook_strings[idx]
        return self.vm.m_get_cm_string(idx)


class MDex(MBase):
    """pools are aligned: every index used by an instruction is valid in every pool"""

    REAL = "DEX"

    def __init__(self, label):
        self.label = label
        self.classes = []
        self.pool = {"method": [], "type": [], "string": [], "field": []}
        self.CM = MCM(self)
        self.version = 35
        self.header = MHeader(self)
        self.api_version = 28
        self.config = None

    def m_get_header_item(self):
        return self.header

    def m_get_api_version(self):
        return self.api_version

    def m_get_all_fields(self):
        return [f for c in self.classes for f in c.fields]

    # ---- reference decoding -------------------------------------------------------
    def _get(self, pool, idx):
        p = self.pool[pool]
        if isinstance(idx, int) and 0 <= idx < len(p):
            return p[idx]
        raise AnalysisError("model: index %r outside the %s pool" % (idx, pool))

    def m_get_cm_type(self, idx):
        return self._get("type", idx)

    def m_get_cm_method(self, idx):
        c, n, p = self._get("method", idx)
        return [c, n, list(p)]

    def m_get_cm_string(self, idx):
        return self._get("string", idx)

    def m_get_cm_field(self, idx):
        c, t, n = self._get("field", idx)
        return [c, t, n]

    # ---- content -------------------------------------------------------------------------
    def m_get_classes(self):
        return list(self.classes)

    def m_get_strings(self):
        return list(self.pool["string"])   # the string table in index order (entries are unique)

    def m_get_hidden_api(self):
        return None

    def m_get_class_manager(self):
        return self.CM

    def m_get_format_type(self):
        return "DEX"

    def m_get_classes_names(self, update=False):
        return [c.name for c in self.classes]

    def m_get_len_classes(self):
        return len(self.classes)

    # definition lookups (get_class, get_encoded_field_descriptor, get_encoded_method_descriptor, ...) are NOT modelled:
    # the code of androguard.core.dex.DEX is executed on this object (see Runner.method_hook)


MODEL_TYPES = (MBase,)


def build(classes, layout):
    """classes: {name: dict(super=, methods=[(name, proto, [(op, ref), ...])], fields=[(name, type)])}
    layout: list of lists of class names = the DEX files.  ref = ('method', cls, name, proto) | ('type', t) |
    ('string', s) | ('field', cls, type, name) | ('all', ...) handled by the caller.  -> list of MDex"""
    dexes = []
    for di, names in enumerate(layout):
        d = MDex("dex%d" % di)
        dexes.append(d)
        for cn in names:
            spec = classes[cn]
            c = MClass(d, cn, spec.get("super", "Ljava/lang/Object;"), spec.get("flags", 0x1), spec.get("interfaces", ()))
            d.classes.append(c)
            for fn, ft in spec.get("fields", []):
                c.fields.append(MField(c, fn, ft))
            for mn, proto, body in spec.get("methods", []):
                m = MMethod(c, mn, proto, has_code=body is not None)
                c.methods.append(m)
                for pos, (op, ref) in enumerate(body or []):
                    idx = _intern(d, ref)
                    m.ins.append(MIns(m, pos, op, idx))
            for raw, new in spec.get("string_hooks", []):
                # the effect of set_name() on a method / field / class whose name has this string id
                d.CM.hook_strings[_intern(d, ("string", raw))] = new
    return dexes


def _fill(pool, i):
    """filler entry i of a pool (unique per index, as the entries of a real DEX table are)"""
    return {"method": ("Lfill/F%d;" % i, "fill", ["()", "V"]), "type": "Lfill/F%d;" % i, "string": "fill%d" % i, "field": ("Lfill/F%d;" % i, "I", "fill")}[pool]


def _intern(d, ref):
    """index of the reference in the aligned pools of d (every pool gets an entry at that index)"""
    entry = {}
    if ref[0] == "all":
        # one index that is meaningful in every pool
        entry = dict(ref[1])
    elif ref[0] == "method":
        entry["method"] = (ref[1], ref[2], list(ref[3]))
    elif ref[0] == "type":
        entry["type"] = ref[1]
    elif ref[0] == "string":
        entry["string"] = ref[1]
    elif ref[0] == "field":
        entry["field"] = (ref[1], ref[2], ref[3])
    for i in range(len(d.pool["method"])):
        if all(d.pool[p][i] == v for p, v in entry.items()) and all(d.pool[p][i] == _fill(p, i) for p in d.pool if p not in entry):
            return i
    n = len(d.pool["method"])
    for p in d.pool:
        v = entry.get(p, _fill(p, n))
        if p in ("string", "type") and v in d.pool[p]:
            # the value already has an index in this table: a second index for it would not be a legal table
            if p not in entry:
                v = _fill(p, n)
            else:
                return _intern_split(d, entry)
        d.pool[p].append(v)
    return n


def _intern_split(d, entry):
    """the entry names a string/type that already has an index: reuse that index if the other pools agree, else error"""
    for p in ("string", "type"):
        if p in entry and entry[p] in d.pool[p]:
            i = d.pool[p].index(entry[p])
            if all(d.pool[q][i] == v for q, v in entry.items()):
                return i
    raise AnalysisError("model: reference %r cannot be given an index of its own" % (entry,))


# ---------------------------------------------------------------------------------------------------------
# interpreter with hooks for the model objects and for python containers
# ---------------------------------------------------------------------------------------------------------
class _NTFactory:
    """model of collections.namedtuple(name, fields)"""

    def __init__(self, name, fields):
        self.name, self.fields = name, list(fields)
        self.label = "namedtuple %s" % name


class _NT(tuple):
    """instance of a model namedtuple: a tuple whose fields are also attributes"""
    _nt_fields = ()

    def field(self, name):
        return self[self._nt_fields.index(name)]


class _OpCallable:
    """operator.methodcaller / attrgetter / itemgetter"""

    def __init__(self, kind, args, kwargs=None):
        self.kind, self.args, self.kwargs = kind, list(args), dict(kwargs or {})
        self.label = "operator.%s%r" % (kind, tuple(args))


class _Identity:
    """a decorator that returns the function unchanged on the model (functools.lru_cache(...) / cache: the memoised
    function computes the same values; whether the cache makes results history dependent is the statefx pass's question)"""
    label = "identity decorator"


class _Graph:
    """model of networkx.DiGraph (only what get_call_graph needs)"""

    def __init__(self):
        self.nodes, self.edges = {}, []
        self.label = "DiGraph"


class XInterp(Interp):
    """the shared interpreter silently returns an opaque value beyond its call depth (6); on the model every call is
    executed (own bound of 80 nested calls, beyond it: AnalysisError), dict comprehensions are evaluated"""
    _xdepth = 0

    def call_function(self, func, args, kwargs=None, recv=None):
        self._xdepth += 1
        if self._xdepth > 80:
            self._xdepth -= 1
            raise AnalysisError("model run: more than 80 nested calls (at %s)" % func.qualname)
        saved = self.depth
        self.depth = 0
        try:
            return super().call_function(func, args, kwargs, recv)
        finally:
            self.depth = saved
            self._xdepth -= 1

    def call_value(self, callee, name, args, kwargs, e, env, func):
        r = super().call_value(callee, name, args, kwargs, e, env, func)
        if isinstance(r, Sym) and r.op == "call":
            raise AnalysisError("%s: the call %s is not evaluated on the model (callee %s)" % (func.loc(e) if func is not None else "?", ast.unparse(e)[:80] if e is not None else name, show(callee)[:60]))
        return r

    def call_method(self, recv, name, args, kwargs, e, env, func):
        r = super().call_method(recv, name, args, kwargs, e, env, func)
        if isinstance(r, Sym) and r.op == "call":
            raise AnalysisError("%s: the method call %s is not evaluated on the model (receiver %s)" % (func.loc(e) if func is not None else "?", ast.unparse(e)[:80] if e is not None else name, show(recv)[:60]))
        return r

    def eval(self, e, env, func):
        if isinstance(e, ast.DictComp):
            return self._dictcomp(e, env, func)
        if isinstance(e, (ast.List, ast.Tuple)) and any(isinstance(x, ast.Starred) for x in e.elts):
            # [*a, b]: the starred parts are expanded (the shared interpreter would keep them as one opaque element)
            out = []
            for x in e.elts:
                if isinstance(x, ast.Starred):
                    seq = self.concrete_iter(self.eval(x.value, env, func))
                    if seq is None:
                        raise AnalysisError("%s: starred expression over a non-concrete sequence (%s)" % (func.loc(e), ast.unparse(x.value)[:60]))
                    out.extend(seq)
                else:
                    out.append(self.eval(x, env, func))
            return out if isinstance(e, ast.List) else tuple(out)
        if isinstance(e, ast.Set):
            out = set()
            for x in e.elts:
                v = self.eval(x, env, func)
                if isinstance(v, Bits) and v.is_const():
                    v = v.value()
                try:
                    out.add(v)
                except TypeError:
                    raise Raised("TypeError", e, "unhashable")
            return out
        return super().eval(e, env, func)

    def _dictcomp(self, e, env, func):
        out = {}

        def rec(i, env2):
            if i == len(e.generators):
                k = self.eval(e.key, env2, func)
                if isinstance(k, Bits) and k.is_const():
                    k = k.value()
                try:
                    hash(k)
                except TypeError:
                    raise AnalysisError("%s: unhashable key in a dict comprehension" % func.loc(e))
                out[k] = self.eval(e.value, env2, func)
                return
            g = e.generators[i]
            seq = self.concrete_iter(self.eval(g.iter, env2, func))
            if seq is None:
                raise AnalysisError("%s: dict comprehension over a symbolic sequence (%s)" % (func.loc(e), ast.unparse(g.iter)[:60]))
            for item in seq:
                env3 = dict(env2)
                self.assign(g.target, item, env3, func)
                if all(self.truth(self.eval(c, env3, func), c, func) for c in g.ifs):
                    rec(i + 1, env3)
        rec(0, dict(env))
        return out

    def unknown(self, v, node, func):
        raise AnalysisError("%s: condition %s does not evaluate on the model (%s)" % (func.loc(node), ast.unparse(node)[:80], show(v)[:80]))

    def truth(self, v, node, func):
        # python semantics: an object is falsy if its class defines __bool__ / __len__ and that says so
        if isinstance(v, Obj) and v.cls is not None:
            fb = v.cls.lookup("__bool__")
            if fb is not None:
                return self.truth(self.call_function(fb, [], recv=v), node, func)
            fl = v.cls.lookup("__len__")
            if fl is not None:
                n = self.call_function(fl, [], recv=v)
                if isinstance(n, Bits) and n.is_const():
                    n = n.value()
                if not isinstance(n, int):
                    raise AnalysisError("%s: __len__ of %s does not evaluate on the model" % (func.loc(node), v.cls.name))
                return n != 0
            return True
        if isinstance(v, MBase):
            return True
        if isinstance(v, (set, frozenset, dict, list, tuple, str, bytes)):
            return len(v) > 0
        return super().truth(v, node, func)

    # nothing may be lost silently: a loop over / a store into something the model does not represent is an error
    def exec_for(self, s, env, func):
        from .absint import _Break, _Continue
        it = self.eval(s.iter, env, func)
        seq = self.concrete_iter(it)
        if seq is None:
            raise AnalysisError("%s: loop over %s, which is not a concrete sequence on the model" % (func.loc(s), show(it)[:80]))
        broke = False
        for item in seq:
            super().assign(s.target, item, env, func) if isinstance(s.target, (ast.Name, ast.Tuple, ast.List)) else self.assign(s.target, item, env, func)
            try:
                self.exec_block(s.body, env, func)
            except _Break:
                broke = True
                break
            except _Continue:
                continue
        if not broke:
            self.exec_block(s.orelse, env, func)

    def assign(self, t, v, env, func):
        if isinstance(t, ast.Attribute):
            o = self.eval(t.value, env, func)
            if isinstance(o, MBase):
                setattr(o, self.mangle(t.attr, func), v)   # e.g. a cache the real class keeps on the object
                return
            if not isinstance(o, Obj):
                raise AnalysisError("%s: attribute store on %s" % (func.loc(t), show(o)[:60]))
            o.attrs[self.mangle(t.attr, func)] = v
            return
        if isinstance(t, ast.Subscript):
            o = self.eval(t.value, env, func)
            k = self.eval(t.slice, env, func)
            if isinstance(k, Bits) and k.is_const():
                k = k.value()
            if isinstance(o, dict):
                try:
                    o[k] = v
                except TypeError:
                    raise Raised("TypeError", t, "unhashable key")
                return
            if isinstance(o, list) and isinstance(k, int):
                try:
                    o[k] = v
                except IndexError:
                    raise Raised("IndexError", t)
                return
            raise AnalysisError("%s: item store on %s" % (func.loc(t), show(o)[:60]))
        return super().assign(t, v, env, func)

    def _comp(self, e, env, func, kind):
        out = []

        def rec(i, env2):
            if i == len(e.generators):
                out.append(self.eval(e.elt, env2, func))
                return
            g = e.generators[i]
            seq = self.concrete_iter(self.eval(g.iter, env2, func))
            if seq is None:
                raise AnalysisError("%s: comprehension over a symbolic sequence (%s)" % (func.loc(e), ast.unparse(g.iter)[:60]))
            for item in seq:
                env3 = dict(env2)
                self.assign(g.target, item, env3, func)
                if all(self.truth(self.eval(c, env3, func), c, func) for c in g.ifs):
                    rec(i + 1, env3)
        rec(0, dict(env))
        return set(out) if kind == "set" else out


class Runner:
    def __init__(self, repo):
        self.repo = repo
        self.folder = Folder(repo)
        self.ana = repo.mod(ANALYSIS)
        self.A = self.ana.cls("Analysis")
        self.inline = {"*module*"} | {f.qualname for f in self.ana.functions.values()}
        self.it = None
        self.touched = set()   # functions of the real DEX classes that were executed on model objects

    # ---- hooks ---------------------------------------------------------------------------------------
    def attr_hook(self, it, base, attr, func):
        if isinstance(base, MODEL_TYPES):
            if hasattr(base, "m_" + attr):
                raise AnalysisError("model: bound method %s.%s taken as a value" % (type(base).__name__, attr))
            if attr.startswith("m_"):
                raise AnalysisError("model: %s has no attribute %s" % (type(base).__name__, attr))
            if hasattr(base, attr):
                return getattr(base, attr)
            # an attribute the real class initialises / resets with a constant (caches: None / {} / []), in __init__ or a
            # reset method it calls: the unique constant assigned to it anywhere in the class is its initial value
            rc = self.real_class(base)
            if rc is not None:
                vals = []
                for c in rc.mro():
                    for f in c.methods.values():
                        for n in ast.walk(f.node):
                            if isinstance(n, ast.Assign) and len(n.targets) == 1 and isinstance(n.targets[0], ast.Attribute) \
                                    and isinstance(n.targets[0].value, ast.Name) and n.targets[0].value.id == "self":
                                nm = n.targets[0].attr
                                if nm.startswith("__") and not nm.endswith("__"):
                                    nm = "_%s%s" % (c.name.lstrip("_"), nm)
                                if nm != attr:
                                    continue
                                if isinstance(n.value, ast.Constant):
                                    vals.append(("c", repr(n.value.value), n.value.value))
                                elif isinstance(n.value, ast.Dict) and not n.value.keys:
                                    vals.append(("d", "{}", None))
                                elif isinstance(n.value, ast.List) and not n.value.elts:
                                    vals.append(("l", "[]", None))
                consts = {v[:2] for v in vals if v[0] == "c"}
                if len(consts) == 1:
                    v = [x for x in vals if x[0] == "c"][0][2]
                    setattr(base, attr, v)
                    return v
                if not consts and vals and len({v[:2] for v in vals}) == 1:
                    v = {} if vals[0][0] == "d" else []
                    setattr(base, attr, v)
                    return v
            raise AnalysisError("model: %s has no attribute %s" % (type(base).__name__, attr))
        if isinstance(base, _NT):
            if attr in base._nt_fields:
                return base.field(attr)
            raise Raised("AttributeError", None, attr)
        if isinstance(base, Sym) and base.op == "module" and base.args[0] == "collections":
            return Sym("modattr", "collections", attr)
        if isinstance(base, (Obj, Ref)):
            cls = base.cls if isinstance(base, Obj) else (base.obj if base.kind == "class" else None)
            if cls is not None and not (isinstance(base, Obj) and attr in base.attrs) and cls.lookup(attr) is None:
                a = None
                for c in cls.mro():
                    if attr in c.attrs:
                        a = (c, c.attrs[attr])
                        break
                if a is not None and not self.folder.is_enum(a[0]):
                    v = self.folder.fold(a[1], a[0].module)
                    if isinstance(v, Unknown) or _has_unknown(v):
                        # a class-level table naming functions of the class body: evaluate it in the class scope
                        from .offset_model import _ModFunc
                        env = {n: Ref("func", f) for n, f in a[0].methods.items()}
                        for n2, e2 in a[0].attrs.items():
                            if n2 != attr and n2 not in env:
                                v2 = self.folder.fold(e2, a[0].module)
                                if not (isinstance(v2, Unknown) or _has_unknown(v2)):
                                    env[n2] = v2
                        return it.eval(a[1], env, _ModFunc(a[0].module))
        if isinstance(base, Obj) and base.cls is not None and attr not in base.attrs:
            f = base.cls.lookup(attr)
            if f is not None and any((isinstance(d, ast.Name) and d.id in ("property", "cached_property")) or (isinstance(d, ast.Attribute) and d.attr == "cached_property")
                                     for d in f.node.decorator_list):
                return it.call_function(f, [], recv=base)
            if f is None and base.cls.lookup_attr(attr) is None and base.cls.module is self.ana:
                raise Raised("AttributeError", None, "'%s' object has no attribute '%s'" % (base.cls.name, attr))
        return NotImplemented

    def real_class(self, recv):
        rn = getattr(recv, "REAL", None)
        if not rn:
            return None
        for m in (self.repo.mod(DEX), self.ana):
            if rn in m.classes:
                return m.classes[rn]
        return None

    def method_hook(self, it, recv, name, args, kwargs, e, func):
        if isinstance(recv, MODEL_TYPES):
            m = getattr(recv, "m_" + name, None)
            if m is not None:
                try:
                    return m(*args, **(kwargs or {}))
                except TypeError as ex:
                    raise AnalysisError("model: %s.%s%r: %s" % (type(recv).__name__, name, tuple(args), ex))
            # not a primitive of the model: execute the method of the real class on the model object
            rc = self.real_class(recv)
            f = rc.lookup(name) if rc is not None else None
            if f is None:
                raise AnalysisError("model: %s.%s() is not modelled (called at %s)" % (type(recv).__name__, name, func.loc(e)))
            self.touched.add((f.module.relpath, f.qualname))
            return it.call_function(f, args, kwargs, recv=recv)
        if isinstance(recv, Obj) and recv.cls is not None and recv.cls.name == "MethodAnalysis" and name == "_create_basic_block":
            return None  # basic blocks of the model methods are not built (irrelevant to the cross-references; C10/C11/C40 decide them)
        if isinstance(recv, _Graph):
            return self.graph_method(recv, name, args, kwargs)
        if isinstance(recv, Sym) and recv.op in ("module", "name") and recv.args and isinstance(recv.args[0], str):
            mod = recv.args[0]
            if mod == "time":
                return 0
            if mod == "operator" and name in ("methodcaller", "attrgetter", "itemgetter") and args:
                return _OpCallable(name, args, kwargs)
            if mod == "binascii" and name in ("hexlify", "unhexlify", "b2a_hex", "a2b_hex") and len(args) == 1 and isinstance(args[0], (bytes, str)):
                import binascii as _b
                return getattr(_b, name)(args[0])
            if mod in ("nx", "networkx") and name in ("DiGraph", "MultiDiGraph"):
                return _Graph()
            if mod == "collections" and name == "defaultdict":
                return self.defaultdict(args)
            if mod == "collections" and name == "namedtuple" and len(args) >= 2 and isinstance(args[0], str):
                fields = args[1].replace(",", " ").split() if isinstance(args[1], str) else [x for x in self.seq(args[1])]
                if all(isinstance(x, str) for x in fields):
                    return _NTFactory(args[0], fields)
            if mod == "itertools" and name == "chain":
                return [x for a in args for x in self.seq(a)]
            if mod == "re" and name in ("match", "search", "fullmatch") and len(args) >= 2 and all(isinstance(a, str) for a in args[:2]):
                import re as _re
                return getattr(_re, name)(args[0], args[1]) is not None
            if mod == "re":
                raise AnalysisError("model: %s.%s%s is not evaluated" % (mod, name, show(tuple(args))[:60]))
        if isinstance(recv, Sym) and ((recv.op == "modattr" and recv.args[:2] == ("itertools", "chain")) or
                                      (recv.op == "attr" and len(recv.args) == 2 and recv.args[1] == "chain" and "itertools" in show(recv.args[0]))) and name == "from_iterable" and len(args) == 1:
            return [x for a in self.seq(args[0]) for x in self.seq(a)]
        if isinstance(recv, Sym) and recv.op == "name" and recv.args and recv.args[0] == "chain" and name == "from_iterable" and len(args) == 1:
            return [x for a in self.seq(args[0]) for x in self.seq(a)]   # from itertools import chain
        if isinstance(recv, Sym) and "logger" in show(recv)[:40]:
            return None
        if isinstance(recv, (set, frozenset, dict, list, tuple, str, bytes)):
            r = self.container_method(recv, name, args, kwargs, e, func)
            if r is not NotImplemented:
                return r[0]
            if not hasattr(recv, name):
                raise Raised("AttributeError", e, "'%s' object has no attribute '%s'" % (type(recv).__name__, name))
            raise AnalysisError("model: %s.%s%s is not modelled (%s)" % (type(recv).__name__, name, show(tuple(args))[:60], func.loc(e)))
        if isinstance(recv, Obj) and recv.cls is not None and recv.cls.lookup(name) is None and name not in recv.attrs:
            a = recv.cls.lookup_attr(name)
            if isinstance(a, ast.Name) and recv.cls.lookup(a.id) is not None:  # class-level alias:  get_class = get_vm_class
                return it.call_function(recv.cls.lookup(a.id), args, kwargs, recv=recv)
        return NotImplemented

    def seq(self, v):
        if isinstance(v, (list, tuple, set, frozenset)):
            return list(v)
        if isinstance(v, dict):
            return list(v)
        raise AnalysisError("model: iteration over %s" % show(v)[:80])

    def defaultdict(self, args):
        fac = args[0] if args else None
        if isinstance(fac, Sym) and fac.op == "name" and fac.args[0] in ("set", "list", "dict", "int"):
            return collections.defaultdict({"set": set, "list": list, "dict": dict, "int": int}[fac.args[0]])
        if fac is None:
            return collections.defaultdict()
        raise AnalysisError("model: defaultdict(%s)" % show(fac)[:40])

    def hashable(self, k):
        if isinstance(k, Bits) and k.is_const():
            k = k.value()
        if isinstance(k, (list, dict, set)):
            raise Raised("TypeError", None, "unhashable")
        if isinstance(k, tuple):
            return tuple(self.hashable(x) for x in k)
        return k

    def container_method(self, recv, name, args, kwargs, e, func):
        H = self.hashable
        if isinstance(recv, set):
            if name == "add" and len(args) == 1:
                recv.add(H(args[0]))
                return (None,)
            if name == "update":
                for a in args:
                    recv.update(H(x) for x in self.seq(a))
                return (None,)
            if name == "discard" and len(args) == 1:
                recv.discard(H(args[0]))
                return (None,)
            if name == "remove" and len(args) == 1:
                if H(args[0]) not in recv:
                    raise Raised("KeyError", e, show(args[0]))
                recv.remove(H(args[0]))
                return (None,)
            if name == "copy":
                return (set(recv),)
            if name in ("union", "intersection", "difference") and len(args) == 1:
                return (getattr(recv, name)(set(H(x) for x in self.seq(args[0]))),)
        if isinstance(recv, dict):
            if name == "get" and args:
                return (recv.get(H(args[0]), args[1] if len(args) > 1 else None) if H(args[0]) in recv or not isinstance(recv, collections.defaultdict)
                        else (args[1] if len(args) > 1 else None),)
            if name == "setdefault" and args:
                return (recv.setdefault(H(args[0]), args[1] if len(args) > 1 else None),)
            if name == "items" and not args:
                return (list(recv.items()),)
            if name == "keys" and not args:
                return (list(recv.keys()),)
            if name == "values" and not args:
                return (list(recv.values()),)
            if name == "pop" and args:
                k = H(args[0])
                if k in recv:
                    return (recv.pop(k),)
                if len(args) > 1:
                    return (args[1],)
                raise Raised("KeyError", e, show(k))
            if name == "update" and len(args) <= 1:
                if args and isinstance(args[0], dict):
                    recv.update(args[0])
                elif args:
                    for pair in self.seq(args[0]):
                        if not (isinstance(pair, (tuple, list)) and len(pair) == 2):
                            raise AnalysisError("model: dict.update with %s" % show(pair)[:60])
                        recv[H(pair[0])] = pair[1]
                for k2, v2 in (kwargs or {}).items():
                    recv[k2] = v2
                return (None,)
            if name == "__contains__" and len(args) == 1:
                return (H(args[0]) in recv,)
            if name == "copy":
                return (dict(recv),)
        if isinstance(recv, list):
            if name == "append" and len(args) == 1:
                recv.append(args[0])
                return (None,)
            if name == "extend" and len(args) == 1:
                recv.extend(self.seq(args[0]))
                return (None,)
            if name == "insert" and len(args) == 2 and isinstance(args[0], int):
                recv.insert(args[0], args[1])
                return (None,)
            if name == "pop":
                try:
                    return (recv.pop(*args),)
                except IndexError:
                    raise Raised("IndexError", e)
            if name == "index" and len(args) == 1:
                for i, x in enumerate(recv):
                    if x is args[0] or (type(x) is type(args[0]) and x == args[0]):
                        return (i,)
                raise Raised("ValueError", e)
            if name == "copy":
                return (list(recv),)
        if isinstance(recv, (str, bytes)):
            if all(isinstance(a, (str, int, tuple, bytes)) for a in args) and not kwargs and hasattr(recv, name):
                try:
                    return (getattr(recv, name)(*args),)
                except Exception as ex:
                    raise Raised(type(ex).__name__, e, str(ex))
            if name == "join" and len(args) == 1:
                xs = self.seq(args[0])
                if all(isinstance(x, str) for x in xs):
                    return (recv.join(xs),)
            if name == "format":
                return ("<formatted>",)
        if isinstance(recv, tuple) and name in ("index", "count"):
            return (getattr(recv, name)(*args),)
        return NotImplemented

    def graph_method(self, g, name, args, kwargs):
        if name == "add_node" and args:
            g.nodes.setdefault(args[0], dict(kwargs or {}))
            return None
        if name == "add_edge" and len(args) >= 2:
            for n in args[:2]:
                g.nodes.setdefault(n, {})
            if (args[0], args[1]) not in g.edges:
                g.edges.append((args[0], args[1]))
            return None
        if name == "add_edges_from" and args:
            for ed in self.seq(args[0]):
                ed = tuple(ed) if isinstance(ed, (list, tuple)) else None
                if ed is None or len(ed) < 2:
                    raise AnalysisError("model: add_edges_from element %s" % show(ed))
                self.graph_method(g, "add_edge", list(ed[:2]), {})
            return None
        if name == "add_nodes_from" and args:
            for n in self.seq(args[0]):
                if isinstance(n, tuple) and len(n) == 2 and isinstance(n[1], dict):
                    g.nodes.setdefault(n[0], dict(n[1]))
                else:
                    g.nodes.setdefault(n, dict(kwargs or {}))
            return None
        if name == "has_edge" and len(args) == 2:
            return (args[0], args[1]) in g.edges
        if name == "has_node" and len(args) == 1:
            return args[0] in g.nodes
        if name in ("__contains__",) and len(args) == 1:
            return args[0] in g.nodes
        raise AnalysisError("model: DiGraph.%s is not modelled" % name)

    def apply(self, it, f, args, e, func):
        """call a callable value (function reference, lambda, bound method, operator.* object, model factory)"""
        r = self.call_hook(it, None, f, list(args), {}, e, func)
        if r is NotImplemented:
            r = it.call_value(f, None, list(args), {}, e, {}, func)
        return r

    def call_hook(self, it, name, callee, args, kwargs, e, func):
        if name == "isinstance" and len(args) == 2:
            v, t = args
            ts = list(t) if isinstance(t, (tuple, list)) else [t]
            if all(isinstance(x, Ref) and x.kind == "class" for x in ts):
                if isinstance(v, Obj) and v.cls is not None:
                    return any(v.cls.is_subclass_of(x.obj.name) for x in ts)
                if v is None or isinstance(v, MODEL_TYPES + (int, str, list, tuple, dict, set)):
                    return False
            if all(isinstance(x, Sym) and x.op == "name" for x in ts):
                tn = {x.args[0] for x in ts}
                py = {"str": str, "int": int, "list": list, "tuple": tuple, "dict": dict, "set": set}
                if tn <= set(py) and not isinstance(v, (Sym, Lin, Bits)):
                    return isinstance(v, tuple(py[x] for x in tn)) and not (isinstance(v, bool) and "int" in tn)
        if name == "chain" and isinstance(callee, Sym) and callee.op == "name":
            return [x for a in args for x in self.seq(a)]
        if name in ("dict", "list", "set", "tuple", "frozenset"):
            if not args and not kwargs:
                return {"dict": dict, "list": list, "set": set, "tuple": tuple, "frozenset": frozenset}[name]()
            if len(args) == 1 and isinstance(args[0], (list, tuple, set, frozenset, dict)) and not kwargs:
                if name == "dict":
                    return dict(args[0]) if isinstance(args[0], dict) else dict(tuple(x) for x in args[0])
                xs = self.seq(args[0])
                if name in ("set", "frozenset"):
                    xs = [self.hashable(x) for x in xs]
                return {"list": list, "set": set, "tuple": tuple, "frozenset": frozenset}[name](xs)
        if name == "map" and len(args) >= 2:
            seqs = [self.seq(a) for a in args[1:]]
            return [self.apply(it, args[0], list(xs), e, func) for xs in zip(*seqs)]
        if name == "filter" and len(args) == 2:
            out = []
            for x in self.seq(args[1]):
                r = x if args[0] is None else self.apply(it, args[0], [x], e, func)
                if it.truth(r, e, func):
                    out.append(x)
            return out
        if name == "sorted" and len(args) == 1 and isinstance(args[0], (list, tuple, set, frozenset, dict)):
            xs = self.seq(args[0])
            keyf = (kwargs or {}).get("key")
            try:
                ks = [self.apply(it, keyf, [x], e, func) if keyf is not None else x for x in xs]
                if not all(isinstance(k, (int, str, tuple)) for k in ks):
                    raise TypeError
                order = sorted(range(len(xs)), key=lambda i: ks[i], reverse=bool((kwargs or {}).get("reverse", False)))
            except TypeError:
                raise AnalysisError("model: sorted() over values without a concrete order")
            return [xs[i] for i in order]
        if name == "hash" and len(args) == 1 and isinstance(args[0], int) and not isinstance(args[0], bool):
            return hash(args[0])   # deterministic for integers (strings are salted per process: not evaluated)
        if name == "next" and args and isinstance(args[0], list):
            if args[0]:
                return args[0][0]
            if len(args) > 1:
                return args[1]
            raise Raised("StopIteration", e)
        if name in ("any", "all") and len(args) == 1 and isinstance(args[0], (list, tuple)) and all(isinstance(x, bool) for x in args[0]):
            return any(args[0]) if name == "any" else all(args[0])
        if name == "len" and len(args) == 1 and isinstance(args[0], (list, tuple, set, frozenset, dict, str)):
            return len(args[0])
        if name == "iter" and len(args) == 1:
            return self.seq(args[0])
        if name == "divmod" and len(args) == 2 and all(isinstance(a, int) for a in args):
            return divmod(*args)
        if name == "getattr" and len(args) >= 2 and isinstance(args[1], str):
            tgt, nm = args[0], args[1]
            if isinstance(tgt, Obj) and tgt.cls is not None:
                f = tgt.cls.lookup(nm)
                if f is not None:
                    from .absint import Bound
                    return Bound(tgt, f)
                if nm in tgt.attrs:
                    return tgt.attrs[nm]
                if len(args) > 2:
                    return args[2]
                raise Raised("AttributeError", e, nm)
        if isinstance(callee, _Identity) and len(args) == 1:
            return args[0]
        if name in ("methodcaller", "attrgetter", "itemgetter") and args and (name != "methodcaller" or isinstance(args[0], str)):
            return _OpCallable(name, args, kwargs)
        if isinstance(callee, _OpCallable) and len(args) == 1:
            tgt = args[0]
            if callee.kind == "methodcaller":
                r = self.method_hook(it, tgt, callee.args[0], callee.args[1:], callee.kwargs, e, func)
                if r is NotImplemented:
                    r = it.call_method(tgt, callee.args[0], callee.args[1:], callee.kwargs, e, {}, func)
                return r
            if callee.kind == "itemgetter":
                vals = []
                for k in callee.args:
                    r = self.subscript_hook(it, tgt, k, e, func)
                    if r is NotImplemented:
                        if isinstance(tgt, (list, tuple, str)) and isinstance(k, int):
                            r = tgt[k]
                        else:
                            raise AnalysisError("model: itemgetter(%s) on %s" % (show(k), show(tgt)[:40]))
                    vals.append(r)
                return vals[0] if len(vals) == 1 else tuple(vals)
            if callee.kind == "attrgetter":
                vals = []
                for a in callee.args:
                    cur = tgt
                    for part in a.split("."):
                        r = self.attr_hook(it, cur, part, func)
                        if r is NotImplemented:
                            if isinstance(cur, Obj) and part in cur.attrs:
                                r = cur.attrs[part]
                            else:
                                raise AnalysisError("model: attrgetter(%s) on %s" % (a, show(cur)[:40]))
                        cur = r
                    vals.append(cur)
                return vals[0] if len(vals) == 1 else tuple(vals)
        if isinstance(callee, _NTFactory):
            vals = list(args)
            for f in callee.fields[len(vals):]:
                if kwargs and f in kwargs:
                    vals.append(kwargs[f])
                else:
                    raise Raised("TypeError", e, "missing field %s" % f)
            if len(vals) != len(callee.fields):
                raise Raised("TypeError", e, "namedtuple arity")
            t = _NT(vals)
            t._nt_fields = tuple(callee.fields)
            return t
        if isinstance(callee, _Graph):
            raise AnalysisError("model: DiGraph called")
        return NotImplemented

    def compare_hook(self, it, op, a, b, node, func):
        if isinstance(op, (ast.In, ast.NotIn)):
            if isinstance(b, _Graph):
                r = a in b.nodes
                return r if isinstance(op, ast.In) else not r
            if isinstance(b, (set, frozenset, dict)):
                try:
                    r = self.hashable(a) in b
                except Raised:
                    raise
                return r if isinstance(op, ast.In) else not r
            if isinstance(b, (list, tuple)) and not isinstance(a, (Lin, Bits)):
                r = any((x is a) or (not isinstance(x, (Obj, MBase)) and not isinstance(a, (Obj, MBase)) and type(x) is type(a) and x == a) or
                        (isinstance(x, (int, EnumVal)) and isinstance(a, (int, EnumVal)) and int(x) == int(a)) for x in b)
                return r if isinstance(op, ast.In) else not r
            if isinstance(b, str) and isinstance(a, str):
                return (a in b) if isinstance(op, ast.In) else (a not in b)
            return NotImplemented
        if isinstance(op, (ast.Is, ast.IsNot)):
            if isinstance(a, (Obj, MBase, type(None), _Graph)) or isinstance(b, (Obj, MBase, type(None), _Graph)):
                r = a is b
                return r if isinstance(op, ast.Is) else not r
        if isinstance(op, (ast.Eq, ast.NotEq)):
            if isinstance(a, (Obj, MBase)) or isinstance(b, (Obj, MBase)) or a is None or b is None:
                r = a is b
                return r if isinstance(op, ast.Eq) else not r
            if isinstance(a, (str, tuple, list)) and isinstance(b, (str, tuple, list)):
                try:
                    r = a == b
                except Exception:
                    return NotImplemented
                return r if isinstance(op, ast.Eq) else not r
        return NotImplemented

    def subscript_hook(self, it, base, k, e, func):
        if isinstance(base, dict):
            kk = self.hashable(k)
            if isinstance(base, collections.defaultdict):
                return base[kk]
            if kk in base:
                return base[kk]
            raise Raised("KeyError", e, show(kk)[:60])
        return NotImplemented

    def construct_hook(self, it, cls, args, kwargs, e, func):
        if self.folder.is_enum(cls) and len(args) == 1:
            v = args[0]
            if isinstance(v, Bits) and v.is_const():
                v = v.value()
            if isinstance(v, int):
                for m in self.folder.enum_members(cls).values():
                    if int(m) == int(v):
                        return m
                raise Raised("ValueError", e, "%r is not a valid %s" % (v, cls.name))
            return NotImplemented
        if cls.module is self.ana and not (cls.is_subclass_of("Exception")):
            o = Obj(cls, cls.name)
            init = cls.lookup("__init__")
            if init is not None:
                it.call_function(init, args, kwargs, recv=o)
            return o
        return NotImplemented

    def global_hook(self, it, name, func):
        if func is None:
            return NotImplemented
        r = func.module.resolve_name(name)
        if r is not None and r[0] == "const":
            v = self.folder.global_(func.module, name)
            if isinstance(v, Unknown) or _has_unknown(v):
                from .offset_model import _ModFunc
                return it.eval(r[2], {}, _ModFunc(r[1]))
        return NotImplemented

    def hooks(self):
        return {"attr": self.attr_hook, "method": self.method_hook, "call": self.call_hook, "compare": self.compare_hook,
                "subscript": self.subscript_hook, "construct": self.construct_hook, "global": self.global_hook,
                "inline_funcs": self.inline}

    # ---- running ------------------------------------------------------------------------------------------
    def new_interp(self):
        it = XInterp(self.repo, self.folder, asg={}, hooks=self.hooks(), unknown_cond="error")
        self.it = it
        return it

    def call(self, obj, name, *args):
        f = obj.cls.lookup(name)
        if f is None:
            a = obj.cls.lookup_attr(name)
            if isinstance(a, ast.Name):
                f = obj.cls.lookup(a.id)
        if f is None:
            raise AnalysisError("anchor vanished: %s.%s" % (obj.cls.name, name))
        if any(isinstance(d, ast.Name) and d.id == "property" for d in f.node.decorator_list):
            return self.it.call_function(f, [], recv=obj)
        return self.it.call_function(f, list(args), recv=obj)

    def analyse(self, dexes):
        """Analysis(); add(d) for d in dexes; create_xref() -> the Analysis Obj (or Raised)"""
        it = self.new_interp()
        a = Obj(self.A, "analysis")
        try:
            it.call_function(self.A.lookup("__init__"), [], recv=a)
            for d in dexes:
                self.call(a, "add", d)
            self.call(a, "create_xref")
        except Raised as r:
            return r
        except RecursionError:
            raise AnalysisError("model run exceeds the recursion limit")
        return a


def _has_unknown(v):
    if isinstance(v, Unknown):
        return True
    if isinstance(v, (list, tuple, set, frozenset)):
        return any(_has_unknown(x) for x in v)
    if isinstance(v, dict):
        return any(_has_unknown(x) for x in v.values())
    return False


# ---------------------------------------------------------------------------------------------------------
# snapshot of an analysis through its public getters
# ---------------------------------------------------------------------------------------------------------
GETTERS = {
    "ClassAnalysis": ["get_xref_to", "get_xref_from", "get_xref_new_instance", "get_xref_const_class"],
    "MethodAnalysis": ["get_xref_to", "get_xref_from", "get_xref_read", "get_xref_write", "get_xref_new_instance", "get_xref_const_class"],
    "StringAnalysis": ["get_xref_from"],
    "FieldAnalysis": ["get_xref_read", "get_xref_write"],
}


class Snapshot:
    def __init__(self):
        self.records = {}      # (owner label, owner kind, getter) -> set of tuples of labels
        self.objects = collections.Counter()   # label -> number of analysis objects with that label
        self.raised = None

    def diff(self, other):
        out = []
        for k in sorted(set(self.records) | set(other.records), key=repr):
            a, b = self.records.get(k, set()), other.records.get(k, set())
            for t in sorted(a - b, key=repr):
                out.append(("only-left", k, t))
            for t in sorted(b - a, key=repr):
                out.append(("only-right", k, t))
        for l in sorted(set(self.objects) | set(other.objects)):
            if self.objects.get(l, 0) != other.objects.get(l, 0):
                out.append(("count", l, (self.objects.get(l, 0), other.objects.get(l, 0))))
        return out


class Labeller:
    def __init__(self, runner):
        self.r = runner
        self.memo = {}

    def label(self, o):
        if isinstance(o, MBase):
            return o.label
        if isinstance(o, EnumVal):
            return "REF:%s" % o.member
        if isinstance(o, Bits) and o.is_const():
            o = o.value()
        if isinstance(o, (int, str)) or o is None:
            return repr(o)
        if isinstance(o, Sym) and not o.args:
            return str(o.op)
        if isinstance(o, (Lin, Sym)):
            return show(o)
        if isinstance(o, tuple):
            return tuple(self.label(x) for x in o)
        if isinstance(o, Obj):
            if id(o) in self.memo:
                return self.memo[id(o)]
            l = self._label_obj(o)
            self.memo[id(o)] = l
            return l
        raise AnalysisError("snapshot: value %s is outside the model" % show(o)[:80])

    def _label_obj(self, o):
        r = self.r
        cn = o.cls.name if o.cls is not None else "?"
        if cn == "ClassAnalysis":
            inner = r.call(o, "get_vm_class")
            if isinstance(inner, MClass):
                return "C:" + inner.name
            if isinstance(inner, Obj) and inner.cls is not None and inner.cls.name == "ExternalClass":
                return "C:" + str(r.call(inner, "get_name")) + " EXTERNAL"
            if isinstance(inner, MBase):
                return "C:<wraps %s>" % inner.label
            raise AnalysisError("snapshot: ClassAnalysis wraps %s" % show(inner)[:60])
        if cn == "MethodAnalysis":
            inner = r.call(o, "get_method")
            if isinstance(inner, MMethod):
                return "M:" + inner.label
            if isinstance(inner, Obj) and inner.cls is not None and inner.cls.name == "ExternalMethod":
                return "M:%s->%s%s EXTERNAL" % (r.call(inner, "get_class_name"), r.call(inner, "get_name"), r.call(inner, "get_descriptor"))
            if isinstance(inner, MBase):
                return "M:<wraps %s>" % inner.label
            raise AnalysisError("snapshot: MethodAnalysis wraps %s" % show(inner)[:60])
        if cn == "FieldAnalysis":
            inner = r.call(o, "get_field")
            if isinstance(inner, MField):
                return "F:" + inner.label
            if isinstance(inner, MBase):
                return "F:<wraps %s>" % inner.label
            raise AnalysisError("snapshot: FieldAnalysis wraps %s" % show(inner)[:60])
        if cn == "StringAnalysis":
            return "S:%r" % (r.call(o, "get_orig_value"),)
        if cn == "ExternalMethod":
            return "XM:%s->%s%s" % (r.call(o, "get_class_name"), r.call(o, "get_name"), r.call(o, "get_descriptor"))
        if cn == "ExternalClass":
            return "XC:%s" % r.call(o, "get_name")
        raise AnalysisError("snapshot: object of class %s" % cn)


def snapshot(runner, a):
    s = Snapshot()
    if isinstance(a, Raised):
        s.raised = a
        return s
    lab = Labeller(runner)
    objs = []
    try:
        for getter in ("get_classes", "get_methods", "get_strings", "get_fields"):
            res = runner.call(a, getter)
            for o in runner.seq(res):
                if not isinstance(o, Obj):
                    raise AnalysisError("snapshot: Analysis.%s yields %s" % (getter, show(o)[:60]))
                objs.append(o)
        seen = set()
        for o in objs:
            if id(o) in seen:
                continue
            seen.add(id(o))
            l = lab.label(o)
            s.objects[l] += 1
            kind = o.cls.name
            for g in GETTERS.get(kind, []):
                if g == "get_xref_from" and kind in ("StringAnalysis",) or (kind == "FieldAnalysis"):
                    val = runner.call(o, g, True)   # with_offset=True
                else:
                    val = runner.call(o, g)
                key = (l, kind, g)
                recs = s.records.setdefault(key, set())
                if isinstance(val, dict):
                    for k2, vs in val.items():
                        for t in runner.seq(vs):
                            recs.add((lab.label(k2),) + tuple(lab.label(x) for x in t))
                else:
                    for t in runner.seq(val):
                        if not isinstance(t, tuple):
                            raise AnalysisError("snapshot: %s.%s contains %s" % (kind, g, show(t)[:60]))
                        recs.add(tuple(lab.label(x) for x in t))
    except Raised as r:
        raise AnalysisError("snapshot: a getter raises %s" % r)
    return s


# ---------------------------------------------------------------------------------------------------------
# the state the property prescribes (independent reference semantics over the model)
# ---------------------------------------------------------------------------------------------------------
REF_MEMBER = {0x22: "REF_NEW_INSTANCE", 0x1C: "REF_CLASS_USAGE", 0x6E: "INVOKE_VIRTUAL", 0x6F: "INVOKE_SUPER", 0x70: "INVOKE_DIRECT",
              0x71: "INVOKE_STATIC", 0x72: "INVOKE_INTERFACE", 0x74: "INVOKE_VIRTUAL_RANGE", 0x75: "INVOKE_SUPER_RANGE",
              0x76: "INVOKE_DIRECT_RANGE", 0x77: "INVOKE_STATIC_RANGE", 0x78: "INVOKE_INTERFACE_RANGE"}


def expected(dexes, strict_arrays=True):
    """Snapshot prescribed by C13/C14/C15 for the classes of `dexes` analysed together."""
    s = Snapshot()
    classes = {c.name: c for d in dexes for c in d.classes}
    methods = {(m.cls.name, m.name, "".join(m.proto)): m for c in classes.values() for m in c.methods}
    fields = {(f.cls.name, f.name, f.typ): f for c in classes.values() for f in c.fields}
    ext_classes, ext_methods, strings = set(), set(), set()
    for d in dexes:
        strings.update(d.m_get_strings())

    def C(name):
        if name in classes:
            return "C:" + name
        ext_classes.add(name)
        return "C:" + name + " EXTERNAL"

    def M(cn, n, proto):
        k = (cn, n, "".join(proto))
        if k in methods:
            return "M:" + methods[k].label
        C(cn)
        ext_methods.add(k)
        return "M:%s->%s%s EXTERNAL" % k

    def rec(owner, kind, getter, t):
        s.records.setdefault((owner, kind, getter), set()).add(t)

    for c in classes.values():
        cur_c = "C:" + c.name
        for m in c.methods:
            cur_m = "M:" + m.label
            for ins in m.ins:
                k, d, off = ins.op, c.dex, show(ins.off) if not isinstance(ins.off, int) else repr(ins.off)
                off = Labeller(None).label(ins.off)
                pool = spec_pool(k)
                if pool == "method":
                    cn, n, proto = d.pool["method"][ins.idx]
                    tc, tm, ref = C(cn), M(cn, n, proto), "REF:" + REF_MEMBER[k]
                    rec(cur_m, "MethodAnalysis", "get_xref_to", (tc, tm, off))
                    rec(tm, "MethodAnalysis", "get_xref_from", (cur_c, cur_m, off))
                    rec(cur_c, "ClassAnalysis", "get_xref_to", (tc, ref, tm, off))
                    rec(tc, "ClassAnalysis", "get_xref_from", (cur_c, ref, cur_m, off))
                elif pool == "type":
                    t = d.pool["type"][ins.idx]
                    if t == c.name:
                        continue
                    tc, ref = C(t), "REF:" + REF_MEMBER[k]
                    g = "get_xref_new_instance" if k == dalvik.NEW_INSTANCE_OP else "get_xref_const_class"
                    rec(cur_m, "MethodAnalysis", g, (tc, off))
                    rec(tc, "ClassAnalysis", g, (cur_m, off))
                    rec(cur_c, "ClassAnalysis", "get_xref_to", (tc, ref, cur_m, off))
                    rec(tc, "ClassAnalysis", "get_xref_from", (cur_c, ref, cur_m, off))
                elif pool == "string":
                    sv = d.pool["string"][ins.idx]
                    strings.add(sv)
                    rec("S:%r" % (sv,), "StringAnalysis", "get_xref_from", (cur_c, cur_m, off))
                elif pool == "field":
                    cn, typ, n = d.pool["field"][ins.idx]
                    f = fields.get((cn, n, typ))
                    if f is None:
                        continue
                    g = "get_xref_read" if k in dalvik.FIELD_READ_OPS else "get_xref_write"
                    rec("F:" + f.label, "FieldAnalysis", g, (cur_c, cur_m, off))
                    rec(cur_m, "MethodAnalysis", g, (cur_c, f.label, off))
    for c in classes.values():
        s.objects["C:" + c.name] += 1
        for m in c.methods:
            s.objects["M:" + m.label] += 1
        for f in c.fields:
            s.objects["F:" + f.label] += 1
    for n in ext_classes:
        s.objects["C:" + n + " EXTERNAL"] += 1
    for k in ext_methods:
        s.objects["M:%s->%s%s EXTERNAL" % k] += 1
    for sv in strings:
        s.objects["S:%r" % (sv,)] += 1
    return s


# ---------------------------------------------------------------------------------------------------------
# scenarios
# ---------------------------------------------------------------------------------------------------------
PROTO_V = ["()", "V"]
REF_ALL = ("all", {"method": ("LB;", "foo", ["(I)", "V"]), "type": "LB;", "string": "hello", "field": ("LA;", "I", "y")})
EXT = "Lext/E;"
INVOKES = sorted(dalvik.INVOKE_OPS)
FIELD_OPS = sorted(dalvik.FIELD_READ_OPS | dalvik.FIELD_WRITE_OPS)

GROUPS = [("all invoke-kind opcodes", set(dalvik.INVOKE_OPS)), ("all iget*/sget* opcodes", set(dalvik.FIELD_READ_OPS)),
          ("all iput*/sput* opcodes", set(dalvik.FIELD_WRITE_OPS)), ("all field opcodes", set(FIELD_OPS)),
          ("const-string and const-string/jumbo", set(dalvik.CONST_STRING_OPS)), ("new-instance and const-class", set(_CU))]


def ops_str(ops):
    ops = set(ops)
    for name, g in GROUPS:
        if ops == g:
            return name
    xs = sorted(ops)
    if len(xs) > 6:
        return ", ".join(op_name(k) for k in xs[:6]) + ", ... (%d opcodes)" % len(xs)
    return ", ".join(op_name(k) for k in xs)


def base_classes(body_a, body_b=(), flags_a=0x1, hooks=()):
    return {
        "LA;": dict(super="LS;", flags=flags_a, methods=[("m", PROTO_V, [(op, ref) for op, ref, _ in body_a]), ("m2", PROTO_V, []), ("abstract_m", PROTO_V, None)],
                    fields=[("y", "I"), ("y", "J")], string_hooks=list(hooks)),
        "LB;": dict(methods=[("foo", ["(I)", "V"], [(op, ref) for op, ref, _ in body_b]), ("renamed", PROTO_V, []),
                             # two accessors with identical code: the same field is read / written at the same offsets by different methods
                             ("getter_a", ["()", "I"], [(0x60, ("field", "LB;", "I", "x")), (0x67, ("field", "LB;", "I", "x")), (0x1A, ("string", "twin"))]),
                             ("getter_b", ["()", "I"], [(0x60, ("field", "LB;", "I", "x")), (0x67, ("field", "LB;", "I", "x")), (0x1A, ("string", "twin"))])],
                    fields=[("x", "I"), ("x", "J")]),
        # a class that declares fields but no methods (constant holder)
        "LD;": dict(methods=[], fields=[("v", "I")]),
    }


def scenario_bodies():
    S = {}
    S["F1 every opcode"] = [(k, REF_ALL, "") for k in OP_DOMAIN]
    b = []
    for k in INVOKES:
        b += [(k, ("method", "LB;", "foo", ["(I)", "V"]), "internal target"), (k, ("method", "LA;", "m2", PROTO_V), "call into the own class"),
              (k, ("method", EXT, "bar", PROTO_V), "external target"), (k, ("method", "LB;", "inherited", PROTO_V), "method not defined in the internal class"),
              (k, ("method", "LB;", "foo", ["(I)", "V"]), "second call of the internal target"),
              (k, ("method", "LB;", "foo", ["(J)", "V"]), "overload the internal class does not define"),
              (k, ("method", "LA;", "m", PROTO_V), "recursive call of the method itself")]
    S["F2 invoke variants"] = b
    S["F2a invoke on array classes"] = [x for k in INVOKES for x in ((k, ("method", "[LB;", "clone", ["()", "Ljava/lang/Object;"]), "object-array receiver"),
                                                                       (k, ("method", "[I", "clone", ["()", "Ljava/lang/Object;"]), "primitive-array receiver"),
                                                                       (k, ("method", "[[LB;", "clone", ["()", "Ljava/lang/Object;"]), "two-dimensional object-array receiver"),
                                                                       (k, ("method", "[[I", "clone", ["()", "Ljava/lang/Object;"]), "two-dimensional primitive-array receiver"))]
    X, Y, Z = ("method", "LB;", "foo", ["(I)", "V"]), ("method", "[I", "clone", ["()", "Ljava/lang/Object;"]), ("method", EXT, "bar", PROTO_V)
    S["F2s invoke sequence"] = [(0x6E, X, "1st: internal"), (0x6E, Y, "2nd: primitive-array receiver"), (0x6E, Y, "3rd: same reference again"),
                                (0x6E, X, "4th: internal again"), (0x71, Z, "5th: external"), (0x71, Z, "6th: same external again"), (0x6E, X, "7th: internal"),
                                (0x1C, ("type", EXT), "8th: const-class in between"), (0x6E, X, "9th: internal after the const-class"),
                                (0x22, ("type", "LB;"), "10th: new-instance in between"), (0x71, Z, "11th: external after the new-instance")]
    S["F3 field variants"] = [x for k in FIELD_OPS for x in ((k, ("field", "LA;", "I", "y"), "field of the own class"), (k, ("field", "LB;", "I", "x"), "field of another class"),
                                                              (k, ("field", EXT, "I", "z"), "field that is not defined"),
                                                              (k, ("field", "LA;", "J", "y"), "same-named field of another type in the own class"),
                                                              (k, ("field", "LB;", "J", "x"), "same-named field of another type in another class"),
                                                              (k, ("field", "LD;", "I", "v"), "field of a class without methods"))]
    S["F4 class usage"] = [x for k in sorted(_CU) for x in ((k, ("type", "LB;"), "internal class"), (k, ("type", EXT), "external class"),
                                                            (k, ("type", "LA;"), "the class itself"), (k, ("type", "LB;"), "internal class again"))]
    S["F4a const-class on array types"] = [(0x1C, ("type", "[LB;"), "object array"), (0x1C, ("type", "[I"), "primitive array"), (0x1C, ("type", "[LA;"), "array of the class itself"),
                                           (0x1C, ("type", "[[LB;"), "two-dimensional object array"), (0x1C, ("type", "[[I"), "two-dimensional primitive array")]
    S["F5 strings"] = [(0x1A, ("string", "hello"), "const-string"), (0x1B, ("string", "hello"), "jumbo, same string"), (0x1A, ("string", "other"), "other string"),
                       (0x1A, ("string", "hello"), "same string again"), (0x1A, ("string", ""), "the empty string"), (0x1B, ("string", "LA;"), "a string equal to the name of the class")]
    # code inside an interface (static initialiser / default method): scanned like any other code
    S["F8 code in an interface"] = [(0x71, ("method", "LB;", "foo", ["(I)", "V"]), "invoke-static"), (0x1A, ("string", "hello"), "const-string"),
                                    (0x60, ("field", "LA;", "I", "y"), "sget of an own field"), (0x22, ("type", "LB;"), "new-instance"), (0x1C, ("type", EXT), "const-class")]
    # a const-string whose string id is overridden by a rename hook (the literal equals the former name of LB;->renamed):
    # DEX.get_cm_string reads the raw table, Instruction.get_string() the hooked one
    S["F5h const-string with a rename hook on its string id"] = [(0x1A, ("string", "formerName"), "const-string"), (0x1B, ("string", "formerName"), "jumbo"),
                                                                 (0x1A, ("string", "hello"), "unhooked string")]
    return S


SCENARIO_OPTS = {"F8": dict(flags_a=0x601), "F5h": dict(hooks=[("formerName", "renamed")])}

FAMILY_PROPS = {"F1": ("C13", "C14", "C15", "C40"), "F2": ("C13", "C40"), "F2a": ("C13", "C40"), "F2s": ("C13", "C40"), "F3": ("C14", "C40"),
                "F4": ("C15", "C40"), "F4a": ("C15", "C40"), "F5": ("C15", "C40"), "F8": ("C13", "C14", "C15", "C40"), "F5h": ("C15",)}


def diff_props(kind, key, tup):
    """which properties a difference belongs to"""
    if kind == "count":
        l = key
        if l.startswith("F:"):
            return {"C14"}
        if l.startswith("S:"):
            return {"C15"}
        if l.startswith("M:"):
            return {"C13"}
        return {"C13", "C15"}
    owner, okind, getter = key
    if getter in ("get_xref_read", "get_xref_write") or okind == "FieldAnalysis":
        return {"C14"}
    if okind == "StringAnalysis" or getter in ("get_xref_new_instance", "get_xref_const_class"):
        return {"C15"}
    if okind == "MethodAnalysis":
        return {"C13"}
    if okind == "ClassAnalysis":
        refs = [x for x in tup if isinstance(x, str) and x.startswith("REF:")]
        if refs and all(r in ("REF:REF_NEW_INSTANCE", "REF:REF_CLASS_USAGE") for r in refs):
            return {"C15"}
        if refs:
            return {"C13"}
        return {"C13", "C15"}
    return {"C13", "C14", "C15"}


class ScenarioResult:
    def __init__(self, name, body, dexes, got, exp):
        self.name, self.body, self.dexes, self.got, self.exp = name, body, dexes, got, exp


def run_scenario(runner, name, body, layout=None, body_b=()):
    classes = base_classes(body, body_b, **SCENARIO_OPTS.get(name.split()[0], {}))
    dexes = build(classes, layout or [["LA;", "LB;", "LD;"]])
    a = runner.analyse(dexes)
    got = snapshot(runner, a)
    if got.raised is None:
        add_lookup_records(runner, a, dexes, got)
    exp = expected(dexes)
    add_expected_lookups(dexes, exp)
    res = ScenarioResult(name, body, dexes, got, exp)
    res.analysis = a
    return res


def add_lookup_records(runner, a, dexes, snap):
    """what the lookup API returns: Analysis.get_field_analysis(f) / get_method_analysis(m) / get_class_analysis(name)"""
    lab = Labeller(runner)
    try:
        for d in dexes:
            for c in d.classes:
                for f in c.fields:
                    fa = runner.call(a, "get_field_analysis", f)
                    for g in ("get_xref_read", "get_xref_write"):
                        key = ("get_field_analysis(%s)" % f.label, "FieldAnalysis", g)
                        recs = snap.records.setdefault(key, set())
                        if isinstance(fa, Obj):
                            for t in runner.seq(runner.call(fa, g, True)):
                                recs.add(tuple(lab.label(x) for x in t))
                        elif fa is not None:
                            raise AnalysisError("get_field_analysis returns %s" % show(fa)[:60])
                        else:
                            recs.add(("<no FieldAnalysis>",))
    except Raised as r:
        raise AnalysisError("lookup API raises %s on the model" % r)


def add_expected_lookups(dexes, exp):
    for d in dexes:
        for c in d.classes:
            for f in c.fields:
                for g in ("get_xref_read", "get_xref_write"):
                    exp.records[("get_field_analysis(%s)" % f.label, "FieldAnalysis", g)] = set(exp.records.get(("F:" + f.label, "FieldAnalysis", g), set()))


def _off_tags(body, dexes):
    """offset label -> (opcode, variant tag) for the instructions of LA;->m"""
    m = [m for d in dexes for c in d.classes if c.name == "LA;" for m in c.methods if m.name == "m"]
    out = {}
    if m:
        for ins, (op, ref, tag) in zip(m[0].ins, body):
            out[Labeller(None).label(ins.off)] = (op, tag)
    return out


def report_scenario(sink, res, props, func, prop):
    """turn the differences of one scenario into findings of property `prop`; -> number of differences for prop"""
    name = res.name
    fam = name.split()[0]
    if prop not in props:
        return 0
    if res.got.raised is not None and fam == "F1" and getattr(res, "per_op", None) is not None:
        # the all-in-one run raised: one run per opcode tells for which opcodes
        sink.count("scenarios")
        sink.count("prescribed_records", sum(len(v) for v in res.exp.records.values()))
        by_exc = {}
        n = 0
        for k, sub in res.per_op:
            if sub.got.raised is not None:
                by_exc.setdefault(sub.got.raised.exc, (set(), sub.got.raised))[0].add(k)
        for exc, (ops, r) in sorted(by_exc.items()):
            n += 1
            sink.check("model/F1", "%s raises %s" % (name, exc), False, func, "%s: raises %s for %s" % (name, exc, ops_str(ops)),
                       "scenario %s: Analysis.create_xref raises %s (%s) for an instruction with opcode %s" % (name, exc, (r.detail or "")[:100], ops_str(ops)), node=r.node)
        return n
    if res.got.raised is not None:
        r = res.got.raised
        sink.count("scenarios")
        sink.count("prescribed_records", sum(len(v) for v in res.exp.records.values()))
        sink.check("model/" + fam, name, False, func, "%s: raises %s" % (name, r.exc),
                   "scenario %s: Analysis.add / create_xref raise %s on the model (%s)" % (name, r.exc, (r.detail or "")[:120]), node=r.node)
        return 1
    tags = _off_tags(res.body, res.dexes)
    # the other methods of the model that contain instructions (their records are not tagged with LA;->m's instructions)
    others = {"M:" + m.label for d in res.dexes for c in d.classes for m in c.methods if m.ins and not (c.name == "LA;" and m.name == "m")}
    diffs = res.got.diff(res.exp)
    grouped = {}
    n = 0
    nrec = sum(len(v) for v in res.exp.records.values())
    sink.count("scenarios")
    sink.count("prescribed_records", nrec)
    if prop == "C40":
        k = _report_offsets(sink, res, diffs, tags, func)
        sink.ob("offset-provenance", "%s (C40)" % name, k == 0, "%d instruction(s), %d prescribed records: no record deviates from the prescribed state in its offset component only" % (len(res.body), nrec))
        return k
    mine = [d for d in diffs if prop in diff_props(*d)]
    sink.ob("model/" + fam, "%s (%s)" % (name, prop), not mine, "%d instruction(s), %d prescribed records, %d analysis objects: every xref getter returns exactly the prescribed state" % (
        len(res.body), nrec, sum(res.exp.objects.values())))
    for kind, key, tup in diffs:
        if prop != "C40" and prop not in diff_props(kind, key, tup):
            continue
        if kind == "count":
            templ = ("count", key, tup)
            grouped.setdefault(templ, set())
            continue
        ops_here = set()
        t2 = []
        # offsets are tagged with the instruction of LA;->m they belong to -- only for records made by that method
        mine_m = not any(o in tup or key[0] == o for o in others)
        for x in tup:
            if isinstance(x, str) and x in tags and mine_m:
                op, tag = tags[x]
                ops_here.add(op)
                t2.append("@" + (tag or "the instruction"))
            elif isinstance(x, str) and x.startswith("REF:"):
                t2.append("REF_TYPE(op)")
            else:
                t2.append(x)
        templ = (kind, key, tuple(t2))
        grouped.setdefault(templ, set()).update(ops_here)
    if prop == "C40":
        return _report_offsets(sink, res, diffs, tags, func)
    if fam in AGGREGATED:
        return _report_aggregated(sink, res, grouped, func, fam)
    for templ, ops in sorted(grouped.items(), key=repr):
        n += 1
        kind = templ[0]
        if kind == "count":
            _, label, (g, e) = templ
            sink.check("model/" + fam, "%s objects %s" % (name, label), False, func, "%s: %d analysis object(s) for %s, expected %d" % (name, g, label, e),
                       "scenario %s: the analysis holds %d object(s) for %s, the property prescribes exactly %d" % (name, g, label, e))
            continue
        _, (owner, okind, getter), tup = templ
        what = "lacks" if kind == "only-right" else "has the unexpected record"
        shown = "(%s)" % ", ".join(str(x) for x in tup)
        where = "%s.%s()" % (owner, getter) if owner.startswith("get_") else "%s %s.%s()" % (okind, owner, getter)
        sink.check("model/" + fam, "%s %s %s" % (name, where, shown), False, func,
                   "%s: %s %s %s%s" % (name, where, what, shown, (" for " + ops_str(ops)) if ops else ""),
                   "scenario %s: %s %s %s%s -- computed by executing Analysis.add/create_xref on the model DEX and comparing every xref getter with the "
                   "state the property prescribes" % (name, where, what, shown, (" (instructions: %s)" % ops_str(ops)) if ops else ""))
    return n


def _report_offsets(sink, res, diffs, tags, func):
    """C40: a record whose only deviation is its offset component"""
    lacks, extra = {}, {}
    for kind, key, tup in diffs:
        if kind == "count" or not tup:
            continue
        (lacks if kind == "only-right" else extra).setdefault((key, tup[:-1]), []).append(tup[-1])
    n = 0
    for k, offs in sorted(extra.items(), key=repr):
        if k in lacks:
            for got_off in offs:
                want = lacks[k]
                n += 1
                (owner, okind, getter), rest = k
                def nm(o):
                    return ("offset of %s" % op_name(tags[o][0]) + (" (%s)" % tags[o][1] if tags[o][1] else "")) if o in tags else str(o)
                sink.check("offset-provenance", "%s %s.%s" % (res.name, okind, getter), False, func,
                           "%s: %s.%s() records offset %s instead of the instruction's offset" % (res.name, okind, getter, got_off if got_off not in tags else "of another instruction"),
                           "scenario %s: %s %s.%s() records the offset %s where the disassembler's offset of the instruction is %s" % (
                               res.name, okind, owner, getter, nm(got_off), " / ".join(nm(w) for w in want)))
    return n


AGGREGATED = {"F2a", "F2s", "F4a"}


def _report_aggregated(sink, res, grouped, func, fam):
    """one finding per instruction variant (how many records are absent / unexpected) instead of one per record"""
    by_tag = {}
    counts = []
    for templ, ops in grouped.items():
        if templ[0] == "count":
            counts.append("%s: %d instead of %d" % (templ[1], templ[2][0], templ[2][1]))
            continue
        kind, (owner, okind, getter), tup = templ
        tag = next((x for x in tup if isinstance(x, str) and x.startswith("@")), "@?")
        d = by_tag.setdefault(tag, {"lacks": [], "extra": [], "ops": set()})
        d["lacks" if kind == "only-right" else "extra"].append("%s %s.%s() %s" % (okind, owner, getter, "(%s)" % ", ".join(str(x) for x in tup)))
        d["ops"] |= ops
    n = 0
    for tag, d in sorted(by_tag.items()):
        n += 1
        sink.check("model/" + fam, "%s %s" % (res.name, tag), False, func,
                   "%s: %s: %d prescribed record(s) absent, %d unexpected record(s)" % (res.name, tag[1:], len(d["lacks"]), len(d["extra"])),
                   "scenario %s, instruction '%s' (%s): absent: %s; unexpected: %s" % (
                       res.name, tag[1:], ops_str(d["ops"]), "; ".join(sorted(d["lacks"])) or "-", "; ".join(sorted(d["extra"])) or "-"))
    if counts:
        n += 1
        sink.check("model/" + fam, "%s objects" % res.name, False, func, "%s: analysis objects: %s" % (res.name, "; ".join(sorted(counts))),
                   "scenario %s: number of analysis objects differs from what the property prescribes: %s" % (res.name, "; ".join(sorted(counts))))
    return n


# ---- F6: multi DEX ------------------------------------------------------------------------------------------------
def f6_classes():
    """two classes using each other; the k-th instruction of both methods has the same reference *index* in the split
    layouts (aligned pools) but denotes a different item, so state that is keyed by a per-DEX index shows"""
    a = [(0x59, ("field", "LA;", "I", "y")), (0x6E, ("method", "LB;", "foo", ["(I)", "V"])), (0x1A, ("string", "only-in-a")), (0x22, ("type", "LB;")),
         (0x60, ("field", "LB;", "I", "x")), (0x71, ("method", EXT, "bar", PROTO_V)), (0x1A, ("string", "hello")), (0x1C, ("type", "LB;")),
         (0x6E, ("method", "LB;", "foo", ["(I)", "V"]))]
    b = [(0x67, ("field", "LB;", "I", "x")), (0x6E, ("method", "LA;", "m2", PROTO_V)), (0x1B, ("string", "only-in-b")), (0x22, ("type", "LA;")),
         (0x52, ("field", "LA;", "I", "y")), (0x71, ("method", EXT, "bar", PROTO_V)), (0x1A, ("string", "hello")), (0x1C, ("type", EXT)),
         (0x6E, ("method", "LA;", "m2", PROTO_V))]
    return {"LA;": dict(methods=[("m", PROTO_V, a), ("m2", PROTO_V, [])], fields=[("y", "I")]),
            "LB;": dict(methods=[("foo", ["(I)", "V"], b)], fields=[("x", "I")])}


F6_LAYOUTS = [("one DEX", [["LA;", "LB;"]]), ("LA; in the first DEX, LB; in the second", [["LA;"], ["LB;"]]), ("LB; in the first DEX, LA; in the second", [["LB;"], ["LA;"]])]


def run_f6(runner):
    out = []
    for lname, layout in F6_LAYOUTS:
        dexes = build(f6_classes(), layout)
        a = runner.analyse(dexes)
        got = snapshot(runner, a)
        if got.raised is None:
            add_lookup_records(runner, a, dexes, got)
        exp = expected(dexes)
        add_expected_lookups(dexes, exp)
        out.append((lname, dexes, got, exp))
    return out


def report_f6(sink, runs, func, prop):
    """C16: every layout gives the state of the single-DEX layout.  C13/C14/C15: the split layouts give the prescribed
    records.  One finding per layout and kind of record (how many records differ), details in the message."""
    n = 0
    base = runs[0][2]
    for lname, dexes, got, exp in runs:
        if got.raised is not None:
            n += 1
            sink.check("model/F6", "F6 %s" % lname, False, func, "F6 multi DEX (%s): raises %s" % (lname, got.raised.exc),
                       "multi-DEX scenario, layout '%s': Analysis.add / create_xref raise %s" % (lname, got.raised))
    if any(g.raised is not None for _, _, g, _ in runs):
        return n
    for lname, dexes, got, exp in runs[1:]:
        ref = base if prop == "C16" else exp
        groups = {}
        for kind, key, tup in got.diff(ref):
            if prop != "C16" and prop not in diff_props(kind, key, tup):
                continue
            if kind == "count":
                g = groups.setdefault("analysis objects", {"lacks": [], "extra": []})
                g["extra" if tup[0] > tup[1] else "lacks"].append("%s: %d instead of %d" % (key, tup[0], tup[1]))
                continue
            owner, okind, getter = key
            gk = "Analysis.get_field_analysis(..).%s()" % getter if owner.startswith("get_field_analysis") else "%s.%s()" % (okind, getter)
            g = groups.setdefault(gk, {"lacks": [], "extra": []})
            g["lacks" if kind == "only-right" else "extra"].append("%s (%s)" % (owner, ", ".join(str(x) for x in tup)))
        for gk, g in sorted(groups.items()):
            n += 1
            against = "the single-DEX layout" if prop == "C16" else "the prescribed state"
            sink.check("model/F6", "F6 %s %s" % (lname, gk), False, func,
                       "F6 multi DEX (%s): %s: %d record(s) absent, %d additional, compared with %s" % (lname, gk, len(g["lacks"]), len(g["extra"]), against),
                       "the same classes analysed as '%s' %s: %s -- absent: %s; additional: %s" % (
                           lname, "and as one DEX give different results" if prop == "C16" else "deviate from the prescribed state", gk,
                           "; ".join(sorted(g["lacks"])) or "-", "; ".join(sorted(g["extra"])) or "-"))
        sink.ob("model/F6", "F6 %s (%s)" % (lname, prop), not groups, "%d records of the layout agree with %s" % (sum(len(v) for v in got.records.values()), "the single-DEX layout" if prop == "C16" else "the prescribed state"))
    sink.count("layouts_compared", len(runs) - 1)
    return n


# ---- F7: call graph ----------------------------------------------------------------------------------------------
def report_call_graph(sink, runner, res, func):
    """get_call_graph() of the F2 model: an edge caller -> callee exactly where a callee is reported"""
    if res.got.raised is not None:
        return 0
    try:
        g = runner.call(res.analysis, "get_call_graph")
    except Raised as r:
        sink.check("model/F7", "call graph", False, func, "F7 call graph: raises %s" % r.exc, "Analysis.get_call_graph raises %s on the model" % r)
        return 1
    if not isinstance(g, _Graph):
        raise AnalysisError("get_call_graph returns %s" % show(g)[:60])
    lab = Labeller(runner)
    got = set()
    for a, b in g.edges:
        got.add((lab.label(a), lab.label(b)))
    classes = {c.name: c for d in res.dexes for c in d.classes}
    methods = {(m.cls.name, m.name, "".join(m.proto)): m for c in classes.values() for m in c.methods}
    exp = set()
    for c in classes.values():
        for m in c.methods:
            for ins in m.ins:
                if spec_pool(ins.op) == "method":
                    cn, n_, proto = c.dex.pool["method"][ins.idx]
                    k = (cn, n_, "".join(proto))
                    exp.add((m.label, methods[k].label if k in methods else "XM:%s->%s%s" % k))
    n = 0
    for e in sorted(exp - got):
        n += 1
        sink.check("model/F7", "call graph edge %s -> %s" % e, False, func, "F7 call graph: no edge %s -> %s" % e,
                   "get_call_graph() of the invoke model has no edge %s -> %s although the callee is among the method's invoke targets" % e)
    for e in sorted(got - exp):
        n += 1
        sink.check("model/F7", "call graph edge %s -> %s" % e, False, func, "F7 call graph: unexpected edge %s -> %s" % e,
                   "get_call_graph() of the invoke model has an edge %s -> %s for which there is no invoke instruction" % e)
    sink.count("call_graph_edges", len(got))
    return n


# ---------------------------------------------------------------------------------------------------------
# entry points used by the rule modules
# ---------------------------------------------------------------------------------------------------------
_CACHE = {}


def results(repo):
    """all scenario results for one state of the repository model (cached per function-node identity)"""
    ana = repo.mod(ANALYSIS)
    key = (id(repo), tuple(id(f.node) for f in ana.functions.values()))
    if key not in _CACHE:
        _CACHE.clear()
        runner = Runner(repo)
        out = {"runner": runner, "scenarios": {}, "f6": None}
        for name, body in scenario_bodies().items():
            res = run_scenario(runner, name, body)
            if name.startswith("F1 ") and res.got.raised is not None:
                res.per_op = [(op, run_scenario(runner, name, [(op, ref, tag)])) for op, ref, tag in body]
            out["scenarios"][name] = res
        out["f6"] = run_f6(runner)
        _CACHE[key] = out
    return _CACHE[key]


def check_property(sink, repo, prop):
    ana = repo.mod(ANALYSIS)
    func = ana.func("Analysis._create_xref") if "Analysis._create_xref" in ana.functions else ana.func("Analysis.create_xref")
    for qn in ("Analysis.add", "Analysis.create_xref", "Analysis._create_xref", "Analysis._resolve_method"):
        if qn in ana.functions:
            sink.analysed(ana.functions[qn])
    R = results(repo)
    for rel, qn in sorted(R["runner"].touched):
        f = repo.mod(rel).functions.get(qn)
        if f is not None:
            sink.analysed(f)   # code of the real DEX classes that was executed on the model objects
    n = 0
    for name, res in R["scenarios"].items():
        fam = name.split()[0]
        n += report_scenario(sink, res, FAMILY_PROPS[fam], func, prop)
    if prop in ("C13", "C14", "C15", "C16"):
        n += report_f6(sink, R["f6"], func, prop)
    if prop == "C13":
        n += report_call_graph(sink, R["runner"], R["scenarios"]["F2 invoke variants"], ana.func("Analysis.get_call_graph"))
        sink.analysed(ana.func("Analysis.get_call_graph"))
    return n
