"""Symbolic string templates and an abstract evaluator for small string functions (used by C24).

A template stands for an infinite class of inputs: a sequence of concrete
characters and *atoms*.  An atom is a non-empty run of identifier characters of
unknown content and length (a simple class or package name); it never contains
'/', '.', ';', '[' or other punctuation.  The evaluator gives each string
operation an abstract semantics on templates:

* position based operations (indexing, slicing with constant bounds) are exact as
  long as they stay inside the concrete prefix / suffix; cutting through an atom
  yields a GARBLED piece (the result depends on the unknown text);
* literal comparisons (==, startswith, endswith, in, replace, removeprefix, split)
  treat an atom as *generic*: it does not happen to spell the literal;
* character-set operations (strip/lstrip/rstrip) consume concrete characters that
  are in the set and, on reaching an atom whose alphabet meets the set, *may* eat
  into it: the piece becomes GARBLED and the event is recorded (some member of the
  class loses characters).

Nothing of the repository is executed: the function's AST is interpreted over templates.
"""
from __future__ import annotations

import ast
import string

from .consts import Folder, Unknown
from .model import AnalysisError

IDENT_CHARS = set(string.ascii_letters + string.digits + "_$-")


class Atom:
    """a non-empty identifier of unknown text"""

    def __init__(self, name):
        self.name = name

    def __repr__(self):
        return "<%s>" % self.name

    def __eq__(self, o):
        return isinstance(o, Atom) and o.name == self.name

    def __hash__(self):
        return hash(("Atom", self.name))


class Garbled:
    """what is left of an atom after an operation cut into it"""

    def __init__(self, atom, how):
        self.atom = atom
        self.how = how

    def __repr__(self):
        return "<%s:%s>" % (self.atom.name, self.how)

    def __eq__(self, o):
        return isinstance(o, Garbled) and o.atom == self.atom and o.how == self.how

    def __hash__(self):
        return hash(("Garbled", self.atom, self.how))


class Sym:
    """opaque non-string value (e.g. the `size` argument), formatted as itself"""

    def __init__(self, name):
        self.name = name

    def __repr__(self):
        return "{%s}" % self.name

    def __eq__(self, o):
        return isinstance(o, Sym) and o.name == self.name

    def __hash__(self):
        return hash(("Sym", self.name))


class GDict(dict):
    """a module-level dict.  `persistent`: some function of the module mutates it, i.e. it is state that survives between calls"""
    persistent = False
    gname = None


class LenV:
    """len() of a persistent table that earlier calls may have grown to any size >= base: comparisons are answered for the size
    that makes a 'table is full' test true (that state is reachable: every call on a new key adds an entry)"""

    def __init__(self, base):
        self.base = base

    def cmp(self, sym, k):
        return {">=": True, ">": True, "<": False, "<=": False, "==": k >= self.base, "!=": k < self.base}[sym]


_MUTATORS = ("clear", "pop", "popitem", "update", "setdefault", "append", "extend", "insert", "remove", "add", "discard")


def module_mutates(module, name):
    """does any code of the module store into / remove from / call a mutating method on the global `name`?"""
    for n in ast.walk(module.tree):
        if isinstance(n, (ast.Assign, ast.AugAssign, ast.Delete)):
            targets = n.targets if isinstance(n, (ast.Assign, ast.Delete)) else [n.target]
            for t in targets:
                if isinstance(t, ast.Subscript) and isinstance(t.value, ast.Name) and t.value.id == name:
                    return True
        if (isinstance(n, ast.Call) and isinstance(n.func, ast.Attribute) and n.func.attr in _MUTATORS
                and isinstance(n.func.value, ast.Name) and n.func.value.id == name):
            return True
    return False


class NeedConcrete(AnalysisError):
    """the operation (a regular expression ...) cannot be given an abstract meaning on a name of unknown text; the caller may
    decide it on representative names instead"""


class RegexV:
    def __init__(self, pattern, flags=0):
        import re
        self.pattern = pattern
        try:
            self.rx = re.compile(pattern, flags)
        except re.error as e:
            raise AnalysisError("invalid regular expression %r: %s" % (pattern, e))

    def __repr__(self):
        return "re(%r)" % self.pattern


class MatchV:
    def __init__(self, m):
        self.m = m


class Pos:
    """a character position: exactly `lo`, or some unknown position >= lo (it lies behind a name of unknown length)"""

    def __init__(self, lo, exact, s=None, part=None):
        self.lo = lo
        self.exact = exact
        self.s = s          # the template the position refers to
        self.part = part    # index into s.parts of the character at this position

    def shifted(self, k):
        """the position k characters further (only across concrete characters)"""
        if self.s is None or self.part is None:
            return None
        j = self.part + k
        lo_, hi_ = (self.part, j) if k >= 0 else (j, self.part)
        if j < 0 or j > len(self.s.parts) or not all(isinstance(p, str) for p in self.s.parts[lo_:hi_]):
            return None
        return Pos(self.lo + k, False, self.s, j)

    def __repr__(self):
        return "%d" % self.lo if self.exact else ">=%d" % self.lo

    def cmp(self, sym, k):
        """three-valued comparison with the int k: True / False / None"""
        if self.exact:
            return {"==": self.lo == k, "!=": self.lo != k, "<": self.lo < k, "<=": self.lo <= k,
                    ">": self.lo > k, ">=": self.lo >= k}[sym]
        if sym == "==":
            return False if k < self.lo else None
        if sym == "!=":
            return True if k < self.lo else None
        if sym in (">", ">="):
            return True if (self.lo > k if sym == ">" else self.lo >= k) else None
        if sym in ("<", "<="):
            return False if (self.lo >= k if sym == "<" else self.lo > k) else None
        return None


class SStr:
    def __init__(self, parts=()):
        out = []
        for p in parts:
            if isinstance(p, str):
                out.extend(p)
            elif isinstance(p, SStr):
                out.extend(p.parts)
            else:
                out.append(p)
        self.parts = tuple(out)

    @staticmethod
    def of(*items):
        return SStr(items)

    def __eq__(self, o):
        return isinstance(o, SStr) and o.parts == self.parts

    def __hash__(self):
        return hash(self.parts)

    def __repr__(self):
        return "".join(p if isinstance(p, str) else repr(p) for p in self.parts)

    def concrete(self):
        return all(isinstance(p, str) for p in self.parts)

    def text(self):
        return "".join(self.parts)

    def __len__(self):
        return len(self.parts)

    def garbled(self):
        return any(isinstance(p, Garbled) for p in self.parts)

    def concretize(self, names):
        """a concrete member of the class: atoms replaced by the given texts"""
        out = []
        for p in self.parts:
            if isinstance(p, str):
                out.append(p)
            elif isinstance(p, Atom):
                out.append(names.get(p.name, p.name))
            elif isinstance(p, Sym):
                out.append(str(names.get(p.name, p.name)))
            else:
                out.append("?")
        return "".join(out)


def S(x):
    if isinstance(x, SStr):
        return x
    if isinstance(x, str):
        return SStr([x])
    raise AnalysisError("not a string value: %r" % (x,))


class StringEval:
    """abstract evaluation of one module-level string function on templates"""

    MAX_DEPTH = 8
    MAX_ITER = 12

    def __init__(self, repo, folder, func, strip_as_prefix=False, initial_state=None, size_mode="initial"):
        self.gstate = {}                          # (module relpath, name) -> GDict: module-level tables, shared by the whole evaluation
        self.initial_state = initial_state or {}  # contents to start from instead of the module's initial value
        self.size_mode = size_mode                # 'initial' | 'grown' (persistent tables have been filled by earlier calls)
        self.repo = repo
        self.folder = folder
        self.func = func          # the entry function
        self.cur = func           # the function being evaluated
        self.module = func.module
        self.strip_as_prefix = strip_as_prefix
        self.events = []      # ('strip', node, charset, detail) | ('guard', node, value) | ('cut', node, detail)
        self.called = []      # repository functions evaluated (entry, recursion, helpers)
        self.producer = None  # ast node of the expression that produced the returned value
        self.depth = 0

    # ---- entry -------------------------------------------------------------------
    def call(self, args, kwargs=None):
        return self.call_function(self.func, args, kwargs or {})

    def call_function(self, func, args, kwargs):
        """abstractly call a plain module-level repository function (the entry function, recursion, helpers)"""
        if func.cls is not None:
            raise AnalysisError("call of the method %s outside the fragment" % func.qualname)
        self.depth += 1
        if func not in self.called:
            self.called.append(func)
        saved = (self.cur, self.module, getattr(self, "env_src", None))
        if self.depth > self.MAX_DEPTH:
            raise AnalysisError("recursion depth exceeded in %s" % func.qualname)
        try:
            self.cur = func
            self.module = func.module
            a = func.node.args
            names = [x.arg for x in a.posonlyargs + a.args]
            if a.vararg or a.kwarg or a.kwonlyargs:
                raise AnalysisError("%s: signature outside the fragment" % func.qualname)
            if len(args) > len(names):
                raise _Raised(None)
            env = {}
            for n, v in zip(names, args):
                env[n] = v
            for k, v in kwargs.items():
                if k not in names or k in env:
                    raise _Raised(None)
                env[k] = v
            for i, d in enumerate(a.defaults):
                n = names[len(names) - len(a.defaults) + i]
                if n not in env:
                    env[n] = self.expr(d, {})
            for n in names:
                if n not in env:
                    raise _Raised(None)
            self.env_src = {}
            try:
                self.block(func.node.body, env)
            except _Return as r:
                return r.value
            return None
        finally:
            self.depth -= 1
            self.cur, self.module, self.env_src = saved

    # ---- statements ------------------------------------------------------------------
    def block(self, stmts, env):
        for s in stmts:
            self.stmt(s, env)

    def stmt(self, s, env):
        if isinstance(s, ast.Expr):
            if isinstance(s.value, ast.Constant):
                return
            if isinstance(s.value, ast.Call) and self._is_logging(s.value):
                return
            self.expr(s.value, env)
        elif isinstance(s, ast.Assign):
            v = self.expr(s.value, env)
            for t in s.targets:
                self.assign(t, v, env, s.value)
        elif isinstance(s, ast.AnnAssign):
            if s.value is not None:
                self.assign(s.target, self.expr(s.value, env), env, s.value)
        elif isinstance(s, ast.AugAssign):
            if not isinstance(s.target, ast.Name):
                raise AnalysisError("augmented assignment target outside the fragment")
            cur = env.get(s.target.id)
            v = self.binop(s.op, cur, self.expr(s.value, env), s)
            env[s.target.id] = v
            self.env_src[s.target.id] = s
        elif isinstance(s, ast.Return):
            v = self.expr(s.value, env) if s.value is not None else None
            if self.depth == 1 and self.cur is self.func:
                src = s.value
                if isinstance(src, ast.Name) and src.id in self.env_src:
                    src = self.env_src[src.id]
                self.producer = src
            raise _Return(v)
        elif isinstance(s, ast.If):
            t = self.truth(self.expr(s.test, env), s.test)
            self.events.append(("guard", s.test, t))
            self.block(s.body if t else s.orelse, env)
        elif isinstance(s, ast.While):
            n = 0
            while self.truth(self.expr(s.test, env), s.test):
                n += 1
                if n > self.MAX_ITER:
                    raise AnalysisError("loop does not terminate on a template within %d iterations" % self.MAX_ITER)
                try:
                    self.block(s.body, env)
                except _Break:
                    break
                except _Continue:
                    continue
            else:
                self.block(s.orelse, env)
        elif isinstance(s, ast.For):
            it = self.expr(s.iter, env)
            if not isinstance(it, (list, tuple)):
                raise AnalysisError("for loop over a non-list outside the fragment")
            for x in it:
                self.assign(s.target, x, env, s.iter)
                try:
                    self.block(s.body, env)
                except _Break:
                    break
                except _Continue:
                    continue
            else:
                self.block(s.orelse, env)
        elif isinstance(s, ast.Delete):
            for t in s.targets:
                if not (isinstance(t, ast.Subscript) and not isinstance(t.slice, ast.Slice)):
                    raise AnalysisError("del target outside the fragment")
                base = self.expr(t.value, env)
                k = self.expr(t.slice, env)
                if not isinstance(base, dict):
                    raise AnalysisError("del target outside the fragment")
                if self.dict_get(base, k, _MISSING) is _MISSING:
                    raise _Raised(s)
                for kk in list(base):
                    if kk == k:
                        del base[kk]
                self.events.append(("state-remove", s, getattr(base, "gname", None)))
        elif isinstance(s, ast.Break):
            raise _Break()
        elif isinstance(s, ast.Continue):
            raise _Continue()
        elif isinstance(s, ast.Pass):
            pass
        elif isinstance(s, ast.Raise):
            raise _Raised(s)
        elif isinstance(s, ast.Try):
            # a try whose body does not raise in the abstract semantics
            try:
                self.block(s.body, env)
            except _Raised:
                if not s.handlers:
                    raise
                self.block(s.handlers[0].body, env)
            else:
                self.block(s.orelse, env)
            self.block(s.finalbody, env)
        elif isinstance(s, (ast.Import, ast.ImportFrom, ast.Global, ast.Assert)):
            pass
        else:
            raise AnalysisError("%s: statement %s outside the fragment" % (self.cur.qualname, type(s).__name__))

    def assign(self, t, v, env, src):
        if isinstance(t, ast.Name):
            env[t.id] = v
            self.env_src[t.id] = src
        elif isinstance(t, (ast.Tuple, ast.List)) and isinstance(v, (list, tuple)) and len(v) == len(t.elts):
            for e, x in zip(t.elts, v):
                self.assign(e, x, env, src)
        elif isinstance(t, ast.Subscript) and not isinstance(t.slice, ast.Slice):
            base = self.expr(t.value, env)
            if not isinstance(base, dict):
                raise AnalysisError("assignment target outside the fragment: %s" % ast.unparse(t))
            k = self.expr(t.slice, env)
            try:
                existing = next((kk for kk in base if isinstance(kk, SStr) and isinstance(k, SStr) and self.equal(kk, k)), k)
                base[existing] = v
            except TypeError:
                raise AnalysisError("unhashable table key: %s" % ast.unparse(t))
            self.events.append(("state-write", t, getattr(base, "gname", None)))
        else:
            raise AnalysisError("assignment target outside the fragment: %s" % ast.unparse(t))

    def _is_logging(self, call):
        f = call.func
        while isinstance(f, ast.Attribute):
            f = f.value
        return isinstance(f, ast.Name) and f.id in ("logger", "logging", "log", "warnings", "print")

    # ---- truth -----------------------------------------------------------------------
    def truth(self, v, node=None):
        if isinstance(v, bool):
            return v
        if v is None:
            return False
        if isinstance(v, int):
            return v != 0
        if isinstance(v, SStr):
            return len(v.parts) > 0
        if isinstance(v, (list, tuple, dict)):
            return len(v) > 0
        if isinstance(v, (Sym, MatchV, RegexV)):
            return True
        raise AnalysisError("condition of unknown truth value%s" % ((": " + ast.unparse(node)) if node is not None else ""))

    # ---- expressions -----------------------------------------------------------------
    def expr(self, e, env):
        m = getattr(self, "x_" + type(e).__name__, None)
        if m is None:
            raise AnalysisError("%s: expression %s outside the fragment (%s)" % (self.cur.qualname, type(e).__name__, ast.unparse(e)[:60]))
        return m(e, env)

    def x_Constant(self, e, env):
        if isinstance(e.value, str):
            return SStr([e.value])
        return e.value

    def x_Name(self, e, env):
        if e.id in env:
            return env[e.id]
        if e.id in ("True", "False", "None"):
            return {"True": True, "False": False, "None": None}[e.id]
        r = self.module.resolve_name(e.id)
        if r is not None and r[0] == "func":
            return ("func", r[1])
        if r is not None and r[0] == "const":
            rx = self.regex_literal(r[2], r[1])
            if rx is not None:
                return rx
            key = (r[1].relpath, e.id)
            if key in self.gstate:
                return self.gstate[key]
            v = self.folder.fold(r[2], r[1])
            if isinstance(v, Unknown):
                raise AnalysisError("global %s does not fold to a constant" % e.id)
            lv = self.lift(v)
            if isinstance(lv, dict):
                g = GDict(self.initial_state[key] if key in self.initial_state else lv)
                g.gname = e.id
                g.initial_keys = list(lv.keys())
                g.persistent = module_mutates(r[1], e.id)
                self.gstate[key] = g
                return g
            if isinstance(lv, list) and module_mutates(r[1], e.id):
                raise AnalysisError("module-level list %s is mutated by the module: persistent state outside the fragment" % e.id)
            return lv
        if e.id == "re" and self.module.imports.get("re") == ("re", None):
            return ("remodule",)
        if e.id in ("len", "str", "isinstance", "int", "list", "tuple"):
            return ("builtin", e.id)
        raise AnalysisError("%s: name %s outside the fragment" % (self.cur.qualname, e.id))

    def regex_literal(self, expr, module):
        """re.compile(<constant pattern>[, constant flags]) -> RegexV"""
        if not (isinstance(expr, ast.Call) and isinstance(expr.func, ast.Attribute) and expr.func.attr == "compile"
                and isinstance(expr.func.value, ast.Name) and expr.func.value.id == "re" and expr.args):
            return None
        pat = self.folder.fold(expr.args[0], module)
        if not isinstance(pat, str):
            raise AnalysisError("regular expression pattern is not a constant string")
        flags = 0
        if len(expr.args) > 1 or expr.keywords:
            import re
            fe = expr.args[1] if len(expr.args) > 1 else expr.keywords[0].value
            names = [n.attr for n in ast.walk(fe) if isinstance(n, ast.Attribute)]
            if not names or any(not hasattr(re, n) for n in names) or any(not isinstance(n, (ast.Attribute, ast.Name, ast.BinOp, ast.BitOr, ast.Load)) for n in ast.walk(fe)):
                raise AnalysisError("regular expression flags outside the fragment")
            for n in names:
                flags |= int(getattr(re, n))
        return RegexV(pat, flags)

    def lift(self, v):
        from .consts import Ref
        if isinstance(v, Ref):
            if v.kind == "func":
                return ("func", v.obj)
            raise AnalysisError("class reference %s outside the fragment" % v.name)
        if isinstance(v, str):
            return SStr([v])
        if isinstance(v, dict):
            return {self.lift(k): self.lift(x) for k, x in v.items()}
        if isinstance(v, (list, tuple)):
            return [self.lift(x) for x in v]
        if isinstance(v, (set, frozenset)):
            return [self.lift(x) for x in sorted(v, key=repr)]
        return v

    def x_Tuple(self, e, env):
        return tuple(self.expr(x, env) for x in e.elts)

    def x_List(self, e, env):
        return [self.expr(x, env) for x in e.elts]

    def x_ListComp(self, e, env):
        if len(e.generators) != 1 or e.generators[0].is_async:
            raise AnalysisError("nested comprehension outside the fragment")
        g = e.generators[0]
        it = self.expr(g.iter, env)
        if not isinstance(it, (list, tuple)):
            raise AnalysisError("comprehension over a non-list outside the fragment")
        out = []
        sub = dict(env)
        saved = dict(self.env_src)
        for x in it:
            self.assign(g.target, x, sub, g.iter)
            if all(self.truth(self.expr(c, sub), c) for c in g.ifs):
                out.append(self.expr(e.elt, sub))
        self.env_src = saved
        return out

    x_GeneratorExp = x_ListComp

    def x_JoinedStr(self, e, env):
        out = []
        for v in e.values:
            if isinstance(v, ast.Constant):
                out.append(v.value)
            elif isinstance(v, ast.FormattedValue) and v.format_spec is None and v.conversion in (-1, 115):
                out.append(self.as_text(self.expr(v.value, env)))
            else:
                raise AnalysisError("f-string with format spec outside the fragment")
        return SStr(out)

    def as_text(self, v):
        if isinstance(v, SStr):
            return v
        if isinstance(v, Sym):
            return SStr([v])
        if isinstance(v, (int,)) and not isinstance(v, bool):
            return SStr([str(v)])
        if v is None:
            return SStr(["None"])
        raise AnalysisError("cannot format value %r" % (v,))

    def x_BoolOp(self, e, env):
        is_and = isinstance(e.op, ast.And)
        v = None
        for x in e.values:
            v = self.expr(x, env)
            t = self.truth(v, x)
            if is_and and not t:
                return v
            if not is_and and t:
                return v
        return v

    def x_UnaryOp(self, e, env):
        v = self.expr(e.operand, env)
        if isinstance(e.op, ast.Not):
            return not self.truth(v, e.operand)
        if isinstance(e.op, ast.USub) and isinstance(v, int):
            return -v
        raise AnalysisError("unary operator outside the fragment")

    def x_IfExp(self, e, env):
        t = self.truth(self.expr(e.test, env), e.test)
        self.events.append(("guard", e.test, t))
        return self.expr(e.body if t else e.orelse, env)

    def x_BinOp(self, e, env):
        return self.binop(e.op, self.expr(e.left, env), self.expr(e.right, env), e)

    def binop(self, op, a, b, node):
        if isinstance(a, Pos) and isinstance(b, int) and isinstance(op, (ast.Add, ast.Sub)):
            r = a.shifted(b if isinstance(op, ast.Add) else -b)
            if r is None:
                raise AnalysisError("position arithmetic across a name of unknown length: %s" % ast.unparse(node)[:80])
            return r
        if isinstance(b, Pos) and isinstance(a, int) and isinstance(op, ast.Add):
            return self.binop(op, b, a, node)
        if isinstance(op, ast.Add):
            if isinstance(a, SStr) and isinstance(b, SStr):
                return SStr(a.parts + b.parts)
            if isinstance(a, int) and isinstance(b, int):
                return a + b
            if isinstance(a, list) and isinstance(b, list):
                return a + b
        if isinstance(op, ast.Sub) and isinstance(a, int) and isinstance(b, int):
            return a - b
        if isinstance(op, ast.Mult):
            if isinstance(a, SStr) and isinstance(b, int) and not isinstance(b, bool):
                return SStr(a.parts * max(b, 0))
            if isinstance(b, SStr) and isinstance(a, int) and not isinstance(a, bool):
                return SStr(b.parts * max(a, 0))
            if isinstance(a, int) and isinstance(b, int):
                return a * b
        if isinstance(op, ast.Mod) and isinstance(a, SStr):
            return self.percent(a, b)
        raise AnalysisError("binary operation outside the fragment: %s" % ast.unparse(node)[:80])

    def percent(self, fmt, arg):
        if not fmt.concrete():
            raise AnalysisError("%-format with a non-constant format string")
        args = list(arg) if isinstance(arg, tuple) else [arg]
        text = fmt.text()
        out = []
        i = 0
        k = 0
        while i < len(text):
            c = text[i]
            if c == "%":
                if i + 1 >= len(text):
                    raise AnalysisError("bad format string")
                d = text[i + 1]
                if d == "%":
                    out.append("%")
                elif d in "sd":
                    if k >= len(args):
                        raise _Raised(None)
                    out.append(self.as_text(args[k]))
                    k += 1
                else:
                    raise AnalysisError("format directive %%%s outside the fragment" % d)
                i += 2
            else:
                out.append(c)
                i += 1
        if k != len(args):
            raise _Raised(None)
        return SStr(out)

    def fmt_method(self, fmt, args):
        if not fmt.concrete():
            raise AnalysisError("str.format on a non-constant format string")
        text = fmt.text()
        out = []
        i = 0
        k = 0
        while i < len(text):
            if text.startswith("{{", i):
                out.append("{")
                i += 2
            elif text.startswith("}}", i):
                out.append("}")
                i += 2
            elif text[i] == "{":
                j = text.index("}", i)
                spec = text[i + 1:j]
                if spec == "":
                    idx = k
                    k += 1
                elif spec.isdigit():
                    idx = int(spec)
                else:
                    raise AnalysisError("format field {%s} outside the fragment" % spec)
                if idx >= len(args):
                    raise _Raised(None)
                out.append(self.as_text(args[idx]))
                i = j + 1
            else:
                out.append(text[i])
                i += 1
        return SStr(out)

    def x_Compare(self, e, env):
        left = self.expr(e.left, env)
        for op, c in zip(e.ops, e.comparators):
            right = self.expr(c, env)
            r = self.compare(op, left, right, e)
            if not r:
                return False
            left = right
        return True

    def compare(self, op, a, b, node):
        if isinstance(a, LenV) or isinstance(b, LenV):
            sym = self._SYM.get(type(op))
            if sym is None or not isinstance(b if isinstance(a, LenV) else a, int):
                raise AnalysisError("comparison of a table size outside the fragment: %s" % ast.unparse(node)[:80])
            return a.cmp(sym, b) if isinstance(a, LenV) else b.cmp(self._FLIP[sym], a)
        if isinstance(a, Pos) or isinstance(b, Pos):
            return self.pos_compare(op, a, b, node)
        if isinstance(op, (ast.Is, ast.IsNot)):
            if b is None or a is None:
                return ((a is None) and (b is None)) != isinstance(op, ast.IsNot)
            raise AnalysisError("identity comparison outside the fragment")
        if isinstance(op, (ast.Eq, ast.NotEq)):
            if isinstance(a, SStr) and isinstance(b, SStr):
                return self.equal(a, b) != isinstance(op, ast.NotEq)
            if a is None or b is None or isinstance(a, (int, bool)) and isinstance(b, (int, bool)):
                return (a == b) != isinstance(op, ast.NotEq)
            if isinstance(a, Sym) or isinstance(b, Sym):
                raise AnalysisError("comparison with the opaque size value")
            return (a == b) != isinstance(op, ast.NotEq)
        if isinstance(op, (ast.In, ast.NotIn)):
            neg = isinstance(op, ast.NotIn)
            if isinstance(b, SStr) and isinstance(a, SStr):
                if b.concrete() and len(a.parts) == 1:
                    # atype[0] in 'VZB...': membership of one (possibly unknown) character in a literal
                    p = a.parts[0]
                    if isinstance(p, str):
                        return (p in b.text()) != neg
                    return neg  # generic atom / garbled piece: not one of the listed characters
                return (self.find(b, a) is not None) != neg
            if isinstance(b, dict):
                return (self.dict_get(b, a, _MISSING) is not _MISSING) != neg
            if isinstance(b, (list, tuple)) and isinstance(a, SStr):
                return any(isinstance(x, SStr) and self.equal(a, x) for x in b) != neg
            raise AnalysisError("membership test outside the fragment: %s" % ast.unparse(node)[:80])
        if isinstance(a, int) and isinstance(b, int):
            return {ast.Lt: a < b, ast.LtE: a <= b, ast.Gt: a > b, ast.GtE: a >= b}[type(op)]
        raise AnalysisError("comparison outside the fragment: %s" % ast.unparse(node)[:80])

    _SYM = {ast.Eq: "==", ast.NotEq: "!=", ast.Lt: "<", ast.LtE: "<=", ast.Gt: ">", ast.GtE: ">="}
    _FLIP = {"==": "==", "!=": "!=", "<": ">", "<=": ">=", ">": "<", ">=": "<="}

    def pos_compare(self, op, a, b, node):
        sym = self._SYM.get(type(op))
        if sym is None:
            raise AnalysisError("comparison of a position outside the fragment: %s" % ast.unparse(node)[:80])
        if isinstance(a, Pos) and isinstance(b, int):
            r = a.cmp(sym, b)
        elif isinstance(b, Pos) and isinstance(a, int):
            r = b.cmp(self._FLIP[sym], a)
        elif isinstance(a, Pos) and isinstance(b, Pos) and a.exact and b.exact:
            r = Pos(a.lo, True).cmp(sym, b.lo)
        else:
            r = None
        if r is None:
            raise AnalysisError("position %r of a character behind a name of unknown length: cannot decide %s"
                                % (a if isinstance(a, Pos) else b, ast.unparse(node)[:80]))
        return r

    # generic-atom semantics for literal comparisons ------------------------------------------
    @staticmethod
    def equal(a, b):
        return a.parts == b.parts

    @staticmethod
    def find(hay, needle, start=0):
        """first index where the parts of `needle` occur literally in `hay` (atoms only match themselves)"""
        n = len(needle.parts)
        if n == 0:
            return start
        for i in range(start, len(hay.parts) - n + 1):
            if hay.parts[i:i + n] == needle.parts:
                return i
        return None

    def dict_get(self, d, key, default):
        if not isinstance(key, SStr):
            return d.get(key, default)
        for k, v in d.items():
            if isinstance(k, SStr) and self.equal(k, key):
                return v
        return default

    # ---- subscripts -------------------------------------------------------------------------
    def x_Subscript(self, e, env):
        base = self.expr(e.value, env)
        if isinstance(e.slice, ast.Slice):
            lo = self.expr(e.slice.lower, env) if e.slice.lower is not None else None
            hi = self.expr(e.slice.upper, env) if e.slice.upper is not None else None
            if e.slice.step is not None:
                raise AnalysisError("slice step outside the fragment")
            for x in (lo, hi):
                if isinstance(x, Pos):
                    if not (isinstance(base, SStr) and x.s is not None and x.s.parts == base.parts):
                        raise AnalysisError("slice at a position found in another string: %s" % ast.unparse(e)[:60])
                    continue
                if not (x is None or (isinstance(x, int) and not isinstance(x, bool))):
                    raise AnalysisError("slice bound is not a constant: %s" % ast.unparse(e)[:60])
            if isinstance(base, list):
                return base[lo:hi]
            return self.slice(S(base), lo, hi, e)
        k = self.expr(e.slice, env)
        if isinstance(base, dict):
            v = self.dict_get(base, k, _MISSING)
            if v is _MISSING:
                raise _Raised(e)
            return v
        if isinstance(base, (list, tuple)):
            if not isinstance(k, int):
                raise AnalysisError("list index is not a constant")
            try:
                return base[k]
            except IndexError:
                raise _Raised(e)
        if isinstance(base, SStr):
            if not isinstance(k, int):
                raise AnalysisError("string index is not a constant")
            r = self.slice(base, k, k + 1 if k != -1 else None, e)
            if len(r.parts) == 0:
                raise _Raised(e)
            return r
        raise AnalysisError("subscript outside the fragment: %s" % ast.unparse(e)[:60])

    def _boundary(self, s, k, node):
        """index into s.parts of character position k (k >= 0 from the left, k < 0 from the right); when the position
        falls inside an atom returns ('cut', part index)"""
        parts = s.parts
        if k >= 0:
            pos = 0
            for i, p in enumerate(parts):
                if pos == k:
                    return i
                if isinstance(p, str):
                    pos += 1
                else:
                    return ("cut", i)
            return len(parts)
        pos = 0
        for i in range(len(parts) - 1, -1, -1):
            p = parts[i]
            if isinstance(p, str):
                pos -= 1
                if pos == k:
                    return i
            else:
                return ("cut", i)
        return 0

    def slice(self, s, lo, hi, node):
        parts = list(s.parts)
        a = (lo.part if isinstance(lo, Pos) else self._boundary(s, lo, node)) if lo is not None else 0
        b = (hi.part if isinstance(hi, Pos) else self._boundary(s, hi, node)) if hi is not None else len(parts)
        cut = False
        if isinstance(a, tuple):
            i = a[1]
            parts[i] = Garbled(_atom_of(parts[i]), "cut")
            a = i
            cut = True
        if isinstance(b, tuple):
            i = b[1]
            parts[i] = Garbled(_atom_of(parts[i]), "cut")
            b = i + 1
            cut = True
        if cut:
            self.events.append(("cut", node, "a constant offset falls inside a name of unknown length"))
        return SStr(parts[a:b]) if a < b else SStr([])

    # ---- calls --------------------------------------------------------------------------------
    def x_Attribute(self, e, env):
        raise AnalysisError("attribute access outside the fragment: %s" % ast.unparse(e)[:60])

    def x_Call(self, e, env):
        f = e.func
        if isinstance(f, ast.Attribute):
            if e.keywords and not self._is_logging(e):
                raise AnalysisError("keyword arguments outside the fragment: %s" % ast.unparse(e)[:60])
            if self._is_logging(e):
                return None
            recv = self.expr(f.value, env)
            args = [self.expr(a, env) for a in e.args]
            return self.method(recv, f.attr, args, e)
        fn = self.expr(f, env)
        args = [self.expr(a, env) for a in e.args]
        if isinstance(fn, tuple) and len(fn) == 2 and fn[0] == "func":
            kwargs = {}
            for k in e.keywords:
                if k.arg is None:
                    raise AnalysisError("**kwargs call outside the fragment")
                kwargs[k.arg] = self.expr(k.value, env)
            return self.call_function(fn[1], args, kwargs)
        if isinstance(fn, tuple) and fn[0] == "builtin":
            if fn[1] == "len" and len(args) == 1:
                v = args[0]
                if isinstance(v, GDict) and v.persistent and self.size_mode == "grown":
                    return LenV(len(v))
                if isinstance(v, (list, tuple, dict)):
                    return len(v)
                if isinstance(v, SStr) and v.concrete():
                    return len(v.parts)
                raise AnalysisError("len() of a string of unknown length")
            if fn[1] == "str" and len(args) == 1:
                return self.as_text(args[0])
            if fn[1] in ("list", "tuple") and len(args) <= 1:
                v = args[0] if args else []
                if isinstance(v, (list, tuple)):
                    return list(v) if fn[1] == "list" else tuple(v)
        raise AnalysisError("call outside the fragment: %s" % ast.unparse(e)[:60])

    def regex_call(self, rx, name, args, node):
        import re
        def text(v):
            v = S(v)
            if not v.concrete():
                raise NeedConcrete("regular expression %r applied to a name of unknown text" % rx.pattern)
            return v.text()
        if name in ("findall", "match", "fullmatch", "search", "split") and len(args) == 1:
            t = text(args[0])
            r = getattr(rx.rx, name)(t)
            if name == "findall":
                return [SStr([x]) if isinstance(x, str) else tuple(SStr([y]) for y in x) for x in r]
            if name == "split":
                return [SStr([x]) if x is not None else None for x in r]
            return MatchV(r) if r is not None else None
        if name == "sub" and 2 <= len(args) <= 3:
            repl = S(args[0])
            if not repl.concrete():
                raise AnalysisError("regular expression replacement is not a constant string")
            count = args[2] if len(args) == 3 else 0
            if not isinstance(count, int):
                raise AnalysisError("regular expression count is not a constant")
            return SStr([rx.rx.sub(repl.text(), text(args[1]), count=count)])
        if name == "finditer" and len(args) == 1:
            return [MatchV(m) for m in rx.rx.finditer(text(args[0]))]
        raise AnalysisError("regular expression method %s outside the fragment" % name)

    def method(self, recv, name, args, node):
        if isinstance(recv, RegexV):
            return self.regex_call(recv, name, args, node)
        if recv == ("remodule",):
            if name == "compile" and args and isinstance(args[0], SStr) and args[0].concrete() and len(args) == 1:
                return RegexV(args[0].text())
            if args and isinstance(args[0], SStr) and args[0].concrete():
                return self.regex_call(RegexV(args[0].text()), name, args[1:], node)
            raise AnalysisError("re.%s with a non-constant pattern outside the fragment" % name)
        if isinstance(recv, MatchV):
            m = recv.m
            if name == "group" and all(isinstance(a, int) for a in args):
                r = m.group(*args)
                if isinstance(r, tuple):
                    return tuple(SStr([x]) if x is not None else None for x in r)
                return SStr([r]) if r is not None else None
            if name == "groups" and not args:
                return tuple(SStr([x]) if x is not None else None for x in m.groups())
            if name in ("start", "end") and all(isinstance(a, int) for a in args):
                return getattr(m, name)(*args)
            if name == "span" and all(isinstance(a, int) for a in args):
                return m.span(*args)
            raise AnalysisError("match method %s outside the fragment" % name)
        if isinstance(recv, list):
            if name == "append" and len(args) == 1:
                recv.append(args[0])
                return None
            if name == "extend" and len(args) == 1 and isinstance(args[0], (list, tuple)):
                recv.extend(args[0])
                return None
            raise AnalysisError("list method %s outside the fragment" % name)
        if isinstance(recv, dict):
            if name == "get" and 1 <= len(args) <= 2:
                return self.dict_get(recv, args[0], args[1] if len(args) > 1 else None)
            gname = getattr(recv, "gname", None)
            if name == "clear" and not args:
                recv.clear()
                self.events.append(("state-remove", node, gname))
                return None
            if name == "pop" and 1 <= len(args) <= 2:
                v = self.dict_get(recv, args[0], _MISSING)
                if v is _MISSING:
                    if len(args) == 2:
                        return args[1]
                    raise _Raised(node)
                for kk in list(recv):
                    if kk == args[0]:
                        del recv[kk]
                self.events.append(("state-remove", node, gname))
                return v
            if name == "setdefault" and len(args) == 2:
                v = self.dict_get(recv, args[0], _MISSING)
                if v is _MISSING:
                    recv[args[0]] = args[1]
                    self.events.append(("state-write", node, gname))
                    return args[1]
                return v
            if name == "update" and len(args) == 1 and isinstance(args[0], dict):
                recv.update(args[0])
                self.events.append(("state-write", node, gname))
                return None
            if name == "copy" and not args:
                return dict(recv)
            raise AnalysisError("dict method %s outside the fragment" % name)
        if isinstance(recv, SStr):
            return self.str_method(recv, name, args, node)
        raise AnalysisError("method %s on %r outside the fragment" % (name, type(recv).__name__))

    def _lit(self, v, what):
        if isinstance(v, SStr) and v.concrete():
            return v.text()
        raise AnalysisError("%s argument is not a string literal" % what)

    def str_method(self, s, name, args, node):
        if name in ("startswith", "endswith") and len(args) == 1:
            lits = args[0] if isinstance(args[0], tuple) else (args[0],)
            for l in lits:
                l = S(l)
                n = len(l.parts)
                if n <= len(s.parts) and (s.parts[:n] if name == "startswith" else s.parts[len(s.parts) - n:]) == l.parts:
                    return True
            return False
        if name in ("lstrip", "rstrip", "strip"):
            if not args or args[0] is None:
                return s  # whitespace: templates contain none
            lit = self._lit(args[0], name)
            return self.strip(s, lit, name, node)
        if name in ("removeprefix", "removesuffix") and len(args) == 1:
            l = S(args[0])
            n = len(l.parts)
            if name == "removeprefix" and s.parts[:n] == l.parts:
                return SStr(s.parts[n:])
            if name == "removesuffix" and n and s.parts[len(s.parts) - n:] == l.parts:
                return SStr(s.parts[:len(s.parts) - n])
            return s
        if name == "replace" and 2 <= len(args) <= 3:
            old, new = S(args[0]), S(args[1])
            limit = args[2] if len(args) == 3 else None
            if limit is not None and not isinstance(limit, int):
                raise AnalysisError("replace count is not a constant")
            if len(old.parts) == 0:
                raise AnalysisError("replace of the empty string outside the fragment")
            if old.concrete() and all(c in IDENT_CHARS for c in old.text()) and any(isinstance(p, Atom) for p in s.parts):
                raise AnalysisError("replace(%r, ...) may act inside a name of unknown text: cannot decide" % old.text())
            out = []
            i = 0
            n = len(old.parts)
            done = 0
            while i < len(s.parts):
                if s.parts[i:i + n] == old.parts and (limit is None or limit < 0 or done < limit):
                    out.extend(new.parts)
                    i += n
                    done += 1
                else:
                    out.append(s.parts[i])
                    i += 1
            return SStr(out)
        if name == "count" and len(args) == 1:
            l = S(args[0])
            if l.concrete() and all(c in IDENT_CHARS for c in l.text()) and any(isinstance(p, Atom) for p in s.parts):
                raise AnalysisError("count(%r) may match inside a name of unknown text" % l.text())
            c = 0
            i = 0
            n = len(l.parts)
            while n and i + n <= len(s.parts):
                if s.parts[i:i + n] == l.parts:
                    c += 1
                    i += n
                else:
                    i += 1
            return c
        if name in ("split", "rsplit") and (not args or args[0] is None):
            out, cur = [], []
            for p_ in s.parts:
                if isinstance(p_, str) and p_.isspace():
                    if cur:
                        out.append(SStr(cur))
                        cur = []
                else:
                    cur.append(p_)
            if cur:
                out.append(SStr(cur))
            return out
        if name in ("split", "rsplit") and 1 <= len(args) <= 2:
            sep = S(args[0])
            if len(sep.parts) == 0 or (sep.concrete() and all(c in IDENT_CHARS for c in sep.text())):
                raise AnalysisError("split separator outside the fragment")
            limit = args[1] if len(args) == 2 else -1
            if not isinstance(limit, int):
                raise AnalysisError("split limit is not a constant")
            idxs = []
            i = 0
            n = len(sep.parts)
            while i + n <= len(s.parts):
                if s.parts[i:i + n] == sep.parts:
                    idxs.append(i)
                    i += n
                else:
                    i += 1
            if limit >= 0:
                idxs = idxs[:limit] if name == "split" else idxs[len(idxs) - limit:] if limit else []
            out = []
            prev = 0
            for i in idxs:
                out.append(SStr(s.parts[prev:i]))
                prev = i + n
            out.append(SStr(s.parts[prev:]))
            return out
        if name in ("partition", "rpartition") and len(args) == 1:
            sep = S(args[0])
            n = len(sep.parts)
            found = None
            rng = range(0, len(s.parts) - n + 1)
            for i in (rng if name == "partition" else reversed(rng)):
                if s.parts[i:i + n] == sep.parts:
                    found = i
                    break
            if found is None:
                return (s, SStr([]), SStr([])) if name == "partition" else (SStr([]), SStr([]), s)
            return (SStr(s.parts[:found]), sep, SStr(s.parts[found + n:]))
        if name in ("find", "rfind", "index", "rindex") and len(args) == 1:
            l = S(args[0])
            if len(l.parts) == 0 or (l.concrete() and all(c in IDENT_CHARS for c in l.text()) and any(isinstance(p, Atom) for p in s.parts)):
                raise AnalysisError("%s(%r) may match inside a name of unknown text" % (name, l))
            n = len(l.parts)
            rng = range(0, len(s.parts) - n + 1)
            found = None
            for i in (rng if name in ("find", "index") else reversed(rng)):
                if s.parts[i:i + n] == l.parts:
                    found = i
                    break
            if found is None:
                if name in ("index", "rindex"):
                    raise _Raised(node)
                return -1
            before = s.parts[:found]
            exact = all(isinstance(p, str) for p in before)
            if exact:
                return found
            return Pos(found, False, s, found)
        if name == "join" and len(args) == 1 and isinstance(args[0], (list, tuple)):
            out = []
            for i, x in enumerate(args[0]):
                if i:
                    out.extend(s.parts)
                out.extend(S(x).parts)
            return SStr(out)
        if name == "format":
            return self.fmt_method(s, args)
        raise AnalysisError("string method %s outside the fragment" % name)

    def strip(self, s, charset, which, node):
        cs = set(charset)
        multi = len(charset) >= 2
        if self.strip_as_prefix and multi:
            # counterfactual: what the call would do if it removed the literal as a prefix / suffix
            lit = SStr([charset])
            n = len(lit.parts)
            out = s
            if which in ("lstrip", "strip") and out.parts[:n] == lit.parts:
                out = SStr(out.parts[n:])
            if which in ("rstrip", "strip") and n and out.parts[len(out.parts) - n:] == lit.parts:
                out = SStr(out.parts[:len(out.parts) - n])
            return out
        parts = list(s.parts)
        removed_l = removed_r = ""
        into = []
        if which in ("lstrip", "strip"):
            while parts and isinstance(parts[0], str) and parts[0] in cs:
                removed_l += parts.pop(0)
            if parts and isinstance(parts[0], Atom) and cs & IDENT_CHARS:
                into.append(parts[0])
                parts[0] = Garbled(parts[0], "lstripped")
        if which in ("rstrip", "strip"):
            while parts and isinstance(parts[-1], str) and parts[-1] in cs:
                removed_r = parts.pop() + removed_r
            if parts and isinstance(parts[-1], Atom) and cs & IDENT_CHARS:
                into.append(parts[-1])
                parts[-1] = Garbled(parts[-1], "rstripped")
        if multi:
            self.events.append(("strip", node, charset, dict(removed_left=removed_l, removed_right=removed_r,
                                                             into=[a.name for a in into], which=which)))
        return SStr(parts)


def _atom_of(p):
    if isinstance(p, Atom):
        return p
    if isinstance(p, Garbled):
        return p.atom
    return Atom("?")


class _Return(Exception):
    def __init__(self, value):
        self.value = value


class _Raised(Exception):
    def __init__(self, node):
        self.node = node


class _Break(Exception):
    pass


class _Continue(Exception):
    pass


_MISSING = object()
Raised = _Raised
